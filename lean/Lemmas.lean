/-
Arithmetic lemmas that the qkeras contracts use as assumed background facts
(DESIGN.md 11: L-prod, L-sum, L-vertex, L-mean, the pow2 axiom schemata and the
mono / cong instances added to VCs).  Checked by Lean 4 + Mathlib; every goal is closed (nothing admitted).
-/
import Mathlib

open Finset BigOperators

namespace QKerasVerif

/-- mono instance added to VCs: a ≤ b, 0 ≤ c ⊢ a*c ≤ b*c. -/
theorem mono_inst (a b c : ℝ) (h : a ≤ b) (hc : 0 ≤ c) : a * c ≤ b * c :=
  mul_le_mul_of_nonneg_right h hc

/-- cong instance added to VCs. -/
theorem cong_inst (x a b : ℝ) (h : a = b) : x * a = x * b := by rw [h]

/-- pow2 schema: 2^a * 2^b = 2^(a+b) over integer exponents. -/
theorem pow2_add (a b : ℤ) : (2:ℝ) ^ a * (2:ℝ) ^ b = (2:ℝ) ^ (a + b) := by
  rw [zpow_add₀ (by norm_num : (2:ℝ) ≠ 0)]

/-- pow2 schema: strictly monotone. -/
theorem pow2_lt (a b : ℤ) (h : a < b) : (2:ℝ) ^ a < (2:ℝ) ^ b :=
  zpow_lt_zpow_right₀ (by norm_num) h

theorem pow2_pos (a : ℤ) : 0 < (2:ℝ) ^ a := zpow_pos (by norm_num) a

/-- L-prod (upper): a product over a box is at most the largest corner product. -/
theorem prod_le_corner (a b alo ahi blo bhi : ℝ)
    (ha : alo ≤ a) (ha' : a ≤ ahi) (hb : blo ≤ b) (hb' : b ≤ bhi) :
    a * b ≤ max (max (alo * blo) (alo * bhi)) (max (ahi * blo) (ahi * bhi)) := by
  rcases le_total 0 b with h | h
  · have h1 : a * b ≤ ahi * b := mul_le_mul_of_nonneg_right ha' h
    rcases le_total 0 ahi with g | g
    · have : ahi * b ≤ ahi * bhi := mul_le_mul_of_nonneg_left hb' g
      exact le_trans (le_trans h1 this) (le_trans (le_max_right _ _) (le_max_right _ _))
    · have : ahi * b ≤ ahi * blo := mul_le_mul_of_nonpos_left hb g
      exact le_trans (le_trans h1 this) (le_trans (le_max_left _ _) (le_max_right _ _))
  · have h1 : a * b ≤ alo * b := mul_le_mul_of_nonpos_right ha h
    rcases le_total 0 alo with g | g
    · have : alo * b ≤ alo * bhi := mul_le_mul_of_nonneg_left hb' g
      exact le_trans (le_trans h1 this) (le_trans (le_max_right _ _) (le_max_left _ _))
    · have : alo * b ≤ alo * blo := mul_le_mul_of_nonpos_left hb g
      exact le_trans (le_trans h1 this) (le_trans (le_max_left _ _) (le_max_left _ _))

/-- L-prod (lower). -/
theorem corner_le_prod (a b alo ahi blo bhi : ℝ)
    (ha : alo ≤ a) (ha' : a ≤ ahi) (hb : blo ≤ b) (hb' : b ≤ bhi) :
    min (min (alo * blo) (alo * bhi)) (min (ahi * blo) (ahi * bhi)) ≤ a * b := by
  have h := prod_le_corner (-a) b (-ahi) (-alo) blo bhi (by linarith) (by linarith) hb hb'
  have e : ∀ x y : ℝ, -x * y = -(x * y) := fun x y => by ring
  rw [e, e, e, e, e] at h
  have : -(a * b) ≤ -min (min (alo * blo) (alo * bhi)) (min (ahi * blo) (ahi * bhi)) := by
    refine le_trans h ?_
    rw [max_le_iff]; constructor
    · rw [max_le_iff]; constructor
      · exact neg_le_neg (le_trans (min_le_right _ _) (min_le_left _ _))
      · exact neg_le_neg (le_trans (min_le_right _ _) (min_le_right _ _))
    · rw [max_le_iff]; constructor
      · exact neg_le_neg (le_trans (min_le_left _ _) (min_le_left _ _))
      · exact neg_le_neg (le_trans (min_le_left _ _) (min_le_right _ _))
  linarith

/-- L-sum (range): a sum of N values in [lo, hi] lies in [N*lo, N*hi]. -/
theorem sum_range {N : ℕ} (f : Fin N → ℝ) (lo hi : ℝ) (h : ∀ i, lo ≤ f i ∧ f i ≤ hi) :
    (N : ℝ) * lo ≤ ∑ i, f i ∧ ∑ i, f i ≤ (N : ℝ) * hi := by
  constructor
  · have := Finset.card_nsmul_le_sum (Finset.univ : Finset (Fin N)) f lo (fun i _ => (h i).1)
    simpa [nsmul_eq_mul] using this
  · have := Finset.sum_le_card_nsmul (Finset.univ : Finset (Fin N)) f hi (fun i _ => (h i).2)
    simpa [nsmul_eq_mul] using this

/-- L-sum (grid): a sum of integer multiples of a step is an integer multiple of the step. -/
theorem sum_grid {N : ℕ} (f : Fin N → ℝ) (step : ℝ) (h : ∀ i, ∃ k : ℤ, f i = k * step) :
    ∃ k : ℤ, ∑ i, f i = k * step := by
  choose k hk using h
  refine ⟨∑ i, k i, ?_⟩
  push_cast
  rw [Finset.sum_mul]
  exact Finset.sum_congr rfl (fun i _ => hk i)

/-- L-vertex: one term of a linear form over an interval is bounded by its value at an end point. -/
theorem term_le_vertex (w x xmin xmax : ℝ) (h1 : xmin ≤ x) (h2 : x ≤ xmax) :
    w * x ≤ max (w * xmax) (w * xmin) ∧ min (w * xmax) (w * xmin) ≤ w * x := by
  rcases le_total 0 w with hw | hw
  · exact ⟨le_trans (mul_le_mul_of_nonneg_left h2 hw) (le_max_left _ _),
           le_trans (min_le_right _ _) (mul_le_mul_of_nonneg_left h1 hw)⟩
  · exact ⟨le_trans (mul_le_mul_of_nonpos_left h1 hw) (le_max_right _ _),
           le_trans (min_le_left _ _) (mul_le_mul_of_nonpos_left h2 hw)⟩

/-- L-vertex for the whole form. -/
theorem linear_le_vertices {N : ℕ} (w x : Fin N → ℝ) (xmin xmax : ℝ)
    (h : ∀ i, xmin ≤ x i ∧ x i ≤ xmax) :
    ∑ i, w i * x i ≤ ∑ i, max (w i * xmax) (w i * xmin) ∧
    ∑ i, min (w i * xmax) (w i * xmin) ≤ ∑ i, w i * x i :=
  ⟨Finset.sum_le_sum (fun i _ => (term_le_vertex (w i) (x i) xmin xmax (h i).1 (h i).2).1),
   Finset.sum_le_sum (fun i _ => (term_le_vertex (w i) (x i) xmin xmax (h i).1 (h i).2).2)⟩

/-- L-mean: the mean of non-negative elements is non-negative. -/
theorem mean_nonneg {N : ℕ} (f : Fin N → ℝ) (h : ∀ i, 0 ≤ f i) : 0 ≤ (∑ i, f i) / N :=
  div_nonneg (Finset.sum_nonneg (fun i _ => h i)) (Nat.cast_nonneg N)

/-- L-mean: the mean of a constant over a non-empty group is that constant. -/
theorem mean_const {N : ℕ} (hN : 0 < N) (f : Fin N → ℝ) (c : ℝ) (h : ∀ i, f i = c) :
    (∑ i, f i) / N = c := by
  have hN' : (N : ℝ) ≠ 0 := by exact_mod_cast hN.ne'
  simp [h, Finset.sum_const, nsmul_eq_mul]
  field_simp

/-- L-max: the maximum over a finite group is at least every member. -/
theorem max_ge_member {N : ℕ} (f : Fin N → ℝ) (i : Fin N) :
    f i ≤ Finset.sup' Finset.univ ⟨i, Finset.mem_univ i⟩ f :=
  Finset.le_sup' f (Finset.mem_univ i)

end QKerasVerif
