"""Native replayers for qtools counts (C19) and other pure-Python properties."""
import itertools
from fractions import Fraction

import numpy as np

from native.registry import replayer


def _conv_positions(n_in, k, stride, padding, dilation=1):
  """output positions and, per position, how many kernel taps are applied (all taps are computed)"""
  keff = (k - 1) * dilation + 1
  if padding == "same":
    return -(-n_in // stride)
  return (n_in - keff) // stride + 1


@replayer("c19_count")
def c19_count(d):
  """Brute-force loop-nest MAC count vs qtools_util.get_operation_count on a real Keras layer."""
  import tensorflow as tf
  from tensorflow import keras
  from qkeras.qtools import qtools_util
  kind = (d["witness"].get("__replay__") or {}).get("kind")
  L = keras.layers
  H = W = 6
  if kind in ("QConv2D", "Conv2D", "QConv2DBatchnorm"):
    ci, co, k, g = 4, 8, 3, 2
    layer = L.Conv2D(co, k, groups=g)
    ishape = (None, H, W, ci)
    layer.build(ishape)
    ho = wo = H - k + 1
    true = sum(1 for _ in itertools.product(range(ho), range(wo), range(co), range(k), range(k), range(ci // g)))
  elif kind in ("QConv2DTranspose", "Conv2DTranspose"):
    ci, co, k, st = 3, 5, 3, 2
    layer = L.Conv2DTranspose(co, k, strides=st)
    ishape = (None, H, W, ci)
    layer.build(ishape)
    true = sum(1 for _ in itertools.product(range(H), range(W), range(ci), range(k), range(k), range(co)))
  elif kind in ("QDepthwiseConv2D", "DepthwiseConv2D"):
    ci, dm, k = 3, 2, 3
    layer = L.DepthwiseConv2D(k, depth_multiplier=dm)
    ishape = (None, H, W, ci)
    layer.build(ishape)
    ho = wo = H - k + 1
    true = sum(1 for _ in itertools.product(range(ho), range(wo), range(k), range(k), range(ci), range(dm)))
  elif kind in ("AveragePooling2D", "AvgPool2D"):
    c, p = 3, 2
    layer = L.AveragePooling2D(p)
    ishape = (None, H, W, c)
    ho = wo = H // p
    true = sum(1 for _ in itertools.product(range(ho), range(wo), range(c), range(p), range(p)))
  else:
    return {"status": "unsupported", "detail": "no native geometry for %s" % kind}
  layer.__class__.__name__  # noqa
  # get_operation_count dispatches on the class name; stock classes share the branch with their Q versions
  got = qtools_util.get_operation_count(layer, ishape)
  return {"status": "confirmed" if got != true else "refuted",
          "observed": {"layer": layer.__class__.__name__, "input_shape": str(ishape), "reported": int(got), "loop_nest_count": int(true)},
          "expected": "reported operation count equals the number of scalar multiply-accumulates"}


@replayer("c14_export")
def c14_export(d):
  """Run the real model_save_quantized_weights on a one-layer QDense model (harness-side shim: the
  fusing-pair finder, which cannot run under the pinned Keras 3, is replaced by its contract)."""
  import tensorflow as tf
  import qkeras.utils as U
  from qkeras import QDense, quantized_bits, quantized_po2, quantized_relu_po2, binary
  from tensorflow.keras.layers import Input
  from tensorflow.keras.models import Model
  kind = d["case"].rsplit("_bias", 1)[0]
  w = d["witness"] or {}
  bits = int(w.get("bits", 4))
  integer = int(w.get("integer", 0))
  # power-of-two kinds: a wide exponent field when the witness names a small exponent (epsilon-floor region)
  we = w.get("e")
  pbits = 8 if (we is not None and int(we) < -8) else 4
  kq = {"fixed": lambda: quantized_bits(4, 0, 1), "binary": lambda: binary(),
        "po2": lambda: quantized_po2(pbits), "relu_po2": lambda: quantized_relu_po2(pbits),
        "auto_po2": lambda: quantized_bits(bits, integer, 1, alpha="auto_po2")}[kind]()
  x = Input((4,))
  y = QDense(3, kernel_quantizer=kq, bias_quantizer=quantized_bits(4, 0, 1), name="d")(x)
  m = Model(x, y)
  wts = np.array([[0.11, -0.32, 0.9], [0.05, 0.2, -0.7], [0.3, 0.1, 0.4], [-0.2, 0.25, 0.6]], dtype=np.float32) * 3
  if kind in ("po2", "relu_po2") and we is not None:
    sgn = float(w.get("sgn", 1)) if kind == "po2" else 1.0
    wts[0, 0] = np.float32(sgn * 2.0 ** max(int(we), -120))     # the witness weight
    wts[1, 1] = 0.0                                             # and a pruned (zero) weight
  m.get_layer("d").set_weights([wts, np.array([0.1, -0.2, 0.3], dtype=np.float32)])
  saved_find = U.find_bn_fusing_layer_pair
  U.find_bn_fusing_layer_pair = lambda model, custom_objects={}: ({}, set())
  try:
    sw = U.model_save_quantized_weights(m)
  finally:
    U.find_bn_fusing_layer_pair = saved_find
  stored = m.get_layer("d").get_weights()[0]
  hw = np.array(sw["d"]["weights"][0])
  clause = d["clause"]
  obs = {"kind": kind, "stored": stored.tolist(), "hw": hw.tolist()}
  if clause in ("auto_po2_tuple", "int_in_range"):
    sc = np.array(sw["d"]["scales"][0])
    obs["scales"] = sc.tolist()
    if clause == "auto_po2_tuple":
      bad = not np.array_equal(sc * hw, stored)
    else:
      lim = 2 ** (bits - 1) - 1
      bad = bool(np.any(hw != np.round(hw)) or np.any(np.abs(hw) > lim))
    return {"status": "confirmed" if bad else "refuted", "observed": obs,
            "expected": "scales * integer_weights == stored weights, integer weights within the declared code range"}
  if clause == "po2_tuple":
    sg = np.array(sw["d"].get("signs", [np.ones_like(hw)])[0])
    bad = not np.array_equal(sg * np.power(2.0, hw), stored)
    return {"status": "confirmed" if bad else "refuted", "observed": obs}
  if clause in ("plain", "applied_once"):
    bad = not np.array_equal(hw, stored) if clause == "plain" else not np.array_equal(np.array(kq(tf.constant(wts))), stored)
    return {"status": "confirmed" if bad else "refuted", "observed": obs}
  return {"status": "unsupported"}


@replayer("c13_table")
def c13_table(d):
  """Is the library class in the custom-object table built by the real utils._add_supported_quantized_objects?"""
  import importlib
  from qkeras import utils
  rp = (d["witness"] or {}).get("__replay__") or {}
  cls = getattr(importlib.import_module(rp["module"]), rp["class"])
  table = {}
  utils._add_supported_quantized_objects(table)
  ok = table.get(rp["class"]) is cls
  return {"status": "refuted" if ok else "confirmed",
          "observed": {"class": rp["class"], "in_table": rp["class"] in table, "table_size": len(table)},
          "expected": "table[class name] is the class"}


# ---------------------------------------------------------------------------------------------------------------- C20
class _EnumHP(object):
  """Tuner stub driven by a prescribed sequence of member indexes (exhaustive enumeration of the search space)."""

  def __init__(self, script):
    self.script, self.pos, self.calls, self.picked = list(script), 0, [], {}

  def Choice(self, name, values, **k):  # pylint: disable=invalid-name
    values = list(values)
    i = self.script[self.pos] if self.pos < len(self.script) else 0
    self.pos += 1
    self.calls.append((name, values))
    self.picked[name] = values[i % len(values)]
    return self.picked[name]

  def Fixed(self, name, value, **k):  # pylint: disable=invalid-name
    self.picked[name] = value
    return value


def _c20_layers(kind):
  def mk(cls, name, **attrs):
    C = type(cls, (object,), {})
    o = C()
    o.name = name
    w = attrs.pop("wshape", None)
    for k, v in attrs.items():
      setattr(o, k, v)
    if w is not None:
      import numpy as np
      o.get_weights = lambda w=w: [np.zeros(w)]
    return o
  if kind == "seq":
    return ([mk("LSTM", "lstm_1", use_bias=True, activation="tanh", wshape=(4, 8)),
             mk("LSTM", "lstm_2", use_bias=True, activation="tanh", wshape=(4, 8))],
            {"^lstm_1$": [1, 4, 1, 1], "^lstm_2$": [8, 8, 4, 6], "LSTM": [8, 8, 8, 8]})
  return ([mk("SeparableConv2D", "sep_1", use_bias=False, activation="linear", filters=4, wshape=(3, 3, 2, 1)),
           mk("SeparableConv2D", "sep_2", use_bias=False, activation="linear", filters=4, wshape=(3, 3, 2, 1))],
          {"^sep_1$": [1, 4, 1], "^sep_2$": [8, 8, 6], "SeparableConv2D": [8, 8, 8]})


_C20_CONFIG = {
    "kernel": {"binary": 1, "quantized_bits(4,0,1)": 4, "quantized_bits(8,0,1)": 8},
    "bias": {"quantized_bits(4,0,1)": 4, "quantized_bits(8,3,1)": 8},
    "activation": {"binary": 1, "quantized_relu(6,2)": 6},
    "linear": {"binary": 1, "quantized_bits(4,0,1)": 4},
    "pointwise_kernel": {"binary": 1, "quantized_bits(4,0,1)": 4},
    "recurrent_kernel": {"binary": 1, "quantized_bits(4,0,1)": 4},
    "recurrent_activation": {"binary": 1, "quantized_relu(3,1)": 3},
}


@replayer("c20_qm")
def c20_qm(d):
  """The real AutoQKHyperModel.quantize_model on duck-typed layers (class names LSTM / SeparableConv2D), clone_model and
  model_quantize replaced by the same contracts as on the symbolic side, every tuner outcome enumerated: the entry a
  layer receives for a tensor must be the value _get_quantizer returned for THAT layer's head."""
  import itertools
  import re
  from native import shims
  shims.install_keras_tuner_stub()
  import qkeras.autoqkeras.autoqkeras_internal as A
  rep = (d.get("witness") or {}).get("__replay__") or {}
  kind = rep.get("kind")
  if kind not in ("seq", "sep") or d["clause"] != "own_choice":
    return {"status": "unsupported", "detail": "only own_choice of the seq / sep scenarios is replayed natively"}
  suffix = {"kernel_quantizer": "_kernel", "depthwise_quantizer": "_kernel", "bias_quantizer": "_bias",
            "activation": "_activation", "recurrent_quantizer": "_recurrent_kernel",
            "pointwise_quantizer": "_pointwise_kernel", "recurrent_activation": "_recurrent_activation"}
  for script in itertools.product(range(3), repeat=4):
    layers, limit = _c20_layers(kind)
    model = type("Model", (object,), {})()
    model.layers = layers
    hm = A.AutoQKHyperModel.__new__(A.AutoQKHyperModel)
    hm.limit, hm.groups, hm.quantization_config = limit, {}, _C20_CONFIG
    hm.model, hm.custom_objects, hm.tune_filters = model, {}, "none"
    hm.tune_filters_exceptions = re.compile("^$")
    hm.layer_indexes, hm.activation_bits, hm.transfer_weights = None, 4, False
    seen, own = {}, {}
    real_gq = A.AutoQKHyperModel._get_quantizer

    def gq(self, hp, head, layer_name, layer_class_name, *a, **k):
      r = real_gq(self, hp, head, layer_name, layer_class_name, *a, **k)
      own.setdefault((layer_name, head), r)
      return r
    old = (A.clone_model, A.model_quantize, A.AutoQKHyperModel._get_quantizer)
    A.clone_model = lambda m, co=None: m
    A.model_quantize = lambda m, qd, *a, **k: seen.setdefault("qd", qd)
    A.AutoQKHyperModel._get_quantizer = gq
    try:
      hm.quantize_model(_EnumHP(script))
    finally:
      A.clone_model, A.model_quantize, A.AutoQKHyperModel._get_quantizer = old
    for lname, ent in seen["qd"].items():
      for key, val in ent.items():
        mine = own.get((lname, lname + suffix[key]), (None,))[0]
        if mine != val:
          pat = [p for p in limit if re.match(p, lname)][0]
          return {"status": "confirmed",
                  "observed": {"layer": lname, "entry": key, "value_in_dictionary": val, "layer_own_choice": mine,
                               "limit_of_layer": limit[pat], "tuner_choices": list(script)},
                  "expected": "the quantizer chosen for this layer's own tensor"}
  return {"status": "refuted", "observed": {"tuner_outcomes_tried": 81}}


@replayer("c20_getq")
def c20_getq(d):
  """The real AutoQKHyperModel._get_quantizer for a recurrent / pointwise head under a class limit whose role entry is
  the witness' limit_bits: every tuner outcome is enumerated and must respect the limit of the tensor's role."""
  from native import shims
  shims.install_keras_tuner_stub()
  import qkeras.autoqkeras.autoqkeras_internal as A
  w = d.get("witness") or {}
  rep = w.get("__replay__") or {}
  head, lcls, role, idx = rep["head"], rep["layer_class"], rep["role"], int(rep["index"])
  lim = int(w.get("limit_bits", 2))
  limit = {lcls: [8, 8, 8, 8] if lcls == "LSTM" else [8, 8, 8]}
  limit[lcls][idx] = lim
  bad = None
  for i in range(4):
    hm = A.AutoQKHyperModel.__new__(A.AutoQKHyperModel)
    hm.limit, hm.groups, hm.quantization_config = {k: list(v) for k, v in limit.items()}, {}, _C20_CONFIG
    hp = _EnumHP([i])
    name, bits = hm._get_quantizer(hp, "layer_1" + head, "layer_1", lcls, is_kernel="kernel" in head)
    if d["clause"] == "within_role_limit" and bits > lim:
      bad = {"returned": name, "bits": bits, "limit_of_role": lim, "limit": limit}
    if d["clause"] == "from_role_section" and name not in _C20_CONFIG[role]:
      bad = {"returned": name, "section_of_role": sorted(_C20_CONFIG[role])}
    if bad:
      return {"status": "confirmed", "observed": bad, "expected": "clause %s" % d["clause"]}
  return {"status": "refuted", "observed": {"outcomes_tried": 4}}


_C19_EXTRACT_SCRIPT = r'''
import os, sys, json
os.environ["TF_USE_LEGACY_KERAS"] = "1"
sys.path.insert(0, sys.argv[1])
import tensorflow as tf
from tensorflow.keras.layers import Input
from qkeras import QConv2D, QConv1D, QDepthwiseConv2D, QSeparableConv2D, QSeparableConv1D, QDense, quantized_bits
from qkeras.estimate import extract_model_operations
w = json.loads(sys.argv[2])
kind = w["kind"]
g = lambda n, d=1: max(1, min(int(w.get(n, d)), 6))
q = lambda: quantized_bits(4, 0, 1)
if kind.startswith("QDense"):
  ni, no = g("Ni"), g("No")
  i = Input((1, 1, ni) if kind == "QDense_se" else (ni,))
  x = QDense(no, kernel_quantizer=q(), bias_quantizer=q(), use_bias=(kind != "QDense_nobias"), name="layer0")(i)
  macs = ni * no
  m = tf.keras.Model(i, x)
  try:
    ops = extract_model_operations(m)
    rep, raised = int(ops["layer0"]["number_of_operations"]), None
  except Exception as e:
    rep, raised = None, repr(e)
  print("RESULT " + json.dumps({"reported": rep, "macs": int(macs), "raised": raised,
                                "input_shape": list(m.input_shape[1:]), "output_shape": list(m.output_shape[1:])}))
  sys.exit(0)
if kind in ("QConv2D", "QDepthwiseConv2D", "QSeparableConv2D"):
  kh, kw, ho, wo, ci = g("Kh"), g("Kw"), g("Ho"), g("Wo"), g("Ci")
  i = Input((ho + kh - 1, wo + kw - 1, ci))
  if kind == "QConv2D":
    co = g("Co")
    x = QConv2D(co, (kh, kw), kernel_quantizer=q(), bias_quantizer=q(), name="layer0")(i)
    macs = ho * wo * co * kh * kw * ci
  elif kind == "QDepthwiseConv2D":
    dm = g("depth_multiplier")
    x = QDepthwiseConv2D((kh, kw), depth_multiplier=dm, depthwise_quantizer=q(), bias_quantizer=q(), name="layer0")(i)
    macs = ho * wo * kh * kw * ci * dm
  else:
    co = g("Co")
    x = QSeparableConv2D(co, (kh, kw), depthwise_quantizer=q(), pointwise_quantizer=q(), bias_quantizer=q(), name="layer0")(i)
    macs = ho * wo * kh * kw * ci + ho * wo * ci * co
else:
  k, to, ci, co = g("K"), g("To"), g("Ci"), g("Co")
  i = Input((to + k - 1, ci))
  if kind == "QConv1D":
    x = QConv1D(co, k, kernel_quantizer=q(), bias_quantizer=q(), name="layer0")(i)
    macs = to * co * k * ci
  else:
    x = QSeparableConv1D(co, k, depthwise_quantizer=q(), pointwise_quantizer=q(), bias_quantizer=q(), name="layer0")(i)
    macs = to * k * ci + to * ci * co
m = tf.keras.Model(i, x)
assert tuple(m.output_shape[1:-1]) == ((ho, wo) if kind.endswith("2D") else (to,)), m.output_shape
ops = extract_model_operations(m)
print("RESULT " + json.dumps({"reported": int(ops["layer0"]["number_of_operations"]), "macs": int(macs),
                              "input_shape": list(m.input_shape[1:]), "output_shape": list(m.output_shape[1:])}))
'''


@replayer("c19_extract")
def c19_extract(d):
  """extract_model_operations on a real one-layer model (tf_keras 2.x via TF_USE_LEGACY_KERAS=1 in a child process: the
  Keras 3 of the pinned environment cannot clone Q* layers): reported number_of_operations vs the loop-nest MAC count
  of the layer for the witness' geometry (sizes capped at 6)."""
  import json as _json
  import os
  import subprocess
  import sys
  w = dict(d["witness"] or {})
  w["kind"] = (w.get("__replay__") or {}).get("kind")
  w.pop("__replay__", None)
  if d["clause"] not in ("count", "no_raise"):
    return {"status": "unsupported", "detail": "clause %s" % d["clause"]}
  repo = os.environ.get("QKERAS_VERIF_REPO", "/repo")
  r = subprocess.run([sys.executable, "-c", _C19_EXTRACT_SCRIPT, repo, _json.dumps(w)], capture_output=True, text=True,
                     timeout=600)
  line = [l for l in r.stdout.splitlines() if l.startswith("RESULT ")]
  if not line:
    return {"status": "error", "detail": (r.stderr or r.stdout)[-800:]}
  res = _json.loads(line[0][7:])
  if d["clause"] == "no_raise":
    return {"status": "confirmed" if res.get("raised") else "refuted", "observed": res,
            "expected": "extract_model_operations returns a count for the layer"}
  return {"status": "confirmed" if res["reported"] != res["macs"] else "refuted", "observed": res,
          "expected": "number_of_operations == multiply-accumulate operations of the layer"}


@replayer("c20_prefix")
def c20_prefix(d):
  """The real AutoQKHyperModel._get_quantizer for a layer 'pre_head' under limit {'Dense': [L]*3, 'head': [16]*3}: the key
  'head' occurs inside the name but not at its start, so the class limit L must govern every tuner outcome and the tuner
  must be asked under the layer's own name."""
  from native import shims
  shims.install_keras_tuner_stub()
  import qkeras.autoqkeras.autoqkeras_internal as A
  w = d.get("witness") or {}
  rep = w.get("__replay__") or {}
  head = rep.get("head", "kernel")
  lim = int(w.get("limit_bits", 4))
  cfg = {
      "kernel": {"binary": 1, "ternary": 2, "quantized_bits(4,0,1)": 4, "quantized_bits(8,0,1)": 8},
      "bias": {"quantized_bits(4,0,1)": 4, "quantized_po2(4,8)": 4, "quantized_bits(8,3,1)": 8},
      "activation": {"binary": 1, "quantized_relu(3,1)": 3, "quantized_relu(6,2)": 6, "quantized_relu(16,8)": 16},
  }
  for i in range(4):
    hm = A.AutoQKHyperModel.__new__(A.AutoQKHyperModel)
    hm.limit, hm.groups, hm.quantization_config = {"Dense": [lim] * 3, "head": [16] * 3}, {}, cfg
    hp = _EnumHP([i])
    name, bits = hm._get_quantizer(hp, "pre_head_" + head, "pre_head", "Dense")
    asked = [c[0] for c in hp.calls] + [k for k in hp.picked]
    if d["clause"] == "class_limit_governs" and bits > lim:
      return {"status": "confirmed", "observed": {"returned": name, "bits": bits, "class_limit": lim}}
    if d["clause"] == "own_choice_not_group" and ("head" in hm.groups or not all(a.startswith("pre_head_") for a in asked)):
      return {"status": "confirmed", "observed": {"groups": list(hm.groups), "tuner_names": asked}}
  if d["clause"] not in ("class_limit_governs", "own_choice_not_group"):
    return {"status": "unsupported", "detail": "clause %s" % d["clause"]}
  return {"status": "refuted", "observed": {"outcomes_tried": 4}}


@replayer("c19_energy")
def c19_energy(d):
  """The real qenergy.energy_estimate on the six-layer duck-typed model of the contract, with the witness' operator
  parameters; memory_read/write/parameter energies replaced by the witness' values (same contracts as on the symbolic
  side); every entry and the total are recomputed here from the documented formulas."""
  from qkeras.qtools.qenergy import qenergy as E
  from qkeras.qtools.quantized_operators.quantizer_impl import IQuantizer
  w = d.get("witness") or {}
  fp_acc = "fp32acc" in d["case"]
  fv = lambda n, dflt=0.0: float(Fraction(str(w.get(n, dflt))))
  iv = lambda n, dflt=1: int(w.get(n, dflt))

  def iq(bits, fp=False):
    q = IQuantizer()
    q.bits, q.is_floating_point = bits, fp
    return q

  class Op(object):
    def __init__(self, pfx, mode):
      self.gate_factor, self.gate_bits, self.output, self._m = fv(pfx + "_gate_factor", 1), iv(pfx + "_gate_bits"), iq(iv(pfx + "_out_bits")), mode
    def implemented_as(self):
      return self._m

  class Acc(object):
    def __init__(self, q):
      self.output = q
  mk = lambda cls, name, shape: type(cls, (object,), {})()
  shp = (None, 4, 4, 3)
  L = {}
  for cls, name, ish in (("QDense", "d0", (None, 8)), ("QActivation", "a0", (None, 8)), ("Add", "add0", [shp, shp, shp]),
                         ("AveragePooling2D", "p0", shp), ("QBatchNormalization", "bn0", shp), ("Flatten", "fl0", shp)):
    o = type(cls, (object,), {})()
    o.name, o.input_shape = name, ish
    L[name] = o
  cnt = {n: iv("count_" + n, 1) for n in ("d0", "a0", "add0", "p0", "bn0")}
  mult, merge, div, bmul = Op("mult", "mul"), Op("merge", "add"), Op("div", "shifter"), Op("bnmul", "mul")
  acc = Acc(iq(32, True) if fp_acc else iq(iv("acc_bits")))
  pacc = Acc(iq(iv("pool_acc_bits")))
  item = lambda n, **k: dict({"input_quantizer_list": [iq(8)], "operation_count": cnt[n], "output_shapes": shp,
                             "output_quantizer": iq(8)}, **k)
  m = {L["d0"]: item("d0", multiplier=mult, accumulator=acc), L["a0"]: item("a0"),
       L["add0"]: dict(item("add0", multiplier=merge), input_quantizer_list=[iq(8), iq(8), iq(8)]),
       L["p0"]: item("p0", accumulator=pacc),
       L["bn0"]: item("bn0", internal_divide_quantizer=div, internal_multiplier=bmul)}
  model = type("Model", (object,), {})()
  model.layers = [L["d0"], L["a0"], L["fl0"], L["add0"], L["p0"], L["bn0"]]
  seq = {"rd": [fv("rd_%d" % i) for i in range(7)], "wr": [fv("wr_%d" % i) for i in range(5)], "par": [fv("par_%d" % i) for i in range(5)]}
  pos = {"rd": 0, "wr": 0, "par": 0}

  def stub(kind):
    def f(*a, **k):
      v = seq[kind][pos[kind]] if pos[kind] < len(seq[kind]) else 0.0
      pos[kind] += 1
      return v
    return f
  old = (E.memory_read_energy, E.memory_write_energy, E.parameter_read_energy)
  E.memory_read_energy, E.memory_write_energy, E.parameter_read_energy = stub("rd"), stub("wr"), stub("par")
  try:
    res = E.energy_estimate(model, {"output_layers": [L["bn0"]], "input_layers": [L["d0"]], "layer_data_type_map": m},
                            "dram", "sram", 0, True)
  finally:
    E.memory_read_energy, E.memory_write_energy, E.parameter_read_energy = old
  p = lambda v: max(v, 0.0)
  add = lambda b: p(0.003125 * b)
  mul = lambda b: p(0.002994791667 * b * b + 0.001041666667 * b)
  acc_cost = 0.9 if fp_acc else add(acc.output.bits)
  ops = {"d0": cnt["d0"] * (mult.gate_factor * mul(mult.gate_bits) + acc_cost), "a0": 0.0,
         "add0": 2 * cnt["add0"] * merge.gate_factor * add(merge.gate_bits), "p0": cnt["p0"] * add(pacc.output.bits),
         "bn0": (div.gate_factor * add(div.gate_bits) + bmul.gate_factor * mul(bmul.gate_bits)) * cnt["bn0"]}
  order, n_in = ["d0", "a0", "add0", "p0", "bn0"], {"d0": 1, "a0": 1, "add0": 3, "p0": 1, "bn0": 1}
  rd = iter(seq["rd"])
  bad, tot = [], 0.0
  for i, n in enumerate(order):
    exp = {"inputs": sum(next(rd) for _ in range(n_in[n])), "outputs": seq["wr"][i], "parameters": seq["par"][i], "op_cost": ops[n]}
    tot += sum(exp.values())
    for k, v in exp.items():
      got = res.get(n, {}).get("energy", {}).get(k)
      if got is None or abs(got - v) > 0.0051 or got < 0:
        bad.append({"layer": n, "entry": k, "reported": got, "documented": round(v, 4)})
  if not (res.get("total_cost", -1) <= tot + 1e-6 < res.get("total_cost", -1) + 1 + 1e-6):
    bad.append({"total_cost": res.get("total_cost"), "sum_of_entries": round(tot, 4)})
  if set(res) - {"total_cost"} != set(order):
    bad.append({"layers_reported": sorted(set(res) - {"total_cost"})})
  return {"status": "confirmed" if bad else "refuted", "observed": bad[:4] if bad else {"entries_checked": 20}}
