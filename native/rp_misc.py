"""Native replayers for qtools counts (C19) and other pure-Python properties."""
import itertools
from fractions import Fraction

import numpy as np

from native.registry import replayer


def _conv_positions(n_in, k, stride, padding, dilation=1):
  """output positions and, per position, how many kernel taps are applied (all taps are computed)"""
  keff = (k - 1) * dilation + 1
  if padding == "same":
    return -(-n_in // stride)
  return (n_in - keff) // stride + 1


@replayer("c19_count")
def c19_count(d):
  """Brute-force loop-nest MAC count vs qtools_util.get_operation_count on a real Keras layer."""
  import tensorflow as tf
  from tensorflow import keras
  from qkeras.qtools import qtools_util
  kind = (d["witness"].get("__replay__") or {}).get("kind")
  L = keras.layers
  H = W = 6
  if kind in ("QConv2D", "Conv2D", "QConv2DBatchnorm"):
    ci, co, k, g = 4, 8, 3, 2
    layer = L.Conv2D(co, k, groups=g)
    ishape = (None, H, W, ci)
    layer.build(ishape)
    ho = wo = H - k + 1
    true = sum(1 for _ in itertools.product(range(ho), range(wo), range(co), range(k), range(k), range(ci // g)))
  elif kind in ("QConv2DTranspose", "Conv2DTranspose"):
    ci, co, k, st = 3, 5, 3, 2
    layer = L.Conv2DTranspose(co, k, strides=st)
    ishape = (None, H, W, ci)
    layer.build(ishape)
    true = sum(1 for _ in itertools.product(range(H), range(W), range(ci), range(k), range(k), range(co)))
  elif kind in ("QDepthwiseConv2D", "DepthwiseConv2D"):
    ci, dm, k = 3, 2, 3
    layer = L.DepthwiseConv2D(k, depth_multiplier=dm)
    ishape = (None, H, W, ci)
    layer.build(ishape)
    ho = wo = H - k + 1
    true = sum(1 for _ in itertools.product(range(ho), range(wo), range(k), range(k), range(ci), range(dm)))
  elif kind in ("AveragePooling2D", "AvgPool2D"):
    c, p = 3, 2
    layer = L.AveragePooling2D(p)
    ishape = (None, H, W, c)
    ho = wo = H // p
    true = sum(1 for _ in itertools.product(range(ho), range(wo), range(c), range(p), range(p)))
  else:
    return {"status": "unsupported", "detail": "no native geometry for %s" % kind}
  layer.__class__.__name__  # noqa
  # get_operation_count dispatches on the class name; stock classes share the branch with their Q versions
  got = qtools_util.get_operation_count(layer, ishape)
  return {"status": "confirmed" if got != true else "refuted",
          "observed": {"layer": layer.__class__.__name__, "input_shape": str(ishape), "reported": int(got), "loop_nest_count": int(true)},
          "expected": "reported operation count equals the number of scalar multiply-accumulates"}
