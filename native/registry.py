"""Registry of native replayers (kind -> function(dict) -> native result dict)."""
REPLAYERS = {}


def replayer(kind):
  def deco(fn):
    REPLAYERS[kind] = fn
    return fn
  return deco
