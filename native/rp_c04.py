"""Native replayers for C04 / C05 (data-dependent scales): the real quantizer on real tensors.

A counter-model of an aggregate VC names a configuration, not a tensor (group reductions are uninterpreted on the
symbolic side), so the native side searches tensors of the witness' shape: the witness element, zeros, an all-zero
channel, huge / tiny magnitudes and seeded random tensors - and re-evaluates the violated clause on each."""
import math
from fractions import Fraction

import numpy as np

from native.registry import replayer


def _val(v):
  if isinstance(v, str):
    try:
      return float(Fraction(v))
    except Exception:  # pylint: disable=broad-except
      return v
  return v


def _tensors(shape, x, rng):
  n = int(np.prod(shape))
  out = []
  base = rng.standard_normal(shape).astype(np.float32)
  for t in (base, base * 1e-3, base * 1e3, np.abs(base), -np.abs(base), np.zeros(shape, np.float32)):
    out.append(t.copy())
  z = base.copy()
  z[..., 0] = 0.0          # an all-zero output channel
  out.append(z)
  if x is not None:
    w = base.copy()
    w.reshape(-1)[0] = np.float32(x)
    out.append(w)
    out.append(np.full(shape, np.float32(x), np.float32))
  return out


def _is_po2(v):
  if v <= 0:
    return False
  m, _ = math.frexp(float(v))
  return m == 0.5


def _group_axes(rank, scale_axis):
  if rank == 1:
    return None
  if scale_axis is None:
    return tuple(range(rank - 1))
  return tuple(i for i in range(rank) if i != scale_axis)


@replayer("c04")
def c04(d):
  import tensorflow as tf
  from qkeras import quantizers
  w = d["witness"] or {}
  rp = w.get("__replay__") or {}
  cls = getattr(quantizers, rp["class"])
  kw = {k: _val(v) for k, v in rp["kwargs"].items()}
  for k in ("min_po2_exponent", "max_po2_exponent"):
    if k in kw:
      kw[k] = int(w.get({"min_po2_exponent": "min_e", "max_po2_exponent": "max_e"}[k], kw[k]))
  if "alpha" in kw and not isinstance(kw["alpha"], str):
    kw["alpha"] = float(_val(w.get("alpha", kw["alpha"])))
  if "threshold" in kw:
    kw["threshold"] = float(_val(w.get("threshold", kw["threshold"])))
  shape = tuple(rp["shape"])
  clause = d["clause"]
  x = w.get("x")
  x = None if x is None else float(Fraction(str(x)))
  rng = np.random.default_rng(0)
  use_01 = bool(kw.get("use_01", False))
  ternary = "ternary" in rp["class"]
  alpha = kw.get("alpha")
  tried = 0
  if clause == "documented_iteration" and ternary and isinstance(alpha, str):
    # the documented iteration re-done in numpy (float32 like the library) on a heavy-tailed channel (one large, a few
    # medium, many small weights: the least-squares scale shrinks from round to round) and on a uniform one
    rank = len(shape)
    heavy = np.array([3.1] + [1.1] * 20 + [0.62] * 200, dtype=np.float32)
    uni = np.linspace(-1, 1, heavy.size).astype(np.float32)
    cols = np.stack([heavy, uni], axis=-1)                       # (221, 2): two output channels
    t = cols[:, 0] if rank == 1 else cols.reshape((1,) * (rank - 2) + cols.shape)
    q = cls(**kw)
    out = np.array(q(tf.constant(t)))
    axis = None if rank == 1 else tuple(range(rank - 1))
    xx = t.astype(np.float32)
    m = np.max(np.abs(xx), axis=axis, keepdims=True) if rank > 1 else np.abs(xx)
    scale = (2 * m / 3.0).astype(np.float32)
    if "po2" in alpha:
      scale = np.power(2.0, np.round(np.log(scale + 1e-7) / np.log(2.0))).astype(np.float32)
    qq = None
    for _ in range(int(q.number_of_unrolls)):
      thres = scale / 2.0
      v = scale * (np.round((xx / scale) * 3.0) / 3.0)
      qq = (np.abs(v) >= thres).astype(np.float32) * np.sign(xx)
      if rank > 1:
        qx = np.mean(xx * qq, axis=axis, keepdims=True)
        q2 = np.mean(qq * qq, axis=axis, keepdims=True)
      else:
        qx, q2 = xx * qq, qq * qq
      scale = (qx / (q2 + 1e-7)).astype(np.float32)
      if "po2" in alpha:
        scale = np.power(2.0, np.round(np.log(scale + 1e-7) / np.log(2.0))).astype(np.float32)
    want = scale * qq
    differ = int(np.sum(~np.isclose(out, want, rtol=1e-4, atol=1e-6)))
    return {"status": "confirmed" if differ else "refuted",
            "observed": {"elements_differing_from_documented_iteration": differ, "of": int(out.size),
                         "scale": np.array(q.scale).reshape(-1).tolist()[:4], "expected_scale": scale.reshape(-1).tolist()[:4]}}
  for t in _tensors(shape, x, rng):
    q = cls(**kw)
    try:
      out = np.array(q(tf.constant(t)))
    except Exception as e:  # pylint: disable=broad-except
      if clause == "no_raise":
        return {"status": "confirmed", "observed": "raised %s: %s" % (type(e).__name__, e)}
      return {"status": "error", "detail": "quantizer raised %s: %s" % (type(e).__name__, e)}
    tried += 1
    scale = np.array(q.scale, dtype=np.float64) if q.scale is not None else np.array(1.0)
    scale_b = np.broadcast_to(scale, t.shape) if scale.size > 1 else np.full(t.shape, float(scale.reshape(-1)[0]))
    bad = None
    if not isinstance(alpha, str):
      # alpha None: the straight-through form returns tanh(x) + (scale*code - tanh(x)); compare with tolerance 1 ulp
      with np.errstate(divide="ignore", invalid="ignore"):
        code = np.where(scale_b != 0, out / scale_b, 0.0)
      if ternary:
        thr = kw.get("threshold", 0.33) if kw.get("threshold") is not None else 0.33
        exp_code = np.where(np.abs(t) >= np.float32(thr), np.sign(t), 0.0)
      else:
        exp_code = np.where(t >= 0, 1.0, 0.0 if use_01 else -1.0)
      if clause in ("code", "zero_iff_below") and not np.allclose(code, exp_code, atol=1e-6):
        i = int(np.argmax(np.abs(code - exp_code)))
        bad = {"x": float(t.reshape(-1)[i]), "output": float(out.reshape(-1)[i]), "expected_code": float(exp_code.reshape(-1)[i])}
      if clause == "scale_const":
        want = 1.0 if alpha is None else float(alpha)
        if not np.allclose(scale, want):
          bad = {"scale": scale.tolist(), "expected": want}
    else:
      with np.errstate(divide="ignore", invalid="ignore"):
        code = np.where(scale_b != 0, out / scale_b, 0.0)
      if clause in ("code", "code_set", "code_sign"):
        if ternary:
          ok = np.all(np.isclose(code, -1) | np.isclose(code, 0) | np.isclose(code, 1)) and np.all(code * t >= -1e-12)
        else:
          exp_code = np.where(t >= 0, 1.0, 0.0 if use_01 else -1.0)
          ok = np.allclose(np.where(scale_b != 0, code, exp_code), exp_code, atol=1e-6)
        if not ok:
          bad = {"codes": np.unique(np.round(code, 6)).tolist()[:8]}
      if clause == "scale_nonneg" and np.any(scale < 0):
        bad = {"scale": scale.reshape(-1).tolist()[:8]}
      if clause in ("scale_po2", "scale_po2_bounds") and alpha == "auto_po2":
        for v in scale.reshape(-1):
          if not _is_po2(v):
            bad = {"scale_not_po2": float(v)}
          lo, hi = kw.get("min_po2_exponent"), kw.get("max_po2_exponent")
          if bad is None and ((lo is not None and v < 2.0 ** lo) or (hi is not None and v > 2.0 ** hi)):
            bad = {"scale_out_of_bounds": float(v), "bounds": [lo, hi]}
      if clause in ("scale_ls", "scale_group") and len(shape) > 1 and not ternary and alpha == "auto":
        axes = _group_axes(len(shape), kw.get("scale_axis"))
        exp_code = np.where(t >= 0, 1.0, 0.0 if use_01 else -1.0)
        eps_ = kw.get("elements_per_scale")
        if eps_:
          # one scale per block of eps consecutive elements along scale_axis, repeated back over the block
          a = int(kw["scale_axis"])
          view = tuple(shape[:a]) + (shape[a] // eps_, eps_) + tuple(shape[a + 1:])
          vaxes = tuple(i for i in range(len(view)) if i != a)
          qx = np.mean((t.astype(np.float64) * exp_code).reshape(view), axis=vaxes, keepdims=True)
          qq = np.mean((exp_code * exp_code).reshape(view), axis=vaxes, keepdims=True)
          back = tuple(1 if i != a else shape[a] // eps_ for i in range(len(shape)))
          qx, qq = np.repeat(qx.reshape(back), eps_, axis=a), np.repeat(qq.reshape(back), eps_, axis=a)
        else:
          qx = np.mean(t.astype(np.float64) * exp_code, axis=axes, keepdims=True)
          qq = np.mean(exp_code * exp_code, axis=axes, keepdims=True)
        want = qx / (qq + 1e-7)
        if scale.shape != want.shape or not np.allclose(scale, want, rtol=1e-4, atol=1e-7):
          bad = {"scale_shape": list(scale.shape), "expected_shape": list(want.shape),
                 "scale": scale.reshape(-1).tolist()[:6], "expected": want.reshape(-1).tolist()[:6]}
    if bad is not None:
      bad["tensor_kind_index"] = tried
      return {"status": "confirmed", "observed": bad, "expected": "clause %s" % clause}
  if clause not in ("no_raise", "code", "zero_iff_below", "scale_const", "code_set", "code_sign", "scale_nonneg", "scale_po2", "scale_po2_bounds", "scale_ls", "scale_group"):
    return {"status": "unsupported", "detail": "clause %s has no native evaluation" % clause}
  return {"status": "refuted", "observed": {"tensors_tried": tried}}


@replayer("c05")
def c05(d):
  import tensorflow as tf
  from qkeras import quantizers
  w = d["witness"] or {}
  rp = w.get("__replay__") or {}
  bits, integer = int(w.get("bits", 4)), int(w.get("integer", 0))
  kw = {"alpha": rp["kwargs"]["alpha"]}
  if rp["kwargs"].get("scale_axis") is not None:
    kw["scale_axis"] = int(rp["kwargs"]["scale_axis"])
  if rp["kwargs"].get("elements_per_scale") is not None:
    kw["elements_per_scale"] = int(rp["kwargs"]["elements_per_scale"])
  bk = rp.get("bounds_po2")
  if bk in (True, "both", "min"):
    kw["min_po2_exponent"] = int(w.get("min_e", -2))
  if bk in (True, "both", "max"):
    kw["max_po2_exponent"] = int(w.get("max_e", 2))
  if rp.get("frozen"):
    kw["post_training_scale"] = float(2.0 ** int(w.get("pts_exp", 0)))
  shape = tuple(rp["shape"])
  clause = d["clause"]
  x = w.get("x")
  x = None if x is None else float(Fraction(str(x)))
  rng = np.random.default_rng(0)
  n = bits - 1
  top = 2 ** n - 1
  step = 2.0 ** (integer - n)
  tried = 0
  for t in _tensors(shape, x, rng):
    q = quantizers.quantized_bits(bits, integer, 1, 1, **kw)
    try:
      out = np.array(q(tf.constant(t)), dtype=np.float64)
    except Exception as e:  # pylint: disable=broad-except
      if clause == "no_raise":
        return {"status": "confirmed", "observed": "raised %s: %s" % (type(e).__name__, e)}
      return {"status": "error", "detail": "quantizer raised %s: %s" % (type(e).__name__, e)}
    tried += 1
    scale = np.array(q.scale, dtype=np.float64)
    scale_b = np.broadcast_to(scale, t.shape) if scale.size > 1 else np.full(t.shape, float(scale.reshape(-1)[0]))
    bad = None
    if clause == "scale_pos" and not np.all(scale > 0):
      bad = {"scale": scale.reshape(-1).tolist()[:8], "note": "a group whose elements are all zero gets scale 0"}
    if clause in ("form", "code_is_integer", "code_width"):
      ok = scale_b > 0
      with np.errstate(divide="ignore", invalid="ignore"):
        z = np.where(ok, out / (scale_b * step), 0.0)
      if not np.all(np.isfinite(out)):
        bad = {"non_finite_output": True}
      elif not np.allclose(z, np.round(z), atol=1e-4) or np.any(np.abs(np.round(z)) > top):
        i = int(np.argmax(np.abs(z - np.round(z)) + (np.abs(np.round(z)) > top)))
        bad = {"x": float(t.reshape(-1)[i]), "output": float(out.reshape(-1)[i]), "scale": float(scale_b.reshape(-1)[i]),
               "code": float(z.reshape(-1)[i]), "top_code": top}
    if clause in ("scale_po2", "scale_po2_bounds", "scale_exp_integer"):
      for v in scale.reshape(-1):
        b = v / 2.0 ** n
        if not _is_po2(b):
          bad = {"scale_over_2^n_not_po2": float(b)}
        elif ("min_po2_exponent" in kw and b < 2.0 ** kw["min_po2_exponent"]) or (
            "max_po2_exponent" in kw and b > 2.0 ** kw["max_po2_exponent"]):
          bad = {"scale_exponent_out_of_bounds": float(b), "bounds": [kw.get("min_po2_exponent"), kw.get("max_po2_exponent")]}
    if clause == "max_to_top" and kw["alpha"] == "auto":
      axes = _group_axes(len(shape), kw.get("scale_axis")) if len(shape) > 1 else (0,)
      m = np.max(np.abs(t), axis=axes, keepdims=True)
      at_max = np.abs(t) == m
      if np.any(at_max & (m > 0) & ~np.isclose(out, t, rtol=1e-5)):
        i = int(np.argmax(at_max & ~np.isclose(out, t, rtol=1e-5)))
        bad = {"x": float(t.reshape(-1)[i]), "output": float(out.reshape(-1)[i])}
    if clause == "scale_group" and kw.get("elements_per_scale"):
      return {"status": "unsupported", "detail": "scale_group with elements_per_scale has no native evaluation"}
    if clause == "scale_group" and not rp.get("frozen"):
      rank = len(shape)
      axes = _group_axes(rank, kw.get("scale_axis")) if rank > 1 else (0,)
      want_shape = tuple(1 if i in axes else d for i, d in enumerate(shape))
      if kw["alpha"] == "auto":
        levels = (2 ** (bits - 1) - 1) * 2
        want = np.max(np.abs(t.astype(np.float64) / 2.0 ** integer), axis=axes, keepdims=True) * 2 / levels * 2.0 ** n
        if scale.shape != want.shape or not np.allclose(scale, want, rtol=1e-5, atol=1e-12):
          bad = {"scale_shape": list(scale.shape), "expected_shape": list(want.shape),
                 "scale": scale.reshape(-1).tolist()[:6], "expected_per_group": want.reshape(-1).tolist()[:6]}
      elif tuple(scale.shape) != want_shape:
        bad = {"scale_shape": list(scale.shape), "expected_shape": list(want_shape)}
    if clause == "frozen" and rp.get("frozen"):
      if not np.allclose(scale, kw["post_training_scale"]):
        bad = {"scale": scale.reshape(-1).tolist()[:4], "expected": kw["post_training_scale"]}
    if bad is not None:
      bad.update({"bits": bits, "integer": integer, "tensor_kind_index": tried})
      return {"status": "confirmed", "observed": bad, "expected": "clause %s" % clause}
  if clause not in ("no_raise", "scale_pos", "form", "code_is_integer", "code_width", "scale_po2", "scale_po2_bounds", "scale_exp_integer", "max_to_top", "frozen", "scale_group"):
    return {"status": "unsupported", "detail": "clause %s has no native evaluation" % clause}
  return {"status": "refuted", "observed": {"tensors_tried": tried}}


@replayer("c05_finite")
def c05_finite(d):
  """Bounded probe: finite inputs (zeros, an all-zero channel, magnitudes 1e-6 .. 1e6) give finite outputs and a finite
  recorded scale, for bits 2..8, integer 0..3 of the configuration named in the witness."""
  import tensorflow as tf
  from qkeras import quantizers
  w = d["witness"]
  cls = getattr(quantizers, w["class"])
  shape = tuple(w["shape"])
  rng = np.random.default_rng(1)
  tried = 0
  for bits in (2, 3, 4, 8):
    for integer in (0, 1, 3):
      base = rng.standard_normal(shape).astype(np.float32)
      tensors = [np.zeros(shape, np.float32), base * 1e-6, base * 1e6, base]
      z = base.copy()
      z[..., 0] = 0.0
      tensors.append(z)
      for t in tensors:
        q = cls(bits, integer, 1, 1, **w["kwargs"])
        out = np.array(q(tf.constant(t)))
        tried += 1
        sc = np.array(q.scale if w["class"] == "quantized_bits" else q.quantization_scale, dtype=np.float64)
        if not np.all(np.isfinite(out)) or not np.all(np.isfinite(sc)):
          bad = np.argwhere(~np.isfinite(out))
          return {"status": "confirmed",
                  "observed": {"bits": bits, "integer": integer, "kwargs": w["kwargs"], "shape": list(shape),
                               "tensor": "zeros" if not t.any() else ("zero channel" if not t[..., 0].any() else "scaled normal"),
                               "non_finite_outputs": int(bad.shape[0]), "scale_finite": bool(np.all(np.isfinite(sc)))},
                  "expected": "finite outputs and scale for finite inputs"}
  return {"status": "refuted", "observed": {"configurations_tried": tried}}


@replayer("c05_linear")
def c05_linear(d):
  """quantized_linear(alpha='auto' / 'auto_po2'): the real quantizer on tensors of the witness' shape; evaluates the
  violated clause (scale_pos, scale_group, scale_po2, code_range) on each."""
  import tensorflow as tf
  from qkeras import quantizers
  w = d["witness"] or {}
  rp = w.get("__replay__") or {}
  bits, integer = max(2, int(w.get("bits", 4))), int(w.get("integer", 0))
  kw = {"alpha": rp["kwargs"]["alpha"]}
  if rp["kwargs"].get("scale_axis") is not None:
    kw["scale_axis"] = int(rp["kwargs"]["scale_axis"])
  shape = tuple(rp["shape"])
  clause = d["clause"]
  kn = int(rp["kwargs"].get("keep_negative", 1))
  if clause not in ("scale_pos", "scale_group", "scale_po2", "code_range", "max_taken_of", "scale_formula", "max_to_top"):
    return {"status": "unsupported", "detail": "clause %s has no native evaluation" % clause}
  x = w.get("x")
  x = None if x is None else float(Fraction(str(x)))
  rng = np.random.default_rng(0)
  top = 2 ** (bits - kn) - 1
  rank = len(shape)
  tried = 0
  for t in _tensors(shape, x, rng):
    q = quantizers.quantized_linear(bits, integer, 1 if kn else 0, kn, **kw)
    out = np.array(q(tf.constant(t)), dtype=np.float64)
    scale = np.array(q.quantization_scale, dtype=np.float64)
    tried += 1
    bad = None
    if clause == "scale_pos" and not np.all(scale > 0):
      bad = {"scale": scale.reshape(-1).tolist()[:6]}
    if clause == "scale_group" and rank > 1:
      axes = _group_axes(rank, kw.get("scale_axis"))
      want_shape = tuple(1 if i in axes else e for i, e in enumerate(shape))
      if tuple(scale.shape) != want_shape:
        bad = {"scale_shape": list(scale.shape), "expected_shape": list(want_shape)}
    if clause == "scale_po2" and not all(_is_po2(v) for v in scale.reshape(-1)):
      bad = {"scale": scale.reshape(-1).tolist()[:6]}
    if clause in ("max_taken_of", "scale_formula", "max_to_top") and kw["alpha"] == "auto":
      axes = _group_axes(rank, kw.get("scale_axis")) if rank > 1 else ()
      src = np.abs(t.astype(np.float64)) if kn else t.astype(np.float64)
      m = np.max(src, axis=axes, keepdims=True) if rank > 1 else src
      want = np.maximum((m * 2 / (2 * top)) if kn else (m / top), 1e-7)
      if scale.shape != want.shape or not np.allclose(scale, want, rtol=1e-5, atol=1e-12):
        bad = {"scale": scale.reshape(-1).tolist()[:6], "expected_from_group_max_of_%s" % ("|x|" if kn else "x"): want.reshape(-1).tolist()[:6]}
    if clause == "max_to_top" and kw["alpha"] == "auto" and bad is None:
      # the group maximum must come back unchanged, also for small magnitudes (well above the epsilon floor) and for a
      # wide format, where a bias in the scaling shows first
      for b2 in sorted({bits, 8}):
        for mag in (1.0, 1e-3, 1e-5):
          t2 = (t.astype(np.float64) * mag).astype(np.float32)
          q2 = quantizers.quantized_linear(b2, integer, 1 if kn else 0, kn, **kw)
          o2 = np.array(q2(tf.constant(t2)), dtype=np.float64)
          axes2 = _group_axes(rank, kw.get("scale_axis")) if rank > 1 else ()
          src2 = np.abs(t2.astype(np.float64)) if kn else t2.astype(np.float64)
          m2 = np.max(src2, axis=axes2, keepdims=True) if rank > 1 else src2
          at = (src2 == m2) & (m2 > 1e-4 * mag)
          if np.any(at & ~np.isclose(o2, t2.astype(np.float64), rtol=1e-4, atol=0)):
            i = int(np.argmax(at & ~np.isclose(o2, t2.astype(np.float64), rtol=1e-4, atol=0)))
            bad = {"group_maximum": float(t2.reshape(-1)[i]), "output": float(o2.reshape(-1)[i]), "bits": b2, "magnitude": mag}
            break
        if bad:
          break
    if clause == "code_range":
      sc = np.broadcast_to(scale, out.shape) if scale.size > 1 else np.full(out.shape, float(scale.reshape(-1)[0]))
      if np.any(np.abs(out) > top * sc * (1 + 1e-6)):
        i = int(np.argmax(np.abs(out) - top * sc))
        bad = {"output": float(out.reshape(-1)[i]), "scale": float(sc.reshape(-1)[i]), "top_code": top}
    if bad is not None:
      bad.update({"bits": bits, "integer": integer, "tensor_kind_index": tried})
      return {"status": "confirmed", "observed": bad, "expected": "clause %s" % clause}
  return {"status": "refuted", "observed": {"tensors_tried": tried}}


@replayer("c04_eps_probe")
def c04_eps_probe(d):
  """Bounded probe for elements_per_scale: the element-wise proof reads a tensor through ONE generic element and cannot
  see WHERE a group's scale ends up; here the real quantizer runs on tensors whose groups have clearly different
  magnitudes and its scale tensor is compared, position by position, with the block-wise least-squares scale."""
  import tensorflow as tf
  from qkeras import quantizers
  w = d["witness"]
  cls = getattr(quantizers, w["class"])
  shape, sa, eps = tuple(w["shape"]), w["scale_axis"], w["eps"]
  axes = sa if isinstance(sa, list) else [sa]
  es = eps if isinstance(eps, list) else [eps] * len(axes)
  rng = np.random.default_rng(5)
  tried = 0
  for trial in range(3):
    t = rng.standard_normal(shape).astype(np.float32)
    # make the blocks along every scale axis differ in magnitude by powers of 4
    for a, e in zip(axes, es):
      idx = (np.arange(shape[a]) // e).astype(np.float32)
      sh = [1] * len(shape)
      sh[a] = shape[a]
      t = t * (4.0 ** idx.reshape(sh)).astype(np.float32)
    kw = dict(w["kwargs"])
    q = cls(**kw)
    q(tf.constant(t))
    scale = np.array(q.scale, dtype=np.float64)
    scale = np.broadcast_to(scale, [s if i in axes else 1 for i, s in enumerate(shape)]) if scale.ndim == len(shape) and all(
        scale.shape[i] in (1, shape[i]) for i in range(len(shape))) else scale
    code = np.where(t >= 0, 1.0, -1.0)
    view, keep = [], []
    for i, dd in enumerate(shape):
      if i in axes:
        e = es[axes.index(i)]
        keep.append(len(view))
        view.extend([dd // e, e])
      else:
        view.append(dd)
    red = tuple(i for i in range(len(view)) if i not in keep)
    qx = np.mean((t.astype(np.float64) * code).reshape(view), axis=red, keepdims=True)
    qq = np.mean((code * code).reshape(view), axis=red, keepdims=True)
    want = qx / (qq + 1e-7)
    if "po2" in str(kw.get("alpha")):
      want = np.power(2.0, np.round(np.log(want + 1e-7) / np.log(2.0)))
    back = [shape[i] // es[axes.index(i)] if i in axes else 1 for i in range(len(shape))]
    want = want.reshape(back)
    for a, e in zip(axes, es):
      want = np.repeat(want, e, axis=a)
    tried += 1
    got = np.array(q.scale, dtype=np.float64)
    if got.shape != want.shape or not np.allclose(got, want, rtol=1e-4, atol=1e-7):
      return {"status": "confirmed",
              "observed": {"scale": got.reshape(-1).tolist()[:12], "expected_blockwise": want.reshape(-1).tolist()[:12],
                           "scale_shape": list(got.shape), "expected_shape": list(want.shape)},
              "expected": "every block of elements_per_scale consecutive elements carries the least-squares scale of that block"}
  return {"status": "refuted", "observed": {"tensors_tried": tried}}
