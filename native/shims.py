"""Harness-side shims for the pinned Keras 3 / TF 2.21 environment (never /repo edits)."""
import sys
import types

PHASE = [0]


def install_learning_phase():
  import tensorflow.keras.backend as K
  if not hasattr(K, "learning_phase"):
    K.learning_phase = lambda: PHASE[0]
  else:
    K.learning_phase = lambda: PHASE[0]


def install_keras_tuner_stub():
  if "keras_tuner" in sys.modules:
    return
  m = types.ModuleType("keras_tuner")

  class _Base(object):
    def __init__(self, *a, **k):
      pass
  for n in ("HyperModel", "BayesianOptimization", "Hyperband", "RandomSearch", "Tuner", "Oracle"):
    setattr(m, n, type(n, (_Base,), {}))
  m.engine = types.ModuleType("keras_tuner.engine")
  sys.modules["keras_tuner"] = m
  sys.modules["kerastuner"] = m
