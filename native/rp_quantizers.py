"""Native replayers for the element-wise quantizer properties (C01-C08)."""
from fractions import Fraction

import math
import numpy as np

from native.registry import replayer
from native import shims


def F(v):
  if isinstance(v, str):
    return Fraction(v)
  if isinstance(v, bool):
    return Fraction(int(v))
  return Fraction(v)


def build(rep):
  from qkeras import quantizers
  kw = {}
  for k, v in rep["kwargs"].items():
    if isinstance(v, str) and k not in ("alpha", "log2_rounding", "threshold") or (isinstance(v, str) and "/" in v):
      v = float(Fraction(v))
    elif isinstance(v, str) and k == "alpha" and v not in ("auto", "auto_po2"):
      v = float(Fraction(v))
    kw[k] = v
  return getattr(quantizers, rep["class"])(**kw), kw


def apply(q, xs):
  import tensorflow as tf
  r = q(tf.constant([float(x) for x in xs], dtype=tf.float32))
  return [Fraction(float(v)) for v in np.array(r).reshape(-1)]


def f32(x):
  return Fraction(float(np.float32(float(x))))


@replayer("q_fixed")
def q_fixed(d):
  """Clauses of C01/C02 evaluated natively on the real quantizer at the witness input."""
  shims.install_learning_phase()
  w = d["witness"]
  rep = w.get("__replay__")
  if rep is None:
    return {"status": "unsupported", "detail": "no construction recipe in witness"}
  q, kw = build(rep)
  clause = d["clause"]
  x = f32(F(w.get("x", 0)))
  obs = {"class": rep["class"], "kwargs": {k: str(v) for k, v in kw.items()}, "x": str(x)}
  try:
    y = apply(q, [x])[0]
  except Exception as e:  # pylint: disable=broad-except
    if clause == "no_raise":
      return {"status": "confirmed", "observed": "raised %s: %s" % (type(e).__name__, e)}
    return {"status": "error", "detail": "quantizer raised %s: %s" % (type(e).__name__, e)}
  obs["q(x)"] = str(y)
  if clause == "no_raise":
    return {"status": "refuted", "observed": obs}
  if clause == "enclosed":
    mx, mn = Fraction(float(q.max())), Fraction(float(q.min()))
    obs.update({"min()": str(mn), "max()": str(mx)})
    bad = not (mn <= y <= mx)
    return {"status": "confirmed" if bad else "refuted", "observed": obs, "expected": "min() <= q(x) <= max()"}
  if clause == "idem":
    y2 = apply(q, [y])[0]
    obs["q(q(x))"] = str(y2)
    return {"status": "confirmed" if y2 != y else "refuted", "observed": obs, "expected": "q(q(x)) == q(x)"}
  if clause == "mono":
    x2 = f32(F(w.get("x2", 0)))
    y2 = apply(q, [x2])[0]
    obs.update({"x2": str(x2), "q(x2)": str(y2)})
    bad = x <= x2 and y > y2
    return {"status": "confirmed" if bad else "refuted", "observed": obs, "expected": "x <= x2 => q(x) <= q(x2)"}
  if clause == "int_code":
    fmt = rep.get("format") or {}
    step, probe = F(fmt["step"]), F(fmt["probe"])
    yy = apply(q, [probe])[0]
    code = yy / step
    obs.update({"probe_x": str(probe), "q(probe)": str(yy), "step": str(step), "code": str(code)})
    return {"status": "confirmed" if code.denominator != 1 else "refuted", "observed": obs,
            "expected": "every output is an integer multiple of the format step"}
  if clause in ("code", "nearest", "sat_lo", "sat_hi"):
    fmt = rep.get("format")
    if fmt is None or "unit" not in fmt:
      return {"status": "unsupported", "detail": "no format in recipe"}
    unit, lo, hi = F(fmt["unit"]), F(fmt["lo"]), F(fmt["hi"])
    sur = fmt.get("surrogate", "identity")
    exact = True
    if sur == "identity":
      sx = x
    elif sur.startswith("leaky:"):
      sl = Fraction(float(sur.split(":")[1]))
      sx = x if x >= 0 else sl * x
    elif sur == "hard_sigmoid":
      sx = min(max(Fraction(1, 2) * x + Fraction(1, 2), 0), 1)
    elif sur == "hard_tanh":
      sx = 2 * min(max(Fraction(1, 2) * x + Fraction(1, 2), 0), 1) - 1
    else:
      import math
      exact = False
      sx = Fraction(math.tanh(float(x))) if sur == "real_tanh" else Fraction(1 / (1 + math.exp(-float(x))))
    kq = y / unit
    p = sx / unit
    obs.update({"unit": str(unit), "lo": str(lo), "hi": str(hi), "code": str(kq), "p": str(float(p))})
    bad = kq.denominator != 1 or not (lo <= kq <= hi)
    tol = Fraction(0) if exact else Fraction(1, 1000)
    if not bad:
      if lo <= p <= hi:
        bad = abs(kq - p) > Fraction(1, 2) + tol
      elif p < lo - tol:
        bad = kq != lo
      elif p > hi + tol:
        bad = kq != hi
    return {"status": "confirmed" if bad else "refuted", "observed": obs,
            "expected": "q(x) = unit*k, k the integer code nearest to surrogate(x)/unit clipped to [lo, hi]"}
  return {"status": "unsupported", "detail": "clause %s" % clause}


@replayer("c07_mix")
def c07_mix(d):
  from qkeras import quantizers
  w = d["witness"]
  rep = w["__replay__"]
  cls = getattr(quantizers, rep["class"])
  bits, integer, f = int(rep["bits"]), int(rep["integer"]), float(F(rep["f"]))
  x = f32(F(w.get("x", 0)))
  if str(rep.get("alpha", "")).startswith("auto"):
    # data-dependent scale: whole tensors (the witness element placed in a seeded random tensor, plus two more tensors)
    import tensorflow as tf
    rng = np.random.RandomState(3)
    shape = tuple(rep.get("shape", [3, 4]))
    worst = None
    for trial in range(3):
      t = rng.uniform(-4, 4, size=shape).astype(np.float32)
      if trial == 0:
        t.reshape(-1)[0] = np.float32(float(x))
      outs = []
      for ff in (f, 0.0, 1.0):
        q = cls(bits, integer, 1, 1, alpha=rep["alpha"], qnoise_factor=ff, use_ste=bool(rep["use_ste"]))
        outs.append(np.array(q(tf.constant(t)), dtype=np.float64))
      yf_, y0_, y1_ = outs
      if d["clause"] == "mix":
        dev = float(np.max(np.abs(yf_ - (y0_ + f * (y1_ - y0_)))))
      elif d["clause"] == "f0":
        dev = float(np.max(np.abs(y0_ - t.astype(np.float64))))
      else:
        return {"status": "unsupported"}
      if worst is None or dev > worst[0]:
        worst = (dev, trial)
    return {"status": "confirmed" if worst[0] > 1e-4 else "refuted",
            "observed": {"max_deviation": worst[0], "tensor": worst[1], "bits": bits, "integer": integer, "f": f},
            "expected": "q_f = q_0 + f*(q_1 - q_0) and q_0(x) = x on whole tensors"}

  def mk(ff):
    kw = {"qnoise_factor": ff}
    if rep["class"] != "quantized_linear":
      kw["use_ste"] = bool(rep["use_ste"])
    if rep["class"] in ("quantized_po2", "quantized_relu_po2"):
      return cls(bits, **kw)
    if rep.get("leaky"):
      return cls(bits, integer, 0, 0.25, **kw)
    return cls(bits, integer, **kw)
  yf, y0, y1 = apply(mk(f), [x])[0], apply(mk(0.0), [x])[0], apply(mk(1.0), [x])[0]
  obs = {"x": str(x), "f": f, "q_f": str(yf), "q_0": str(y0), "q_1": str(y1)}
  if d["clause"] == "mix":
    exp = y0 + Fraction(f) * (y1 - y0)
    tol = Fraction(1, 2 ** 18) * max(1, abs(exp))
    return {"status": "confirmed" if abs(yf - exp) > tol else "refuted", "observed": obs, "expected": "q_f = q_0 + f*(q_1 - q_0)"}
  if d["clause"] == "f0":
    sur = x
    if rep["class"] == "quantized_relu_po2":
      sur = x if x >= 0 else Fraction(0)
    if rep["class"] == "quantized_relu":
      n = bits - (1 if rep.get("leaky") else 0)
      top = Fraction(2) ** integer - Fraction(2) ** (integer - n)
      sur = top if x > top else (x if x >= 0 else (Fraction(1, 4) * x if rep.get("leaky") else 0))
    return {"status": "confirmed" if y0 != f32(sur) else "refuted", "observed": obs, "expected": "q_0(x) = surrogate(x) = %s" % sur}
  if d["clause"] == "f1":
    # fully quantized value must be a code of the format nearest to the surrogate
    n = bits - (1 if (rep.get("leaky") or rep["class"] in ("quantized_bits", "quantized_linear")) else 0)
    unit = Fraction(2) ** (integer - n)
    k = y1 / unit
    sx = x if (x >= 0 or rep["class"] in ("quantized_bits", "quantized_linear")) else (Fraction(1, 4) * x if rep.get("leaky") else 0)
    lo = 0 if rep["class"] == "quantized_relu" and not rep.get("leaky") else -(2 ** n)
    if rep.get("leaky"):
      lo = -(2 ** n) // 4
    if rep["class"] == "quantized_linear":
      lo = -(2 ** n) + 1
    hi = 2 ** n - 1
    p = sx / unit
    tgt = min(max(p, lo), hi)
    bad = k.denominator != 1 or abs(k - tgt) > Fraction(1, 2)
    obs.update({"code": str(k), "p": str(p)})
    return {"status": "confirmed" if bad else "refuted", "observed": obs, "expected": "q_1(x) is the nearest code"}
  return {"status": "unsupported"}


@replayer("c07_update")
def c07_update(d):
  from qkeras import quantizers
  w = d["witness"]
  rep = w["__replay__"]
  cls = getattr(quantizers, rep["class"])
  bits, integer, f, g = int(rep["bits"]), int(rep["integer"]), float(F(rep["f"])), float(F(rep["g"]))
  x = f32(F(w.get("x", 0)))
  args = (bits,) if "po2" in rep["class"] else (bits, integer)
  q, ref = cls(*args, qnoise_factor=g), cls(*args, qnoise_factor=f)
  mode = rep["mode"]
  if mode == "float":
    q.update_qnoise_factor(f)
  elif mode == "float_after_call":
    apply(q, [x])
    q.update_qnoise_factor(f)
  elif mode == "float_twice":
    q.update_qnoise_factor(g)
    apply(q, [x])
    q.update_qnoise_factor(f)
  elif mode == "var_build_then_update":
    q.build(use_variables=True)
    q.update_qnoise_factor(f)
  elif mode == "var_update_then_build":
    q.update_qnoise_factor(f)
    q.build(use_variables=True)
  else:
    q.use_variables = True
    q.update_qnoise_factor(f)
  y, yr = apply(q, [x])[0], apply(ref, [x])[0]
  return {"status": "confirmed" if y != yr else "refuted", "observed": {"x": str(x), "updated": str(y), "constructed": str(yr)},
          "expected": "same output as a quantizer constructed with qnoise_factor=f"}


@replayer("c07_sched")
def c07_sched(d):
  from qkeras import callbacks
  w = d["witness"]
  rep = w.get("__replay__") or {}
  start, finish = int(w["start"]), int(w["finish"])
  ex = float(F(w["exponent"]))
  upd, init = int(w["update_freq"]), int(w["initial"])
  if rep.get("what") == "calc":
    sch = callbacks.QNoiseScheduler(start, finish, update_freq=upd, initial_step_or_epoch=init, exponent=ex)
    a, b = int(w["freq"]), int(w["freq2"])
    va, vb = float(sch.calculate_qnoise_factor(a)), float(sch.calculate_qnoise_factor(b))
    c = d["clause"]
    bad = {"before": a < start and va != 0.0, "after": a >= finish and va != 1.0,
           "range": not (0.0 <= va <= 1.0), "mono": a <= b and va > vb}.get(c)
    if bad is None:
      return {"status": "unsupported"}
    return {"status": "confirmed" if bad else "refuted", "observed": {"freq": a, "value": va, "freq2": b, "value2": vb}}
  if rep.get("what") == "step":
    sch = callbacks.QNoiseScheduler(start, finish, freq_type=rep["freq_type"], update_freq=upd,
                                    initial_step_or_epoch=init, exponent=ex)

    class StubQ(object):
      def __init__(self):
        self.qnoise_factor = 1.0
        self.updates = []
      def update_qnoise_factor(self, f):
        self.updates.append(float(f))
        self.qnoise_factor = f
    qs = [StubQ(), StubQ()]
    sch.quantizers = qs
    n = int(w["n"])
    import numpy as np
    # replay the whole history from the start: n+1 calls of the hook
    sch.qnoise_factor = 0.0
    hist = []
    for i in range(n + 1):
      getattr(sch, rep["hook"])(0)
      hist.append(float(sch.qnoise_factor))
    active = (rep["freq_type"] == "epoch") == (rep["hook"] == "on_epoch_begin")
    ok = all(a <= b for a, b in zip(hist, hist[1:])) and (int(sch.num_iters) == (n + 1 if active else 0))
    if active:
      for i in range(n + 1):
        pass
    return {"status": "refuted" if ok else "confirmed", "observed": {"history": hist, "num_iters": int(sch.num_iters)},
            "expected": "factor non-decreasing and the step counter advanced once per call"}
  return {"status": "unsupported"}


def _log2_exact(v):
  """(e, is_power_of_two) for a positive Fraction v: e = floor(log2 v)."""
  e = 0
  while Fraction(2) ** e > v:
    e -= 1
  while Fraction(2) ** (e + 1) <= v:
    e += 1
  return e, Fraction(2) ** e == v


@replayer("q_po2")
def q_po2(d):
  w = d["witness"]
  rep = w["__replay__"]
  q, kw = build(rep)
  clause = d["clause"]
  x = f32(F(w.get("x", 0)))
  y = apply(q, [x])[0]
  obs = {"class": rep["class"], "kwargs": {k: str(v) for k, v in kw.items()}, "x": str(x), "q(x)": str(y)}
  if clause == "enclosed":
    mx, mn = Fraction(float(q.max())), Fraction(float(q.min()))
    obs.update({"min()": str(mn), "max()": str(mx)})
    return {"status": "confirmed" if not (mn <= y <= mx) else "refuted", "observed": obs}
  if clause == "idem":
    y2 = apply(q, [y])[0]
    obs["q(q(x))"] = str(y2)
    return {"status": "confirmed" if y2 != y else "refuted", "observed": obs}
  if clause == "le_max":
    mv = Fraction(kw["max_value"])
    return {"status": "confirmed" if abs(y) > mv else "refuted", "observed": obs, "expected": "|q(x)| <= max_value"}
  if clause in ("mono_pos", "mono_neg"):
    x2 = f32(F(w.get("x2", 0)))
    y2 = apply(q, [x2])[0]
    obs.update({"x2": str(x2), "q(x2)": str(y2)})
    pre = (0 <= x <= x2) if clause == "mono_pos" else (x <= x2 < 0)
    return {"status": "confirmed" if pre and y > y2 else "refuted", "observed": obs}
  if clause == "sign":
    relu = rep["class"] == "quantized_relu_po2"
    slope = kw.get("negative_slope", 0)
    if relu and not slope:
      bad = y <= 0
    else:
      bad = (x >= 0 and y <= 0) or (x < 0 and y >= 0)
    return {"status": "confirmed" if bad else "refuted", "observed": obs}
  if clause in ("value", "exp_range", "nearest"):
    if y == 0:
      return {"status": "confirmed", "observed": obs, "expected": "a signed power of two"}
    e, is_p2 = _log2_exact(abs(y))
    bits = int(kw["bits"])
    relu = rep["class"] == "quantized_relu_po2"
    mv = kw.get("max_value")
    need = 0 if (mv is not None and mv <= 1) else 1
    eff = bits - (0 if relu else 1) - need
    emin, emax = -(2 ** eff), 2 ** eff - 1
    obs.update({"exponent": e, "emin": emin, "emax": emax})
    bad = (not is_p2) or not (emin <= e <= emax)
    if not bad and clause in ("value", "nearest"):
      slope = kw.get("negative_slope", 0) if relu else 0
      if relu:
        mag = x if x >= 0 else (Fraction(float(slope)) * -x if slope else Fraction(0))
      else:
        mag = abs(x)
      eps = Fraction(1e-07)
      if mag < eps:
        bad = e != emin
      else:
        xf = min(mag, Fraction(mv)) if mv is not None else mag
        le, _ = _log2_exact(xf)
        if kw.get("log2_rounding", "rnd") == "floor":
          tgt = le
          ok = min(max(tgt, emin), emax) == e
        else:
          # nearest in log scale: xf^2 vs 2^(2le+1); ties (exactly sqrt2*2^le) cannot occur for rationals
          tgt = le + (1 if xf * xf > Fraction(2) ** (2 * le + 1) else 0)
          ok = min(max(tgt, emin), emax) == e
        bad = not ok
    return {"status": "confirmed" if bad else "refuted", "observed": obs,
            "expected": "sign * 2^e, e the rounded log2 of the clamped magnitude clipped to [emin, emax]"}
  return {"status": "unsupported", "detail": clause}


@replayer("c06_grad")
def c06_grad(d):
  import tensorflow as tf
  from qkeras import quantizers
  w = d["witness"]
  rep = w["__replay__"]
  cls, variant = rep["class"], rep["variant"]
  bits, integer, f = int(rep["bits"]), int(rep["integer"]), float(F(rep["f"]))
  x0 = float(f32(F(w.get("x", 0))))
  C = getattr(quantizers, cls)
  if str(rep.get("alpha", "")).startswith("auto") and cls in ("quantized_bits", "quantized_linear"):
    # data-dependent scale: whole tensors, a non-uniform upstream gradient (so that a gradient leaking through the
    # group reduction does not cancel), low bit widths; expected = the constant surrogate slope on every element
    ste = bool(rep.get("use_ste", True))
    exp = 1.0 if (ste or cls == "quantized_linear") else 1 - f
    worst, all_zero = None, False
    rng = np.random.RandomState(7)
    for b in sorted({max(2, min(bits, 8)), 3, 4}):
      for trial in range(4):
        kw = {"alpha": rep["alpha"], "qnoise_factor": f}
        if cls == "quantized_bits":
          kw["use_ste"] = ste
        q = C(b, min(integer, b - 1), 1, 1, **kw)
        xv = rng.uniform(-3, 3, size=tuple(rep.get("shape", [3, 4]))).astype(np.float32)
        up = rng.uniform(0.5, 1.5, size=xv.shape).astype(np.float32)
        x = tf.Variable(xv)
        with tf.GradientTape() as tape:
          y = tf.reduce_sum(q(x) * up)
        g = tape.gradient(y, x)
        gv = np.zeros_like(xv) if g is None else g.numpy()
        dev = float(np.max(np.abs(gv - exp * up)))
        all_zero = all_zero or not np.any(gv)
        if worst is None or dev > worst[0]:
          worst = (dev, b, trial)
    obs = {"max_deviation_from_surrogate": worst[0], "bits": worst[1], "expected_slope": exp}
    if d["clause"] == "nonzero":
      return {"status": "confirmed" if all_zero else "refuted", "observed": obs, "expected": "a gradient that is not identically zero"}
    return {"status": "confirmed" if worst[0] > 1e-4 else "refuted", "observed": obs,
            "expected": "gradient = %g * upstream on every element (the scale carries no gradient)" % exp}
  if cls == "quantized_bits":
    q = C(bits, integer, qnoise_factor=f, use_ste=(variant == "ste"))
    exp = 1.0 if variant == "ste" else 1 - f
  elif cls == "quantized_linear":
    q = C(bits, integer, qnoise_factor=f)
    n = bits - 1
    unit = 2.0 ** (integer - n)
    exp = 1.0 if -(2 ** n - 1) * unit < x0 < (2 ** n - 1) * unit else 1 - f
  elif cls == "quantized_relu":
    slope = 0.25 if "leaky" in variant else 0.0
    ste = "noste" not in variant
    clipk = rep.get("clip", "q")
    kw2 = {"qnoise_factor": f, "use_ste": ste}
    if clipk == "ub":
      kw2.update({"relu_upper_bound": 6.0, "is_quantized_clip": False})
    elif clipk == "noclip":
      kw2.update({"is_quantized_clip": False})
    q = C(bits, integer, 0, slope, **kw2)
    n = bits - (1 if slope else 0)
    top = {"q": 2.0 ** integer - 2.0 ** (integer - n), "ub": 6.0, "noclip": float("inf")}[clipk]
    sur = 0.0 if x0 > top else (1.0 if x0 > 0 else slope)
    exp = sur if ste else (1 - f) * sur
  elif cls == "quantized_po2":
    ste = "noste" not in variant
    mv = 2.0 ** int(rep["mvexp"]) if "mvexp" in rep else None
    q = C(bits, mv, qnoise_factor=f, use_ste=ste)
    exp = 1.0 if ste else 1 - f
  elif cls == "quantized_relu_po2":
    slope = 0.25 if "leaky" in variant else 0
    ste = "noste" not in variant
    mv = 2.0 ** int(rep["mvexp"]) if "mvexp" in rep else None
    q = C(bits, mv, slope, qnoise_factor=f, use_ste=ste)
    base = 1.0 if x0 > 0 else slope
    if mv is not None and x0 > mv:
      base = 0.0
    exp = base if ste else (1 - f) * base
  elif cls in ("binary", "ternary"):
    alpha = rep.get("alpha")
    q = C(False, alpha) if cls == "binary" else C(alpha, 0.5)
    import math
    exp = 1 - math.tanh(x0) ** 2 if alpha is None else 1.0
  else:
    return {"status": "unsupported"}
  x = tf.Variable([x0], dtype=tf.float32)
  with tf.GradientTape() as tape:
    y = q(x)
  g = tape.gradient(y, x)
  gv = 0.0 if g is None else float(g.numpy()[0])
  obs = {"x": x0, "gradient": gv, "expected": exp}
  if d["clause"] == "nonzero":
    return {"status": "confirmed" if gv == 0.0 else "refuted", "observed": obs, "expected": "non-zero gradient on the unclipped range"}
  return {"status": "confirmed" if abs(gv - exp) > 1e-4 * max(1.0, abs(exp)) else "refuted", "observed": obs}


@replayer("c08")
def c08(d):
  import tensorflow as tf
  from qkeras import quantizers
  shims.install_learning_phase()
  w = d["witness"]
  rep = w.get("__replay__") or {}
  x = f32(F(w.get("x", 0)))
  us = [float(F(w[k])) for k in sorted(w) if k.startswith("u") and k[1:].isdigit() or k == "u"]
  real_uniform = tf.random.uniform
  it = iter(us)

  def fake_uniform(shape=None, minval=0, maxval=None, **k):
    try:
      u = next(it)
    except StopIteration:
      u = 0.5
    return tf.ones(shape, dtype=tf.float32) * u
  clause = d["clause"]
  try:
    tf.random.uniform = fake_uniform
    if rep.get("what") == "stochastic_round":
      pr = float(rep["precision"])
      y = Fraction(float(np.array(quantizers.stochastic_round(tf.constant([float(x)]), pr))[0]))
      s = x / Fraction(pr)
      fl = s.numerator // s.denominator
      cl = fl if s == fl else fl + 1
      code = y / Fraction(pr)
      u = us[0] if us else 0.5
      frac = s - fl
      bad = {"adjacent": code not in (fl, cl), "threshold": code != (fl if frac < Fraction(u) else cl),
             "fixed": s == fl and y != x, "unbiased": False, "one_draw": False}.get(clause, False)
      return {"status": "confirmed" if bad else "refuted", "observed": {"x": str(x), "u": u, "result": str(y)}}
    cls = rep.get("class")
    if cls is None:
      return {"status": "unsupported"}
    C = getattr(quantizers, cls)
    bits, integer = int(rep.get("bits", 4)), int(rep.get("integer", 0))

    def mk(st):
      return {"quantized_bits": lambda: C(bits, integer, 0, True, None, st),
              "quantized_linear": lambda: C(bits, integer, 1, True, None, st),
              "quantized_relu": lambda: C(bits, integer, 0, 0.0, st),
              "quantized_tanh": lambda: C(bits, st),
              "quantized_sigmoid": lambda: C(bits, False, False, st),
              "quantized_po2": lambda: C(bits, None, st),
              "quantized_relu_po2": lambda: C(bits, None, rep.get("negative_slope", 0) or 0, st),
              "binary": lambda: C(False, 2.0, st),
              "stochastic_binary": lambda: (C(2.0) if st else quantizers.binary(False, 2.0)),
              "stochastic_ternary": lambda: (C(2.0, 0.5) if st else quantizers.ternary(2.0, 0.5))}[cls]()
    if clause == "phase0":
      shims.PHASE[0] = 0
      y1, y2 = apply(mk(True), [x])[0], apply(mk(False), [x])[0]
      return {"status": "confirmed" if y1 != y2 else "refuted", "observed": {"x": str(x), "stochastic_cfg": str(y1), "nearest_cfg": str(y2)}}
    shims.PHASE[0] = 1
    y = apply(mk(True), [x])[0]
    fmt = rep.get("format") or {}
    unit, lo, hi, p = F(fmt["unit"]), F(fmt["lo"]), F(fmt["hi"]), F(fmt["p"])
    fl = p.numerator // p.denominator
    cl = fl if p == fl else fl + 1
    kf, kc = min(max(fl, lo), hi), min(max(cl, lo), hi)
    code = y / unit
    obs = {"x": str(x), "u": us, "q(x)": str(y), "code": str(code), "p": str(p)}
    if clause == "adjacent":
      return {"status": "confirmed" if code not in (kf, kc) else "refuted", "observed": obs,
              "expected": "one of the two codes adjacent to the clipped input"}
    if clause == "fixed":
      return {"status": "confirmed" if (p == fl and lo <= fl <= hi and code != p) else "refuted", "observed": obs}
    return {"status": "unsupported"}
  finally:
    tf.random.uniform = real_uniform
    shims.PHASE[0] = 0


@replayer("c09_rt")
def c09_rt(d):
  """Round trip natively: compare q and from_config(get_config()) (and get_quantizer(dict)) on probe tensors."""
  import tensorflow as tf
  from qkeras import quantizers
  shims.install_learning_phase()
  w = d["witness"]
  rep = w["__replay__"]
  cls = getattr(quantizers, rep["class"])
  kw = {}
  for k, v in rep["kwargs"].items():
    if isinstance(v, str) and v not in ("auto", "auto_po2", "rnd", "floor", "v"):
      v = float(Fraction(v))
    kw[k] = v
  clause = d["clause"]
  if rep.get("pts_shape") and kw.get("post_training_scale") is not None:
    kw["post_training_scale"] = np.full(tuple(rep["pts_shape"]), float(kw["post_training_scale"]), dtype=np.float32)
  if rep.get("alpha_shape") and kw.get("alpha") is not None:
    kw["alpha"] = np.full(tuple(rep["alpha_shape"]), float(kw["alpha"]), dtype=np.float32)
    rep["probe_shape"] = [4, rep["alpha_shape"][-1]]
  try:
    q = cls(**kw)
    cfg = q.get_config()
  except Exception as e:  # pylint: disable=broad-except
    return {"status": "error", "detail": "construction failed natively: %s" % e}
  try:
    q2 = cls.from_config(dict(cfg))
    # harness-side shim: the pinned Keras 3 ignores module_objects=globals(); resolve qkeras names through a scope
    import tensorflow.keras.utils as ku
    objs = {k: v for k, v in vars(quantizers).items() if isinstance(v, type)}
    with ku.custom_object_scope(objs):
      q3 = quantizers.get_quantizer({"class_name": rep["class"], "config": dict(cfg)})
  except Exception as e:  # pylint: disable=broad-except
    return {"status": "confirmed", "observed": "rebuild raised %s: %s" % (type(e).__name__, e)}
  if clause == "no_raise":
    return {"status": "refuted", "observed": "round trip succeeded"}
  shape = tuple(rep.get("probe_shape", [4, 6]))
  rng = np.random.RandomState(7)
  probes = [rng.uniform(-2, 2, size=shape).astype(np.float32), rng.uniform(-9, 9, size=shape).astype(np.float32),
            np.linspace(-3, 3, shape[0] * shape[1]).reshape(shape).astype(np.float32)]
  for x in probes:
    outs = []
    for qq in (q, q2, q3):
      tf.random.set_seed(3)
      np.random.seed(3)
      try:
        outs.append(np.array(qq(tf.constant(x))))
      except Exception as e:  # pylint: disable=broad-except
        outs.append("raised %s" % type(e).__name__)
    if isinstance(outs[0], str):
      continue
    for name, o in (("from_config", outs[1]), ("get_quantizer", outs[2])):
      if isinstance(o, str) or not np.array_equal(outs[0], o):
        return {"status": "confirmed", "observed": {"route": name, "kwargs": {k: str(v) for k, v in kw.items()},
                                                    "config": {k: str(v) for k, v in cfg.items()},
                                                    "original": str(outs[0].reshape(-1)[:6]), "rebuilt": str(o if isinstance(o, str) else o.reshape(-1)[:6])},
                "expected": "identical outputs"}
  return {"status": "refuted", "observed": {"probes": len(probes)}}


@replayer("c10_grammar")
def c10_grammar(d):
  """The Regex patterns the REAL GetParams hands to pyparsing (recorded by wrapping qkeras.safe_eval.Regex) against the
  documented item syntax, on the text the solver found in exactly one of the two languages; for a value text the real
  GetParams is also run on '(0, k=<text>)'."""
  import re
  import sys
  import qkeras  # noqa: F401  (qkeras.safe_eval the attribute is the function; the module is in sys.modules)
  SE = sys.modules["qkeras.safe_eval"]
  rep = (d.get("witness") or {}).get("__replay__") or {}
  diff = (rep.get("differences") or {}).get(d["clause"])
  if not diff:
    return {"status": "unsupported", "detail": "no language difference recorded for clause %s" % d["clause"]}
  pats, real = [], SE.Regex

  def rec(p, *a, **k):
    pats.append(p)
    return real(p, *a, **k)
  SE.Regex = rec
  try:
    SE.GetParams("()")
  finally:
    SE.Regex = real
  if len(pats) != 2:
    return {"status": "error", "detail": "GetParams built %d Regex elements" % len(pats)}
  text = diff["text"]
  sp = lambda c: re.fullmatch(r"\s", c) is not None
  if d["clause"] == "key_language":
    pat, want = pats[0], len(text) > 0 and not any(c in "=,)" or sp(c) for c in text)
  else:
    pat, want = pats[1], not any(c in ",)" for c in text)
  got = re.fullmatch(pat, text) is not None
  obs = {"pattern": pat, "text": text, "pattern_accepts": got, "documented_syntax_accepts": want}
  if d["clause"] == "value_language":
    try:
      obs["GetParams"] = repr(SE.GetParams("(0, k=" + text + ")"))
    except Exception as e:    # pylint: disable=broad-except
      obs["GetParams"] = "raised " + repr(e)[:200]
  return {"status": "confirmed" if got != want else "refuted", "observed": obs,
          "expected": "the item pattern accepts exactly the documented item syntax"}


@replayer("c10_str")
def c10_str(d):
  """str(q) -> get_quantizer(text) natively; compare on probe tensors."""
  import tensorflow as tf
  from qkeras import quantizers
  shims.install_learning_phase()
  w = d["witness"]
  rep = w["__replay__"]
  cls = getattr(quantizers, rep["class"])
  kw = {}
  for k, v in rep["kwargs"].items():
    if isinstance(v, str) and v not in ("auto", "auto_po2", "rnd", "floor", "v"):
      v = float(Fraction(v))
    kw[k] = v
  try:
    q = cls(**kw)
  except Exception as e:  # pylint: disable=broad-except
    return {"status": "error", "detail": "construction failed natively: %s" % e}
  try:
    text = str(q)
  except Exception as e:  # pylint: disable=broad-except
    return {"status": "confirmed", "observed": "str() raised %s: %s" % (type(e).__name__, e)}
  if d["clause"] == "no_raise":
    return {"status": "refuted", "observed": text}
  try:
    q2 = quantizers.get_quantizer(text)
  except Exception as e:  # pylint: disable=broad-except
    return {"status": "confirmed", "observed": {"text": text, "reparse": "raised %s: %s" % (type(e).__name__, e)}}
  rng = np.random.RandomState(7)
  shape = (4, 6)
  probes = [rng.uniform(-2, 2, size=shape).astype(np.float32), rng.uniform(-9, 9, size=shape).astype(np.float32),
            np.linspace(-3, 3, 24).reshape(shape).astype(np.float32)]
  for x in probes:
    outs = []
    for qq in (q, q2):
      tf.random.set_seed(3)
      try:
        outs.append(np.array(qq(tf.constant(x))))
      except Exception as e:  # pylint: disable=broad-except
        outs.append("raised %s" % type(e).__name__)
    if isinstance(outs[0], str):
      continue
    if isinstance(outs[1], str) or not np.array_equal(outs[0], outs[1]):
      return {"status": "confirmed", "observed": {"text": text, "kwargs": {k: str(v) for k, v in kw.items()},
                                                  "original": str(outs[0].reshape(-1)[:6]),
                                                  "reparsed": str(outs[1] if isinstance(outs[1], str) else outs[1].reshape(-1)[:6])}}
  # same outputs on the probes: compare the constructor-visible state as a last resort
  diff = {k: (str(getattr(q, k, None)), str(getattr(q2, k, None))) for k in kw
          if str(getattr(q, k, None)) != str(getattr(q2, k, None))}
  diff = {k: v for k, v in diff.items() if k not in ("var_name", "use_variables", "use_ste")}
  if diff:
    return {"status": "confirmed", "observed": {"text": text, "options_lost": diff}}
  return {"status": "refuted", "observed": {"text": text}}


@replayer("c08_po2")
def c08_po2(d):
  """quantized_po2 / quantized_relu_po2 with stochastic rounding in the training phase: many draws on a set of inputs;
  every output must be one of the two codes adjacent to the input (codes = even exponents with quadratic_approximation)
  and codes must be returned unchanged."""
  import tensorflow as tf
  from native import shims
  from qkeras import quantizers
  shims.install_learning_phase()
  w = d["witness"] or {}
  rep = w.get("__replay__") or {}
  cls = rep["class"]
  bits = int(rep.get("bits", w.get("bits", 6)))
  bits = max(bits, 6)                         # a wide exponent field, so that the probes are not clipped
  quad = bool(rep.get("quadratic"))
  C = getattr(quantizers, cls)
  q = C(bits, None, quadratic_approximation=quad, use_stochastic_rounding=True) if cls == "quantized_po2" else \
      C(bits, None, 0, quadratic_approximation=quad, use_stochastic_rounding=True)
  shims.PHASE[0] = 1
  probes = [3.0, 0.3, 1.0, 4.0, 0.25, 5.5, 0.07, 16.0]
  try:
    x = float(Fraction(str(w.get("x"))))
    if 1e-3 < abs(x) < 100:
      probes.insert(0, abs(x))
  except Exception:  # pylint: disable=broad-except
    pass
  base = 4.0 if quad else 2.0
  for v in probes:
    seen = set()
    for _ in range(40):
      out = float(np.array(q(tf.constant([v], dtype=tf.float32)))[0])
      seen.add(out)
    for out in seen:
      ok = out > 0 and ((out <= v < base * out) or (out / base < v <= out))
      lg = math.log(out, base) if out > 0 else None
      on_grid = lg is not None and abs(lg - round(lg)) < 1e-6
      if not (ok and on_grid):
        return {"status": "confirmed", "observed": {"input": v, "outputs_seen": sorted(seen), "offending": out,
                                                    "quadratic_approximation": quad, "bits": bits},
                "expected": "one of the two codes adjacent to the input"}
    lgv = math.log(v, base)
    if abs(lgv - round(lgv)) < 1e-9 and seen != {v}:
      return {"status": "confirmed", "observed": {"input_is_code": v, "outputs_seen": sorted(seen)},
              "expected": "codes are returned unchanged"}
  return {"status": "refuted", "observed": {"probes": probes, "draws_per_probe": 40}}


@replayer("c08_sr_po2")
def c08_sr_po2(d):
  """stochastic_round_po2 called directly: exact powers of two must come back unchanged in every draw; any other
  input must come back as one of the two adjacent exponents."""
  import tensorflow as tf
  from qkeras import quantizers
  probes = [2.0 ** k for k in range(-4, 4)] + [3.0, 0.3, 5.5, 0.07]
  for v in probes:
    seen = set()
    for _ in range(40):
      seen.add(float(np.array(quantizers.stochastic_round_po2(tf.constant([v], dtype=tf.float32)))[0]))
    lg = math.log2(v)
    lo, hi = math.floor(lg), math.ceil(lg)
    if not seen <= {float(lo), float(hi)}:
      return {"status": "confirmed", "observed": {"input": v, "exponents_seen": sorted(seen)},
              "expected": "exponent in {%d, %d}" % (lo, hi)}
  return {"status": "refuted", "observed": {"probes": probes, "draws_per_probe": 40}}


@replayer("c07_collect")
def c07_collect(d):
  """QNoiseScheduler.get_quantizers / on_train_begin on holder objects whose quantizers carry the knob with the values
  1.0, 0.0, the witness' f and 0.25: every one of them must be collected and reset."""
  from qkeras import callbacks
  w = d["witness"] or {}
  f = float(F(w.get("f", 0)))

  class StubQ(object):
    def __init__(self, v):
      self.qnoise_factor = v
      self.updates = []
      self.use_ste = True
      self.use_variables = False
      self.built = False
    def update_qnoise_factor(self, v):
      self.updates.append(float(v))
      self.qnoise_factor = v
    def build(self, *a, **k):
      self.built = True

  class Plain(object):
    pass

  class Holder(object):
    pass
  qs = [StubQ(v) for v in (1.0, 0.0, f, 0.25)]
  l0, l1, l2 = Holder(), Holder(), Holder()
  l0.quantizers = [qs[0], Plain(), None, qs[1]]
  l1.quantizer = qs[2]
  l2.quantizers = []
  l2.quantizer = qs[3]
  model = Holder()
  model.layers = [l0, Holder(), l1, l2]
  sch = callbacks.QNoiseScheduler(int(w.get("start", 0)), int(w.get("finish", 1)))
  got = sch.get_quantizers(model)
  missing = [i for i, q in enumerate(qs) if not any(q is g for g in got)]
  try:
    sch.set_model(model)
  except Exception:  # pylint: disable=broad-except
    sch._model = model
  sch.on_train_begin()
  not_reset = [i for i, q in enumerate(qs) if q.updates != [0.0]]
  if d.get("clause") == "second_train_begin_keeps_factors":
    # a first run that reached factor 1, then a second fit() with the same callback object
    for q in qs:
      q.update_qnoise_factor(1.0)
    sch.on_train_begin()
    dropped = [i for i, q in enumerate(qs) if float(q.qnoise_factor) != 1.0]
    return {"status": "confirmed" if dropped else "refuted",
            "observed": {"factor_after_second_on_train_begin": [float(q.qnoise_factor) for q in qs]},
            "expected": "a later on_train_begin leaves the factors where the schedule put them (never decreasing)"}
  bad = bool(missing or not_reset or len(got) != 4)
  return {"status": "confirmed" if bad else "refuted",
          "observed": {"factors": [1.0, 0.0, f, 0.25], "not_collected": missing, "not_reset_by_on_train_begin": not_reset,
                       "collected": len(got)},
          "expected": "all four quantizers with the knob are collected and reset to 0.0"}


@replayer("c01_range")
def c01_range(d):
  """q.range() of the real quantizer compared, as a multiset, with the code set of the format for the witness' bits /
  integer (exact rationals)."""
  from qkeras import quantizers
  w = d["witness"] or {}
  tgt = d["obligation"]
  bits, integer = int(w.get("bits", 4)), int(w.get("integer", 0))
  bits = min(bits, 12)
  if "quantized_bits.range" in tgt:
    q = quantizers.quantized_bits(bits, integer, 0, 1)
    n = bits - 1
    codes = range(-2 ** n, 2 ** n)
  elif "quantized_relu.range" in tgt:
    q = quantizers.quantized_relu(bits, integer)
    n = bits
    codes = range(0, 2 ** n)
  else:
    kn, sym = ("kn1" in d["case"]) * 1, ("sym1" in d["case"]) * 1
    q = quantizers.quantized_linear(bits, integer, sym, kn)
    n = bits - kn
    codes = range((-2 ** n + sym) if kn else 0, 2 ** n)
  step = Fraction(2) ** (integer - n)
  want = sorted(step * k for k in codes)
  got = sorted(Fraction(float(v)) for v in np.array(q.range()).reshape(-1))
  ok = got == want
  return {"status": "refuted" if ok else "confirmed",
          "observed": {"bits": bits, "integer": integer, "range_len": len(got), "codes": len(want),
                       "missing": [str(v) for v in want if v not in got][:5], "extra": [str(v) for v in got if v not in want][:5]},
          "expected": "range() == the code set of the format"}
