"""Native replayers for the element-wise quantizer properties (C01-C08)."""
from fractions import Fraction

import numpy as np

from native.registry import replayer
from native import shims


def F(v):
  if isinstance(v, str):
    return Fraction(v)
  if isinstance(v, bool):
    return Fraction(int(v))
  return Fraction(v)


def build(rep):
  from qkeras import quantizers
  kw = {}
  for k, v in rep["kwargs"].items():
    if isinstance(v, str) and k not in ("alpha", "log2_rounding", "threshold") or (isinstance(v, str) and "/" in v):
      v = float(Fraction(v))
    elif isinstance(v, str) and k == "alpha" and v not in ("auto", "auto_po2"):
      v = float(Fraction(v))
    kw[k] = v
  return getattr(quantizers, rep["class"])(**kw), kw


def apply(q, xs):
  import tensorflow as tf
  r = q(tf.constant([float(x) for x in xs], dtype=tf.float32))
  return [Fraction(float(v)) for v in np.array(r).reshape(-1)]


def f32(x):
  return Fraction(float(np.float32(float(x))))


@replayer("q_fixed")
def q_fixed(d):
  """Clauses of C01/C02 evaluated natively on the real quantizer at the witness input."""
  shims.install_learning_phase()
  w = d["witness"]
  rep = w.get("__replay__")
  if rep is None:
    return {"status": "unsupported", "detail": "no construction recipe in witness"}
  q, kw = build(rep)
  clause = d["clause"]
  x = f32(F(w.get("x", 0)))
  obs = {"class": rep["class"], "kwargs": {k: str(v) for k, v in kw.items()}, "x": str(x)}
  try:
    y = apply(q, [x])[0]
  except Exception as e:  # pylint: disable=broad-except
    if clause == "no_raise":
      return {"status": "confirmed", "observed": "raised %s: %s" % (type(e).__name__, e)}
    return {"status": "error", "detail": "quantizer raised %s: %s" % (type(e).__name__, e)}
  obs["q(x)"] = str(y)
  if clause == "no_raise":
    return {"status": "refuted", "observed": obs}
  if clause == "enclosed":
    mx, mn = Fraction(float(q.max())), Fraction(float(q.min()))
    obs.update({"min()": str(mn), "max()": str(mx)})
    bad = not (mn <= y <= mx)
    return {"status": "confirmed" if bad else "refuted", "observed": obs, "expected": "min() <= q(x) <= max()"}
  if clause == "idem":
    y2 = apply(q, [y])[0]
    obs["q(q(x))"] = str(y2)
    return {"status": "confirmed" if y2 != y else "refuted", "observed": obs, "expected": "q(q(x)) == q(x)"}
  if clause == "mono":
    x2 = f32(F(w.get("x2", 0)))
    y2 = apply(q, [x2])[0]
    obs.update({"x2": str(x2), "q(x2)": str(y2)})
    bad = x <= x2 and y > y2
    return {"status": "confirmed" if bad else "refuted", "observed": obs, "expected": "x <= x2 => q(x) <= q(x2)"}
  if clause == "int_code":
    fmt = rep.get("format") or {}
    step, probe = F(fmt["step"]), F(fmt["probe"])
    yy = apply(q, [probe])[0]
    code = yy / step
    obs.update({"probe_x": str(probe), "q(probe)": str(yy), "step": str(step), "code": str(code)})
    return {"status": "confirmed" if code.denominator != 1 else "refuted", "observed": obs,
            "expected": "every output is an integer multiple of the format step"}
  if clause in ("code", "nearest", "sat_lo", "sat_hi"):
    fmt = rep.get("format")
    if fmt is None:
      return {"status": "unsupported", "detail": "no format in recipe"}
    step, lo, hi, scale = F(fmt["step"]), int(fmt["lo"]), int(fmt["hi"]), F(fmt.get("scale", 1))
    sx = F(fmt["surrogate_x"]) if "surrogate_x" in fmt else x
    kq = y / (scale * step)
    p = sx / step
    obs.update({"step": str(step), "lo": lo, "hi": hi, "code": str(kq), "p": str(p)})
    bad = kq.denominator != 1 or not (lo <= kq <= hi)
    if not bad:
      if lo <= p <= hi:
        bad = abs(kq - p) > Fraction(1, 2)
      elif p < lo:
        bad = kq != lo
      else:
        bad = kq != hi
    return {"status": "confirmed" if bad else "refuted", "observed": obs,
            "expected": "q(x) = scale*step*k, k the integer code nearest to x/step clipped to [lo, hi]"}
  return {"status": "unsupported", "detail": "clause %s" % clause}
