"""Native replayers for C18: the real generate_layer_data_type_map on a real one-layer graph, and the real
layer evaluated on extremal tensors; membership of the produced pre-activation in the reported type is
decided with exact rational arithmetic."""
import itertools
from fractions import Fraction

import numpy as np

from native.registry import replayer
from native.rp_qtools import build_qkeras, operand_values, member, _mods


def _layer_and_input(ltype, dims, wq, bq):
  from qkeras import QDense, QConv1D, QConv2D, QDepthwiseConv2D
  use_bias = bq is not None
  if ltype == "QDense":
    layer = QDense(dims[1], kernel_quantizer=wq, bias_quantizer=bq, use_bias=use_bias, name="layer0")
    shape = (1, dims[0])
  elif ltype == "QConv1D":
    layer = QConv1D(dims[2], dims[0], kernel_quantizer=wq, bias_quantizer=bq, use_bias=use_bias, name="layer0")
    shape = (1, dims[0], dims[1])
  elif ltype == "QConv2D":
    layer = QConv2D(dims[3], (dims[0], dims[1]), kernel_quantizer=wq, bias_quantizer=bq, use_bias=use_bias,
                    name="layer0")
    shape = (1, dims[0], dims[1], dims[2])
  elif ltype == "QDepthwiseConv2D":
    layer = QDepthwiseConv2D((dims[0], dims[1]), depth_multiplier=dims[3], depthwise_quantizer=wq,
                             bias_quantizer=bq, use_bias=use_bias, name="layer0")
    shape = (1, dims[0], dims[1], dims[2])
  else:
    raise ValueError(ltype)
  layer.build(shape)
  return layer, shape


def _run_map(ltype, layer, xq, shape):
  import networkx as nx
  from qkeras.qtools import generate_layer_data_type_map as G
  g = nx.DiGraph()
  g.add_node(-1, layer=[None], type=[None], out_quantizer=None)
  g.add_node(0, layer=[layer], type=[ltype], out_quantizer=None)
  g.add_node(-2, layer=[None], type=[None], out_quantizer=None)
  g.add_edge(-1, 0, shape=(None,) + tuple(shape[1:]), tensor="t_in", quantizer=xq)
  g.add_edge(0, -2, shape=None, tensor="t_out", quantizer=None)
  res = G.generate_layer_data_type_map(g, [], False)
  return res["layer_data_type_map"], g


def _desc(t):
  return {k: getattr(t, k, None) for k in ("mode", "bits", "int_bits", "is_signed", "max_val_po2", "name")}


@replayer("c18_map")
def c18_map(d):
  import tensorflow as tf
  w = d["witness"] or {}
  rp = w.get("__replay__") or {}
  name = d["case"]
  ltype = rp.get("layer") or name.split("_")[0]
  wk, wmv, xk, bk = rp["wk"], rp["wmv"], rp["xk"], rp["bk"]
  rank = {"QDense": 2, "QConv1D": 3, "QConv2D": 4, "QDepthwiseConv2D": 4}[ltype]
  dims = [int(w.get("d%d" % i, 1)) for i in range(rank)]
  wq, xq = build_qkeras(wk, wmv, w, "w", alpha=1.0), build_qkeras(xk, None, w, "x")
  bq = build_qkeras(bk, None, w, "b") if bk else None
  clause = d["clause"]
  try:
    layer, shape = _layer_and_input(ltype, dims, wq, bq)
    lmap, g = _run_map(ltype, layer, xq, shape)
  except Exception as e:  # pylint: disable=broad-except
    if clause == "no_raise":
      return {"status": "confirmed", "observed": "raised %s: %s" % (type(e).__name__, e)}
    return {"status": "error", "detail": "map construction raised %s: %s" % (type(e).__name__, e)}
  if clause == "no_raise":
    return {"status": "refuted", "observed": "no exception"}
  if layer not in lmap:
    return {"status": "confirmed" if clause == "entry" else "error", "observed": "no map entry for the layer"}
  if clause == "entry":
    return {"status": "refuted", "observed": "entry present"}
  ent = lmap[layer]
  get = (lambda k: ent[k]) if isinstance(ent, dict) else (lambda k: getattr(ent, k))
  acc = get("accumulator").output
  desc = {"accumulator": _desc(acc), "dims": dims}
  wvals, _ = operand_values(wk, wmv, w, "w", wq)
  xvals, _ = operand_values(xk, None, w, "x", xq)
  bvals = operand_values(bk, None, w, "b", bq)[0] if bk else [Fraction(0)]
  if clause in ("weight_fits", "input_fits", "bias_fits"):
    t, vals = {"weight_fits": (get("weight_quantizer"), wvals), "input_fits": (get("input_quantizer_list")[0], xvals),
               "bias_fits": (get("bias_quantizer"), bvals)}[clause]
    desc["type"] = _desc(t)
    for v in vals:
      if not member(t, v):
        desc["value"] = str(v)
        return {"status": "confirmed", "observed": desc, "expected": "value representable in the reported type"}
    return {"status": "refuted", "observed": desc}
  if clause == "bias_none":
    return {"status": "refuted" if get("bias_quantizer") is None else "confirmed", "observed": desc}
  if clause == "out_edge":
    q = g[0][-2]["quantizer"]
    return {"status": "refuted" if q is get("accumulator").output else "confirmed", "observed": desc}
  if clause not in ("preact_fits", "preact_res"):
    return {"status": "unsupported", "detail": "clause %s" % clause}

  def pick(vals):
    nz = sorted(set(vals), key=abs)
    small = [v for v in nz if v != 0][:1]
    return sorted(set([min(vals), max(vals)] + small))
  tried = 0
  zero_ok = Fraction(0) in xvals
  for pattern, wv, xv, bv in itertools.product(("all", "one"), pick(wvals), pick(xvals), pick(bvals)):
    if pattern == "one" and not zero_ok:
      continue
    ws = layer.get_weights()
    new = [np.full(ws[0].shape, float(wv), dtype=np.float32)]
    if bk:
      new.append(np.full(ws[1].shape, float(bv), dtype=np.float32))
    layer.set_weights(new)
    xa = np.full(shape, float(xv), dtype=np.float32)
    if pattern == "one":
      # a single non-zero input element: the pre-activation is one product (plus bias)
      flat = np.zeros(int(np.prod(shape)), dtype=np.float32)
      flat[0] = float(xv)
      xa = flat.reshape(shape)
    out = np.array(layer(tf.constant(xa))).reshape(-1)
    tried += 1
    for o in out[:1]:
      v = Fraction(float(o))
      if not member(acc, v):
        desc.update({"w": str(wv), "x": str(xv), "b": str(bv), "pre_activation": str(v),
                     "inputs": "all-equal tensors" if pattern == "all" else "one non-zero input element"})
        return {"status": "confirmed", "observed": desc,
                "expected": "pre-activation representable in the reported accumulator type"}
  desc["corner_combinations_tried"] = tried
  return {"status": "refuted", "observed": desc}


def _plain_layer(ltype, shape, use_bias):
  from qkeras import QDense, QConv1D, QConv2D, QDepthwiseConv2D
  if ltype == "QDense":
    return QDense(shape[1], use_bias=use_bias, name="layer0"), (shape[0],)
  if ltype == "QConv1D":
    return QConv1D(shape[2], shape[0], use_bias=use_bias, name="layer0"), (shape[0], shape[1])
  if ltype == "QConv2D":
    return QConv2D(shape[3], (shape[0], shape[1]), use_bias=use_bias, name="layer0"), (shape[0], shape[1], shape[2])
  if ltype == "QDepthwiseConv2D":
    return (QDepthwiseConv2D((shape[0], shape[1]), depth_multiplier=shape[3], use_bias=use_bias, name="layer0"),
            (shape[0], shape[1], shape[2]))
  raise ValueError(ltype)


def _get_nested(w, name, shape):
  if len(shape) == 1:
    return [float(Fraction(str(w.get("%s_%d" % (name, i), 0)))) for i in range(shape[0])]
  return [_get_nested(w, "%s_%d" % (name, i), shape[1:]) for i in range(shape[0])]


@replayer("c18_analyze")
def c18_analyze(d):
  import tensorflow as tf
  from qkeras import estimate
  w = d["witness"] or {}
  rp = w["__replay__"]
  ltype, shape, use_bias = rp["layer"], tuple(rp["shape"]), rp["use_bias"]
  xmin, xmax = rp["range"]
  layer, in_shape = _plain_layer(ltype, shape, use_bias)
  inp = tf.keras.Input(in_shape)
  model = tf.keras.Model(inp, layer(inp))
  k = np.array(_get_nested(w, "k", shape), dtype=np.float32)
  ws = [k]
  if use_bias:
    nb = shape[-2] * shape[-1] if ltype == "QDepthwiseConv2D" else shape[-1]
    ws.append(np.array(_get_nested(w, "b", (nb,)), dtype=np.float32))
  layer.set_weights(ws)
  # Keras 3: unfold_model fails on layer.input_shape; replaced by its contract (identity on a model without
  # folded layers), the same assumption the symbolic side makes
  estimate.unfold_model = lambda m: m
  clause = d["clause"]
  try:
    sizes = estimate.analyze_accumulator(model, {"layer0": (xmin, xmax)})
  except Exception as e:  # pylint: disable=broad-except
    if clause == "no_raise":
      return {"status": "confirmed", "observed": "raised %s: %s" % (type(e).__name__, e)}
    return {"status": "error", "detail": "analyze_accumulator raised %s: %s" % (type(e).__name__, e)}
  if clause == "no_raise":
    return {"status": "refuted", "observed": "no exception, sizes %s" % sizes}
  size = int(sizes["layer0"])
  # extremal inputs: every vertex of the box (at most 2^N, N <= 6 here), evaluated by the real layer
  n_in = int(np.prod(in_shape))
  worst = None
  for bits in itertools.product((xmin, xmax), repeat=n_in):
    x = np.array(bits, dtype=np.float32).reshape((1,) + tuple(in_shape))
    out = np.abs(np.array(layer(tf.constant(x)), dtype=np.float64)).max()
    if worst is None or out > worst[0]:
      worst = (float(out), [float(b) for b in bits])
  desc = {"reported_size": size, "largest_output_magnitude": worst[0], "input": worst[1], "weights": k.tolist(),
          "bias": ws[1].tolist() if use_bias else None}
  if Fraction(worst[0]) > Fraction(2) ** size:
    return {"status": "confirmed", "observed": desc, "expected": "|output| <= 2^size for inputs in the stated range"}
  return {"status": "refuted", "observed": desc}


@replayer("c18_fused")
def c18_fused(d):
  """auto_po2 kernel: real QDense/QConv2D whose kernel quantizer has been called on weights that give the witness'
  per-channel scales; the real map's fused_accumulator must hold the real layer's pre-activations."""
  import tensorflow as tf
  from qkeras import quantizers
  w = d["witness"] or {}
  rp = w.get("__replay__") or {}
  ltype, xk, bk = rp["layer"], rp["xk"], rp["bk"]
  bits, integer = int(w.get("w_bits", 4)), int(w.get("w_int", 0))
  t = [int(w.get("t0", 0)), int(w.get("t1", 0))]
  rank = {"QDense": 2, "QConv2D": 4}[ltype]
  dims = [int(w.get("d%d" % i, 1)) for i in range(rank)]
  dims[-1] = 2                                  # two output channels, one per scale
  wq = quantizers.quantized_bits(bits, integer, 1, 1, alpha="auto_po2")
  xq = build_qkeras(xk, None, w, "x")
  bq = build_qkeras(bk, None, w, "b") if bk else None
  clause = d["clause"]
  n = bits - 1
  top = 2 ** n - 1
  try:
    layer, shape = _layer_and_input(ltype, dims, wq, bq)
    # weights on the lattice of channel c: q.scale[c] * step * code with the extreme code, so that the real
    # quantizer reproduces them and records scale 2^t_c
    ws = layer.get_weights()
    k = np.zeros(ws[0].shape, dtype=np.float32)
    for c in range(2):
      k[..., c] = float(Fraction(2) ** t[c] * Fraction(2) ** (integer - n) * top)
    new = [k] + ([np.zeros(ws[1].shape, np.float32)] if bk else [])
    layer.set_weights(new)
    layer.kernel_quantizer_internal(tf.constant(k))          # the quantizer records its scale
    scale = np.array(layer.kernel_quantizer_internal.scale).reshape(-1)
    lmap, g = _run_map(ltype, layer, xq, shape)
  except Exception as e:  # pylint: disable=broad-except
    if clause == "no_raise":
      return {"status": "confirmed", "observed": "raised %s: %s" % (type(e).__name__, e)}
    return {"status": "error", "detail": "%s: %s" % (type(e).__name__, e)}
  if clause == "no_raise":
    return {"status": "refuted", "observed": "no exception"}
  ent = lmap[layer]
  if clause == "fused_entry":
    ok = "fused_accumulator" in ent and ent["fused_accumulator"] is not ent["accumulator"]
    return {"status": "refuted" if ok else "confirmed", "observed": {"keys": sorted(ent.keys())}}
  acc = ent["fused_accumulator"].output
  desc = {"fused_accumulator": _desc(acc), "recorded_scale": scale.tolist(), "wanted_scale_exponents": t, "dims": dims}
  xvals, _ = operand_values(xk, None, w, "x", xq)
  bvals = operand_values(bk, None, w, "b", bq)[0] if bk else [Fraction(0)]
  for sign in (1.0, -1.0):
    for xv in sorted(set([min(xvals), max(xvals)] + [v for v in sorted(set(xvals), key=abs) if v != 0][:1])):
      for bv in sorted(set([min(bvals), max(bvals)])):
        new = [k * np.float32(sign)] + ([np.full(ws[1].shape, float(bv), np.float32)] if bk else [])
        layer.set_weights(new)
        for pattern in ("all", "one"):
          xa = np.full(shape, float(xv), dtype=np.float32)
          if pattern == "one":
            flat = np.zeros(int(np.prod(shape)), np.float32)
            flat[0] = float(xv)
            xa = flat.reshape(shape)
          out = np.array(layer(tf.constant(xa))).reshape(-1)
          for c, o in enumerate(out[:2]):
            v = Fraction(float(o))
            if not member(acc, v):
              desc.update({"channel": c, "weight": float(new[0][..., c].reshape(-1)[0]), "x": str(xv), "b": str(bv),
                           "pre_activation": str(v), "inputs": pattern})
              return {"status": "confirmed", "observed": desc,
                      "expected": "pre-activation representable in the reported fused accumulator type"}
  return {"status": "refuted", "observed": desc}


@replayer("c18_chain")
def c18_chain(d):
  """Non-MAC branches: the real generate_layer_data_type_map on a real networkx graph with real QActivation / Flatten /
  Add layers; the values the activation quantizer can emit must be members of the reported output type, the merge
  operator must be built from the producers' types in edge order."""
  import networkx as nx
  import tensorflow as tf
  from qkeras import QActivation
  from qkeras.qtools import generate_layer_data_type_map as G
  w = d["witness"] or {}
  rp = w.get("__replay__") or {}
  kind, qk, qmv = rp.get("kind"), rp.get("qk"), rp.get("qmv")
  clause = d["clause"]
  xq = build_qkeras("qbits", None, w, "x")
  g = nx.DiGraph()
  g.add_node(-1, layer=[None], type=[None], out_quantizer=None)
  g.add_node(-2, layer=[None], type=[None], out_quantizer=None)
  shp = (None, 8)
  if kind == "activation":
    q = build_qkeras(qk, qmv, w, "a")
    layer = QActivation(q, name="act0")
    layer.build((1, 8))
    g.add_node(0, layer=[layer], type=["QActivation"], out_quantizer=None)
    g.add_edge(-1, 0, shape=shp, tensor="t0", quantizer=xq)
    g.add_edge(0, -2, shape=None, tensor="t1", quantizer=None)
    last = 0
  elif kind == "passthrough":
    layer = tf.keras.layers.Flatten(name="flat0")
    g.add_node(0, layer=[layer], type=["Flatten"], out_quantizer=None)
    g.add_edge(-1, 0, shape=shp, tensor="t0", quantizer=xq)
    g.add_edge(0, -2, shape=None, tensor="t1", quantizer=None)
    last = 0
  else:
    qa, qb = build_qkeras("qbits", None, w, "a"), build_qkeras("qrelu", None, w, "b")
    a0, a1 = QActivation(qa, name="act_a"), QActivation(qb, name="act_b")
    layer = tf.keras.layers.Add(name="add0")
    g.add_node(0, layer=[a0], type=["QActivation"], out_quantizer=None)
    g.add_node(1, layer=[a1], type=["QActivation"], out_quantizer=None)
    g.add_node(2, layer=[layer], type=["Add"], out_quantizer=None)
    g.add_edge(-1, 0, shape=shp, tensor="t0", quantizer=xq)
    g.add_edge(-1, 1, shape=shp, tensor="t1", quantizer=xq)
    g.add_edge(0, 2, shape=shp, tensor="t2", quantizer=None)
    g.add_edge(1, 2, shape=shp, tensor="t3", quantizer=None)
    g.add_edge(2, -2, shape=None, tensor="t4", quantizer=None)
    last = 2
  try:
    lmap = G.generate_layer_data_type_map(g, [], False)["layer_data_type_map"]
  except Exception as e:  # pylint: disable=broad-except
    if clause == "no_raise":
      return {"status": "confirmed", "observed": "raised %s: %s" % (type(e).__name__, e)}
    return {"status": "error", "detail": "map construction raised %s: %s" % (type(e).__name__, e)}
  if clause == "no_raise":
    return {"status": "refuted", "observed": "no exception"}
  if layer not in lmap:
    return {"status": "confirmed" if clause == "entry" else "error", "observed": "no map entry for the layer"}
  ent = lmap[layer]
  get = (lambda k: ent[k]) if isinstance(ent, dict) else (lambda k: getattr(ent, k))
  outq = get("output_quantizer")
  if clause == "entry":
    return {"status": "refuted"}
  if clause in ("activation_fits", "output_holds_input", "input_fits"):
    if clause == "activation_fits":
      vals, _ = operand_values(qk, qmv, w, "a", q)
      t = outq
    else:
      vals, _ = operand_values("qbits", None, w, "x", xq)
      t = outq if clause == "output_holds_input" else get("input_quantizer_list")[0]
    for v in vals:
      if not member(t, v):
        return {"status": "confirmed", "observed": {"type": _desc(t), "value": str(v)},
                "expected": "value representable in the reported type"}
    return {"status": "refuted", "observed": {"type": _desc(t), "values_tried": len(vals)}}
  if clause == "out_edge":
    eq = g[last][-2]["quantizer"]
    want = q if kind == "activation" else (get("input_quantizer_list")[0] if kind == "passthrough" else get("multiplier").output)
    return {"status": "refuted" if eq is want else "confirmed", "observed": {"edge": str(eq)}}
  if clause in ("operand_a_fits", "operand_b_fits"):
    which, kq, pfx, qq = (a0, "qbits", "a", qa) if clause == "operand_a_fits" else (a1, "qrelu", "b", qb)
    e2 = lmap[which]
    t = e2["output_quantizer"] if isinstance(e2, dict) else e2.output_quantizer
    vals, _ = operand_values(kq, None, w, pfx, qq)
    for v in vals:
      if not member(t, v):
        return {"status": "confirmed", "observed": {"type": _desc(t), "value": str(v)}}
    return {"status": "refuted"}
  if clause == "merge_built_from_edges":
    m = get("multiplier")
    ea, eb = lmap[a0], lmap[a1]
    oa = ea["output_quantizer"] if isinstance(ea, dict) else ea.output_quantizer
    ob = eb["output_quantizer"] if isinstance(eb, dict) else eb.output_quantizer
    # re-make the merge operator from the producers' reported types and compare the output type
    from qkeras.qtools import quantized_operators
    ref = quantized_operators.MergeFactory().make_quantizer([(oa, None), (ob, None)], "Add")
    same = all(getattr(ref.output, f) == getattr(m.output, f) == getattr(outq, f) for f in ("bits", "int_bits", "is_signed"))
    return {"status": "refuted" if same else "confirmed",
            "observed": {"merge_output": _desc(m.output), "from_producer_types": _desc(ref.output), "layer_output": _desc(outq)}}
  return {"status": "unsupported", "detail": "clause %s" % clause}
