"""Native replayers for the qtools operator-type properties (C16, C17)."""
import copy
import itertools
from fractions import Fraction

import numpy as np

from native.registry import replayer

_cache = {}


def _mods():
  if "m" not in _cache:
    from qkeras import quantizers
    from qkeras.qtools.quantized_operators import quantizer_factory, multiplier_factory
    from qkeras.qtools.quantized_operators import accumulator_factory, adder_factory, quantizer_impl
    from qkeras.qtools.quantized_operators import adder_impl, accumulator_impl, merge_factory
    _cache["m"] = dict(q=quantizers, qf=quantizer_factory, mf=multiplier_factory, af=accumulator_factory,
                       addf=adder_factory, qi=quantizer_impl, ai=adder_impl, acc=accumulator_impl,
                       mg=merge_factory)
  return _cache["m"]


def parse_kind(tok):
  if "-mv" in tok:
    k, mv = tok.split("-mv")
    return k, mv
  return tok, None


def build_qkeras(kind, mvk, w, pfx):
  q = _mods()["q"]
  if kind == "qbits":
    return q.quantized_bits(int(w[pfx + "_bits"]), int(w[pfx + "_int"]), 0,
                            keep_negative=bool(w[pfx + "_signed"]))
  if kind == "qrelu":
    return q.quantized_relu(int(w[pfx + "_bits"]), int(w[pfx + "_int"]))
  if kind in ("po2", "relu_po2"):
    mv = None
    if mvk not in (None, "none"):
      mv = float(Fraction(2) ** int(w[pfx + "_mvexp"]))
    cls = q.quantized_po2 if kind == "po2" else q.quantized_relu_po2
    return cls(int(w[pfx + "_bits"]), mv)
  if kind == "ternary":
    return q.ternary()
  if kind == "binary":
    return q.binary(use_01=False)
  if kind == "binary01":
    return q.binary(use_01=True)
  if kind == "float":
    return None
  raise ValueError(kind)


def make_type(kind, qk):
  m = _mods()
  if kind == "float":
    return m["qi"].FloatingPoint(bits=32)
  return m["qf"].QuantizerFactory().make_quantizer(qk)


def emit(qk, v):
  """Real quantizer applied to one value."""
  import tensorflow as tf
  r = qk(tf.constant([float(v)], dtype=tf.float32))
  return Fraction(float(np.array(r)[0]))


def fixed_values(bits, integer, signed):
  n = bits - signed
  step = Fraction(2) ** (integer - n)
  lo = -(2 ** n) if signed else 0
  return [k * step for k in range(lo, 2 ** n)], lo * step


def operand_values(kind, mvk, w, pfx, qk):
  """All values the operand type can hold (small configurations only)."""
  if kind == "qbits":
    return fixed_values(int(w[pfx + "_bits"]), int(w[pfx + "_int"]), int(w[pfx + "_signed"]))
  if kind == "qrelu":
    return fixed_values(int(w[pfx + "_bits"]), int(w[pfx + "_int"]), 0)
  if kind in ("po2", "relu_po2"):
    vals = set()
    for e in range(-140, 141):
      for s in ((1, -1) if kind == "po2" else (1,)):
        x = s * Fraction(2) ** e
        if abs(e) <= 120:
          vals.add(emit(qk, x))
    return sorted(vals), None
  if kind == "ternary":
    return [Fraction(-1), Fraction(0), Fraction(1)], None
  if kind == "binary":
    return [Fraction(-1), Fraction(1)], None
  if kind == "binary01":
    return [Fraction(0), Fraction(1)], None
  return None, None


def witness_value(kind, w, pfx, vp):
  if kind in ("qbits", "qrelu"):
    bits, integer = int(w[pfx + "_bits"]), int(w[pfx + "_int"])
    signed = int(w.get(pfx + "_signed", 0))
    return int(w[vp + "_k"]) * Fraction(2) ** (integer - (bits - signed))
  if kind in ("po2", "relu_po2"):
    return int(w[vp + "_s"]) * Fraction(2) ** int(w[vp + "_e"])
  if kind in ("ternary", "binary", "binary01"):
    return Fraction(int(w[vp + "_v"]))
  return None


def member(t, v):
  """Is the exact rational v a member of the value set of qtools type t?
  Decided operationally: the qkeras quantizer the type converts to must map v to itself."""
  if t.is_floating_point:
    return True
  if t.mode == 0:
    q = _mods()["q"].quantized_bits(int(t.bits), int(t.int_bits), 0, keep_negative=bool(t.is_signed))
    if abs(v) > 2 ** 100:
      return False
    return emit(q, v) == v and Fraction(float(v)) == v
  if t.mode == 1:
    if v == 0:
      return False
    if not t.is_signed and v < 0:
      return False
    q = t.convert_to_qkeras_quantizer()
    return emit(q, v) == v
  if t.mode == 2:
    return v in (-1, 0, 1)
  if t.mode == 3:
    return v in (-1, 1)
  if t.mode == 4:
    return v in (0, 1)
  return True


EXPECTED = {"fx": 0, "po2": 1, "ter": 2, "bin": 3, "b01": 4, "fp": 5}


def expected_kind(wm, xm):
  fam = {0: "fx", 1: "po2", 2: "ter", 3: "bin", 4: "b01", 5: "fp"}
  a, b = fam[wm], fam[xm]
  if "fp" in (a, b):
    return "mul"
  if "b01" in (a, b):
    return "and"
  if a == "bin" and b == "bin":
    return "xor"
  if a in ("ter", "bin") or b in ("ter", "bin"):
    return "mux"
  if a == "fx" and b == "fx":
    return "mul"
  if a == "po2" and b == "po2":
    return "add"
  return "shifter"


def _attrs(o):
  return {k: copy.deepcopy(v) for k, v in vars(o).items()}


@replayer("c16_mult")
def c16_mult(d):
  m = _mods()
  w = d["witness"] or {}
  wtok, xtok = d["case"].split("_x_")
  (wk, wmv), (xk, xmv) = parse_kind(wtok), parse_kind(xtok)
  qw, qx = build_qkeras(wk, wmv, w, "w"), build_qkeras(xk, xmv, w, "x")
  tw, tx = make_type(wk, qw), make_type(xk, qx)
  before = (_attrs(tw), _attrs(tx))
  clause = d["clause"]
  try:
    mult = m["mf"].MultiplierFactory().make_multiplier(tw, tx)
  except Exception as e:  # pylint: disable=broad-except
    if clause == "no_raise":
      return {"status": "confirmed", "observed": "raised %s: %s" % (type(e).__name__, e)}
    return {"status": "error", "detail": "factory raised %s" % e}
  if clause == "no_raise":
    return {"status": "refuted", "observed": "no exception"}
  if clause == "frame":
    same = before == (_attrs(tw), _attrs(tx))
    return {"status": "refuted" if same else "confirmed", "observed": "operands %s" % ("unchanged" if same else "modified")}
  if clause == "impl_kind":
    got, exp = mult.implemented_as(), expected_kind(tw.mode, tx.mode)
    return {"status": "confirmed" if got != exp else "refuted", "observed": got, "expected": exp}
  out = mult.output
  desc = {"out": {k: getattr(out, k, None) for k in ("mode", "bits", "int_bits", "is_signed", "max_val_po2", "name")}}
  if wk == "float" or xk == "float":
    ok = bool(out.is_floating_point)
    return {"status": "refuted" if ok else "confirmed", "observed": desc}
  both_fixed = wk in ("qbits", "qrelu") and xk in ("qbits", "qrelu")
  va, vb = witness_value(wk, w, "w", "a"), witness_value(xk, w, "x", "b")
  wvals, wmin = operand_values(wk, wmv, w, "w", qw)
  xvals, xmin = operand_values(xk, xmv, w, "x", qx)

  def excluded(a, b):
    return both_fixed and wmin is not None and xmin is not None and wmin < 0 and xmin < 0 and a == wmin and b == xmin
  if va is not None and vb is not None and va in wvals and vb in xvals and not excluded(va, vb):
    if not member(out, va * vb):
      desc.update({"a": str(va), "b": str(vb), "product": str(va * vb), "pair": "witness"})
      return {"status": "confirmed", "observed": desc,
              "expected": "product representable in the reported output type"}
  if d.get("role") == "known-finding":
    desc.update({"a": str(va), "b": str(vb), "a_is_operand_value": va in wvals, "b_is_operand_value": vb in xvals})
    return {"status": "refuted", "observed": desc}
  n = 0
  for a, b in itertools.product(wvals, xvals):
    if excluded(a, b):
      continue
    n += 1
    if n > 20000:
      break
    if not member(out, a * b):
      desc.update({"a": str(a), "b": str(b), "product": str(a * b), "pair": "found by enumeration"})
      return {"status": "confirmed", "observed": desc}
  desc["pairs_enumerated"] = n
  return {"status": "refuted", "observed": desc}
