"""Native replayers for the qtools operator-type properties (C16, C17)."""
import copy
import itertools
from fractions import Fraction

import numpy as np

from native.registry import replayer

_cache = {}


def _mods():
  if "m" not in _cache:
    from qkeras import quantizers
    from qkeras.qtools.quantized_operators import quantizer_factory, multiplier_factory
    from qkeras.qtools.quantized_operators import accumulator_factory, adder_factory, quantizer_impl
    from qkeras.qtools.quantized_operators import adder_impl, accumulator_impl, merge_factory
    _cache["m"] = dict(q=quantizers, qf=quantizer_factory, mf=multiplier_factory, af=accumulator_factory,
                       addf=adder_factory, qi=quantizer_impl, ai=adder_impl, acc=accumulator_impl,
                       mg=merge_factory)
  return _cache["m"]


def parse_kind(tok):
  if "-mv" in tok:
    k, mv = tok.split("-mv")
    return k, mv
  return tok, None


def build_qkeras(kind, mvk, w, pfx, alpha=None):
  q = _mods()["q"]
  if kind == "qbits":
    return q.quantized_bits(int(w[pfx + "_bits"]), int(w[pfx + "_int"]), 0,
                            keep_negative=bool(w[pfx + "_signed"]), alpha=alpha)
  if kind == "qrelu":
    return q.quantized_relu(int(w[pfx + "_bits"]), int(w[pfx + "_int"]))
  if kind in ("po2", "relu_po2"):
    mv = None
    if mvk not in (None, "none") and str(mvk).startswith("v"):
      mv = float(str(mvk)[1:].replace("p", "."))          # concrete non-power-of-two max_value
    elif mvk not in (None, "none"):
      mv = float(Fraction(2) ** int(w[pfx + "_mvexp"]))
    cls = q.quantized_po2 if kind == "po2" else q.quantized_relu_po2
    return cls(int(w[pfx + "_bits"]), mv)
  if kind == "ternary":
    return q.ternary(alpha=alpha)
  if kind == "binary":
    return q.binary(use_01=False, alpha=alpha)
  if kind == "binary01":
    return q.binary(use_01=True, alpha=alpha)
  if kind == "float":
    return None
  raise ValueError(kind)


def make_type(kind, qk):
  m = _mods()
  if kind == "float":
    return m["qi"].FloatingPoint(bits=32)
  return m["qf"].QuantizerFactory().make_quantizer(qk)


def emit(qk, v):
  """Real quantizer applied to one value."""
  import tensorflow as tf
  r = qk(tf.constant([float(v)], dtype=tf.float32))
  return Fraction(float(np.array(r)[0]))


def fixed_values(bits, integer, signed):
  n = bits - signed
  step = Fraction(2) ** (integer - n)
  lo = -(2 ** n) if signed else 0
  return [k * step for k in range(lo, 2 ** n)], lo * step


def operand_values(kind, mvk, w, pfx, qk):
  """All values the operand type can hold (small configurations only)."""
  if kind == "qbits":
    return fixed_values(int(w[pfx + "_bits"]), int(w[pfx + "_int"]), int(w[pfx + "_signed"]))
  if kind == "qrelu":
    return fixed_values(int(w[pfx + "_bits"]), int(w[pfx + "_int"]), 0)
  if kind in ("po2", "relu_po2"):
    vals = set()
    for e in range(-140, 141):
      for s in ((1, -1) if kind == "po2" else (1,)):
        x = s * Fraction(2) ** e
        if abs(e) <= 120:
          vals.add(emit(qk, x))
    return sorted(vals), None
  if kind == "ternary":
    return [Fraction(-1), Fraction(0), Fraction(1)], None
  if kind == "binary":
    return [Fraction(-1), Fraction(1)], None
  if kind == "binary01":
    return [Fraction(0), Fraction(1)], None
  return None, None


def witness_value(kind, w, pfx, vp):
  if kind in ("qbits", "qrelu"):
    bits, integer = int(w[pfx + "_bits"]), int(w[pfx + "_int"])
    signed = int(w.get(pfx + "_signed", 0))
    return int(w[vp + "_k"]) * Fraction(2) ** (integer - (bits - signed))
  if kind in ("po2", "relu_po2"):
    return int(w[vp + "_s"]) * Fraction(2) ** int(w[vp + "_e"])
  if kind in ("ternary", "binary", "binary01"):
    return Fraction(int(w[vp + "_v"]))
  return None


def member(t, v):
  """Is the exact rational v a member of the value set of qtools type t?
  Decided operationally: the qkeras quantizer the type converts to must map v to itself."""
  if t.is_floating_point:
    return True
  if t.mode == 0:
    # exact rational arithmetic: v = k * 2^(int_bits - n), -signed*2^n <= k <= 2^n - 1
    n = int(t.bits) - int(t.is_signed)
    k = v / (Fraction(2) ** (int(t.int_bits) - n))
    ok = k.denominator == 1 and (-(2 ** n) if t.is_signed else 0) <= k <= 2 ** n - 1
    if n <= 16 and abs(v) < 2 ** 20 and n >= 1 and int(t.int_bits) >= 0:
      # cross-check with the real quantizer where float32 is exact
      q = _mods()["q"].quantized_bits(int(t.bits), int(t.int_bits), 0, keep_negative=bool(t.is_signed))
      if (emit(q, v) == v) != ok:
        raise AssertionError("native membership oracle disagrees with quantized_bits for %s in %s" % (v, vars(t)))
    return ok
  if t.mode == 1:
    if v == 0:
      return False
    if not t.is_signed and v < 0:
      return False
    q = t.convert_to_qkeras_quantizer()
    return emit(q, v) == v
  if t.mode == 2:
    return v in (-1, 0, 1)
  if t.mode == 3:
    return v in (-1, 1)
  if t.mode == 4:
    return v in (0, 1)
  return True


EXPECTED = {"fx": 0, "po2": 1, "ter": 2, "bin": 3, "b01": 4, "fp": 5}


def expected_kind(wm, xm):
  fam = {0: "fx", 1: "po2", 2: "ter", 3: "bin", 4: "b01", 5: "fp"}
  a, b = fam[wm], fam[xm]
  if "fp" in (a, b):
    return "mul"
  if "b01" in (a, b):
    return "and"
  if a == "bin" and b == "bin":
    return "xor"
  if a in ("ter", "bin") or b in ("ter", "bin"):
    return "mux"
  if a == "fx" and b == "fx":
    return "mul"
  if a == "po2" and b == "po2":
    return "add"
  return "shifter"


def _attrs(o):
  return {k: copy.deepcopy(v) for k, v in vars(o).items()}


@replayer("c16_mult")
def c16_mult(d):
  m = _mods()
  w = d["witness"] or {}
  wtok, xtok = d["case"].split("_x_")
  (wk, wmv), (xk, xmv) = parse_kind(wtok), parse_kind(xtok)
  qw, qx = build_qkeras(wk, wmv, w, "w"), build_qkeras(xk, xmv, w, "x")
  tw, tx = make_type(wk, qw), make_type(xk, qx)
  before = (_attrs(tw), _attrs(tx))
  clause = d["clause"]
  try:
    mult = m["mf"].MultiplierFactory().make_multiplier(tw, tx)
  except Exception as e:  # pylint: disable=broad-except
    if clause == "no_raise":
      return {"status": "confirmed", "observed": "raised %s: %s" % (type(e).__name__, e)}
    return {"status": "error", "detail": "factory raised %s" % e}
  if clause == "no_raise":
    return {"status": "refuted", "observed": "no exception"}
  if clause == "frame":
    same = before == (_attrs(tw), _attrs(tx))
    return {"status": "refuted" if same else "confirmed", "observed": "operands %s" % ("unchanged" if same else "modified")}
  if clause == "impl_kind":
    got, exp = mult.implemented_as(), expected_kind(tw.mode, tx.mode)
    return {"status": "confirmed" if got != exp else "refuted", "observed": got, "expected": exp}
  out = mult.output
  desc = {"out": {k: getattr(out, k, None) for k in ("mode", "bits", "int_bits", "is_signed", "max_val_po2", "name")}}
  if wk == "float" or xk == "float":
    ok = bool(out.is_floating_point)
    return {"status": "refuted" if ok else "confirmed", "observed": desc}
  both_fixed = wk in ("qbits", "qrelu") and xk in ("qbits", "qrelu")
  va, vb = witness_value(wk, w, "w", "a"), witness_value(xk, w, "x", "b")
  wvals, wmin = operand_values(wk, wmv, w, "w", qw)
  xvals, xmin = operand_values(xk, xmv, w, "x", qx)

  def excluded(a, b):
    return both_fixed and wmin is not None and xmin is not None and wmin < 0 and xmin < 0 and a == wmin and b == xmin
  if va is not None and vb is not None and va in wvals and vb in xvals and not excluded(va, vb):
    if not member(out, va * vb):
      desc.update({"a": str(va), "b": str(vb), "product": str(va * vb), "pair": "witness"})
      return {"status": "confirmed", "observed": desc,
              "expected": "product representable in the reported output type"}
  if d.get("role") == "known-finding":
    desc.update({"a": str(va), "b": str(vb), "a_is_operand_value": va in wvals, "b_is_operand_value": vb in xvals})
    return {"status": "refuted", "observed": desc}
  n = 0
  for a, b in itertools.product(wvals, xvals):
    if excluded(a, b):
      continue
    n += 1
    if n > 20000:
      break
    if not member(out, a * b):
      desc.update({"a": str(a), "b": str(b), "product": str(a * b), "pair": "found by enumeration"})
      return {"status": "confirmed", "observed": desc}
  desc["pairs_enumerated"] = n
  return {"status": "refuted", "observed": desc}


# ------------------------------------------------------------------ C17
def _operand(tok, w, pfx):
  k, mv = parse_kind(tok)
  qk = build_qkeras(k, mv, w, pfx)
  t = make_type(k, qk)
  vals, _ = operand_values(k, mv, w, pfx, qk)
  return k, t, vals


def res_exp(vals):
  """largest e such that every value is a multiple of 2^e (vals: Fractions, not all zero)."""
  e = None
  for v in vals:
    if v == 0:
      continue
    x = abs(v)
    k = 0
    while x.denominator != 1:
      x *= 2
      k -= 1
    x = x.numerator
    while x % 2 == 0:
      x //= 2
      k += 1
    e = k if e is None else min(e, k)
  return e


def out_step_exp(out):
  return int(out.int_bits) - (int(out.bits) - int(out.is_signed))


def frac_keep_native(out, value_sets, desc):
  finest = min(res_exp(v) for v in value_sets)
  step = out_step_exp(out)
  desc.update({"finest_operand_step_exp": finest, "output_step_exp": step})
  return {"status": "confirmed" if step > finest else "refuted", "observed": desc,
          "expected": "output resolution at least as fine as the finest operand"}


def _first_bad(out, sums):
  for desc, v in sums:
    if not member(out, v):
      return desc, v
  return None


@replayer("c17_acc")
def c17_acc(d):
  m = _mods()
  w = d["witness"] or {}
  tok, rank, bias = d["case"].rsplit("_", 2)
  k, t, vals = _operand(tok, w, "m")
  rank = int(rank[4:])
  dims = tuple(int(w.get("d%d" % i, 1)) for i in range(rank))
  use_bias = bias == "bias"

  class _M(object):
    pass
  mult = _M()
  mult.output = t
  before = _attrs(t)
  try:
    acc = m["af"].AccumulatorFactory().make_accumulator(dims, mult, use_bias)
  except Exception as e:  # pylint: disable=broad-except
    return {"status": "confirmed" if d["clause"] == "no_raise" else "error", "observed": "raised %s: %s" % (type(e).__name__, e)}
  if d["clause"] == "no_raise":
    return {"status": "refuted"}
  if d["clause"] == "frame":
    return {"status": "refuted" if before == _attrs(t) else "confirmed"}
  out = acc.output
  desc = {"out": {k_: getattr(out, k_, None) for k_ in ("mode", "bits", "int_bits", "is_signed")}, "dims": dims}
  if k == "float":
    return {"status": "refuted" if out.is_floating_point else "confirmed", "observed": desc}
  if d["clause"] == "frac_keep":
    return frac_keep_native(out, [vals], desc)
  n = int(np.prod(dims[:-1])) + (1 if use_bias else 0)
  vmax, vmin = max(vals), min(vals)
  sums = [("N*max", n * vmax), ("N*min", n * vmin)]
  sums += [("(N-1)*max+v", (n - 1) * vmax + v) for v in vals[:64]] + [("(N-1)*min+v", (n - 1) * vmin + v) for v in vals[:64]]
  bad = _first_bad(out, sums)
  if bad:
    desc.update({"N": n, "sum": str(bad[1]), "how": bad[0]})
    return {"status": "confirmed", "observed": desc, "expected": "sum of N multiplier-output values representable in the accumulator type"}
  return {"status": "refuted", "observed": desc}


@replayer("c17_add")
def c17_add(d):
  m = _mods()
  w = d["witness"] or {}
  t1, t2 = d["case"].split("_plus_")
  k1, q1, v1 = _operand(t1, w, "p")
  k2, q2, v2 = _operand(t2, w, "q")
  before = (_attrs(q1), _attrs(q2))
  try:
    add = m["addf"].IAdder().make_quantizer(q1, q2)
  except Exception as e:  # pylint: disable=broad-except
    return {"status": "confirmed" if d["clause"] == "no_raise" else "error", "observed": "raised %s: %s" % (type(e).__name__, e)}
  if d["clause"] == "no_raise":
    return {"status": "refuted"}
  if d["clause"] == "frame":
    return {"status": "refuted" if before == (_attrs(q1), _attrs(q2)) else "confirmed"}
  out = add.output
  desc = {"out": {k_: getattr(out, k_, None) for k_ in ("mode", "bits", "int_bits", "is_signed")}}
  if "float" in (k1, k2):
    return {"status": "refuted" if out.is_floating_point else "confirmed", "observed": desc}
  if d["clause"] == "frac_keep":
    return frac_keep_native(out, [v1, v2], desc)
  n = 0
  for a in v1:
    for b in v2:
      n += 1
      if n > 6000:
        break
      if not member(out, a + b):
        desc.update({"a": str(a), "b": str(b), "sum": str(a + b)})
        return {"status": "confirmed", "observed": desc, "expected": "a + b representable in the adder output type"}
  desc["pairs"] = n
  return {"status": "refuted", "observed": desc}


@replayer("c17_widen")
def c17_widen(d):
  m = _mods()
  w = d["witness"] or {}
  tok = d["case"][len("widen_qbits_plus_"):]
  _, q1, _ = _operand("qbits", w, "p")
  _, q1w, _ = _operand("qbits", w, "pw")
  _, q2, _ = _operand(tok, w, "q")
  o1 = m["addf"].IAdder().make_quantizer(q1, q2).output
  o2 = m["addf"].IAdder().make_quantizer(q1w, q2).output

  def comp(o):
    f = o.bits - int(o.is_signed) - o.int_bits
    return (o.int_bits, f, int(o.is_signed))
  if o1.is_floating_point or o2.is_floating_point:
    ok = o2.is_floating_point or not o1.is_floating_point
  else:
    ok = all(x2 >= x1 for x1, x2 in zip(comp(o1), comp(o2)))
  return {"status": "refuted" if ok else "confirmed", "observed": {"narrow": comp(o1) if not o1.is_floating_point else "float",
                                                                 "wide": comp(o2) if not o2.is_floating_point else "float"}}


@replayer("c17_merge")
def c17_merge(d):
  m = _mods()
  w = d["witness"] or {}
  cls = d["obligation"].split("::")[1].split(".")[0]
  toks = []
  rest = d["case"]
  names = ["qbits", "qrelu", "po2-mvnone", "ternary", "binary01", "binary", "float"]
  while rest:
    for nme in names:
      if rest.startswith(nme):
        toks.append(nme)
        rest = rest[len(nme):].lstrip("_")
        break
    else:
      return {"status": "error", "detail": "cannot parse case " + d["case"]}
  ops = [_operand(t, w, "i%d" % i) for i, t in enumerate(toks)]
  try:
    mg = getattr(m["mg"], cls)([(t, None) for _, t, _ in ops])
  except Exception as e:  # pylint: disable=broad-except
    return {"status": "confirmed" if d["clause"] == "no_raise" else "error", "observed": "raised %s: %s" % (type(e).__name__, e)}
  if d["clause"] == "no_raise":
    return {"status": "refuted"}
  out = mg.output
  desc = {"out": {k_: getattr(out, k_, None) for k_ in ("mode", "bits", "int_bits", "is_signed")}}
  if any(k == "float" for k, _, _ in ops):
    return {"status": "refuted" if out.is_floating_point else "confirmed", "observed": desc}
  if d["clause"] == "frac_keep":
    if out.mode != 0:
      return {"status": "refuted", "observed": desc}
    return frac_keep_native(out, [v for _, _, v in ops], desc)
  vs = [v[:40] + v[-40:] if len(v) > 80 else v for _, _, v in ops]
  n = 0
  for combo in itertools.product(*vs):
    n += 1
    if n > 20000:
      break
    cands = [sum(combo)] if cls == "Add" else list(combo)
    for v in cands:
      if not member(out, v):
        desc.update({"inputs": [str(x) for x in combo], "value": str(v)})
        return {"status": "confirmed", "observed": desc}
  desc["combos"] = n
  return {"status": "refuted", "observed": desc}
