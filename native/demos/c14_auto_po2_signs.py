"""Native demonstration for the C14 defect found by model_save_quantized_weights/auto_po2_biaspo2b:
an auto_po2 kernel followed by a quantized_po2 bias -> the exported 'signs' list must be index-aligned with 'weights'.
Run: PYTHONPATH=<repo> /venv/bin/python c14_auto_po2_signs.py   (exit 1 = misaligned)"""
import sys
import numpy as np
from qkeras import QDense, quantized_bits, quantized_po2
import qkeras.utils as qutils

qutils.find_bn_fusing_layer_pair = lambda model, custom_objects={}: ({}, set())


class TinyModel(object):
  def __init__(self, layers):
    self.layers = layers


dense = QDense(4, kernel_quantizer=quantized_bits(4, 0, 1, alpha="auto_po2"), bias_quantizer=quantized_po2(4), name="d")
dense.build((None, 6))
rng = np.random.RandomState(7)
dense.set_weights([rng.uniform(-1.0, 1.0, w.shape).astype("float32") for w in dense.get_weights()])
dense(np.zeros((1, 6), "float32"))
hw = qutils.model_save_quantized_weights(TinyModel([dense]))
ent = hw["d"]
signs, weights = ent.get("signs"), ent["weights"]
print("len(weights) =", len(weights), " len(signs) =", None if signs is None else len(signs))
stored = dense.get_weights()
ok = signs is not None and len(signs) == len(weights) and np.asarray(signs[1]).shape == stored[1].shape and \
    np.array_equal((np.asarray(signs[1]) * np.power(2.0, np.asarray(weights[1]))).astype("float32"), stored[1])
print("bias rebuilt from signs[1] * 2**weights[1]:", ok)
sys.exit(0 if ok else 1)
