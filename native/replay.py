"""Native replay of counter-models on the REAL qkeras code (runs under /venv/bin/python).

usage: replay.py file.json [file.json ...]
Each file gets a "native" entry: {"status": confirmed|refuted|unsupported|error, ...}.
The violated clause is re-evaluated here with exact rational arithmetic and the
real library objects, never through the symbolic semantics.
"""
import json
import os
import sys
import traceback

sys.path.insert(0, os.path.dirname(os.path.dirname(os.path.abspath(__file__))))
REPO = os.environ.get("QKERAS_VERIF_REPO", "/repo")
sys.path.insert(0, REPO)

from native.registry import REPLAYERS, replayer  # noqa: E402,F401


def main(files):
  # import replayer modules lazily so that a broken one does not take the others down
  from native import shims  # noqa: F401
  for modname in ("rp_qtools", "rp_quantizers", "rp_misc", "rp_c18", "rp_c04"):
    try:
      __import__("native." + modname)
    except Exception:  # pylint: disable=broad-except
      sys.stderr.write("replayer module %s failed to import:\n%s\n" % (modname, traceback.format_exc()))
  for f in files:
    try:
      d = json.load(open(f))
    except Exception as e:  # pylint: disable=broad-except
      sys.stderr.write("cannot read %s: %s\n" % (f, e))
      continue
    kind = d.get("kind")
    fn = REPLAYERS.get(kind)
    if fn is None:
      d["native"] = {"status": "unsupported", "detail": "no native replayer for kind %r" % kind}
    else:
      try:
        d["native"] = fn(d)
      except Exception as e:  # pylint: disable=broad-except
        d["native"] = {"status": "error", "detail": "%s: %s" % (type(e).__name__, e),
                       "trace": traceback.format_exc()[-1500:]}
    json.dump(d, open(f, "w"), indent=1, default=str)


if __name__ == "__main__":
  main(sys.argv[1:])
