import sys, time, json, os
sys.path.insert(0, '/verif')
import importlib
from pyvc import contract as C, runner
mod = importlib.import_module('contracts.' + sys.argv[1])
pat = sys.argv[2] if len(sys.argv) > 2 else ''
tier = sys.argv[3] if len(sys.argv) > 3 else 'quick'
known, _, _ = runner.load_known(sys.argv[1].upper())
for case in mod.cases(tier):
    if pat and pat not in case.id: continue
    t=time.time()
    r = C.run_case(case, tier, known.get(case.id, {}))
    print('==', case.id, 'paths', r['paths'], 'cover', r['cover'], '%.2fs'%(time.time()-t))
    if r['error']: print('ERROR', r['error'][:200], '...', r['error'][-300:])
    if r['notes']: print('NOTES', sorted(set(r['notes']))[:5])
    if r['undecided_reason']: print('UNDECIDED', r['undecided_reason'])
    for k,v in r['clauses'].items():
        print('   ', k, v['kind'], v['status'], 'vcs', v['vcs'], '%.2fs'%v['seconds'], v['witness'] or '', v['reason'][:300], [x['id'] for x in v['known']])
