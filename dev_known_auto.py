"""Dev tool (never run by checks): (re)generate known_findings.json entries for a property.

For every obligation that fails on the CURRENT tree and whose counter-model is CONFIRMED by
native replay, add an entry to the finding chosen by RULES[prop](obligation, witness) ->
(finding id, exclude expr).  Findings' descriptions live in FINDINGS below.  Review the
result by hand before committing.
"""
import importlib, json, os, re, sys
sys.path.insert(0, '/verif')
from pyvc import runner, contract as C
import multiprocessing

FINDINGS = {
 "C17-po2-to-qbits-intbits": "accumulator_impl.po2_to_qbits reports int_bits = max_exp, but the value 2^max_exp needs max_exp + 1 integer bits: sums that reach 2^(log_add_ops + max_exp) (e.g. a single po2 value at its maximum) overflow Po2Accumulator / Po2Adder / Po2FixedPointAdder outputs",
 "C17-po2-maxle1-exp": "get_exp ignores exponent-sign-bit reuse for max_value <= 1 (see C16-po2-maxle1-exp): po2 values below 2^-(2^(bits-sign-1)) lose their fractional bits in accumulator / adder types",
 "C17-ternary-binary-frac": "Ternary and Binary(+-1) types report int_bits = bits, i.e. -1 fractional bits once the sign bit is counted; accumulator, adder and merge types derived from them cannot hold odd values such as 1",
 "C17-adder-mode4-po2": "adder_impl_table[1][4] / [4][1] (po2 with a 0/1 operand) selects FixedPointAdder on the unconverted power-of-two record, whose bits/int_bits are exponent widths, not a fixed-point format",
 "C17-merge-mixed-fields": "merge_factory Add/Maximum/Concatenate take max(bits) and max(int_bits) from different operands, so fractional bits of the finer operand are lost (and po2 operands inherit po2_to_qbits' off-by-one)",
 "C17-merge-add-3": "merge_factory.Add grows the result by one bit regardless of the number of inputs: three or more inputs can overflow",
}


def rule_c17(ob, clause, wit):
  case = ob.split("/")[-2]
  if "accumulator_factory" in ob:
    if clause == "fits_sum_N" and "po2" in case:
      return "C17-po2-to-qbits-intbits", "sum >= pow2(L + m_emax)"
    if clause == "frac_keep" and "mvle1" in case:
      return "C17-po2-maxle1-exp", "true"
    if "ternary" in case or "binary_" in case:
      return "C17-ternary-binary-frac", "true"
  if "adder_factory" in ob:
    a, b = case.split("_plus_")
    mode4 = lambda k: k == "binary01" or k == "qrelu"
    if ("po2" in a and mode4(b)) or ("po2" in b and mode4(a)):
      if "qrelu" in (a, b):
        pfx = "q" if b == "qrelu" else "p"
        r = [("C17-adder-mode4-po2", "And(%s_bits == 1, %s_int == 1)" % (pfx, pfx))]
        if clause == "frac_keep" and "mvle1" in case:
          r.append(("C17-po2-maxle1-exp", "true"))
        return r
      return "C17-adder-mode4-po2", "true"
    if clause == "frac_keep" and "mvle1" in case and not ("ternary" in case or "binary" in case):
      return "C17-po2-maxle1-exp", "true"
    if clause == "frac_keep" and ("ternary" in case or re.search(r"binary(?!01)", case)):
      return "C17-ternary-binary-frac", "true"
    if clause == "fits_sum" and "po2" in case:
      parts = []
      if "po2" in a:
        parts.append("va >= pow2(p_emax)")
      if "po2" in b:
        parts.append("vb >= pow2(q_emax)")
      return "C17-po2-to-qbits-intbits", "Or(%s)" % ", ".join(parts) if len(parts) > 1 else parts[0]
  if "merge_factory" in ob:
    if clause == "fits" and case.count("_") >= 2 and "Add" in ob:
      return "C17-merge-add-3", "true"
    return "C17-merge-mixed-fields", "true"
  return None


FINDINGS["C10-str-omits-options"] = "__str__ prints only the main options: a quantizer with a non-default qnoise_factor, scale_axis, elements_per_scale, min/max_po2_exponent, post_training_scale, relu_upper_bound, is_quantized_clip or log2_rounding prints the same text as the default one, so the text re-parses to a quantizer that computes a different function"


def rule_c10(ob, clause, wit):
  if clause.startswith("omitted_"):
    return "C10-str-omits-options", "true"
  return None


FINDINGS.update({
 "C19-grouped-conv-count": "get_operation_count multiplies by the input channel count of the layer input instead of the kernel's per-group channel count: grouped (Q)Conv2D is over-counted by the factor groups (e.g. 6x6x4 -> 8 filters, 3x3, groups=2: 4608 reported, 2304 performed)",
 "C19-transposed-conv-count": "(Q)Conv2DTranspose is counted on the OUTPUT grid (H_o*W_o*C_o*K*K*C_i) although each INPUT position is multiplied with the kernel (H_i*W_i*C_i*K*K*C_o); the two differ whenever stride > 1 or padding changes the size",
 "C19-depthwise-multiplier-count": "(Q)DepthwiseConv2D count ignores depth_multiplier (uses C_i instead of C_i*depth_multiplier)",
 "C19-avgpool-count": "AveragePooling2D counts C*pool_h*pool_w, omitting the number of output positions H_o*W_o",
})


def rule_c19(ob, clause, wit):
  case = ob.split("/")[-2]
  if clause != "count":
    return None
  if "Transpose" in case:
    return "C19-transposed-conv-count", "Hi * Wi != Ho * Wo"
  if "Depthwise" in case:
    return "C19-depthwise-multiplier-count", "depth_multiplier != 1"
  if "Conv2D" in case:
    return "C19-grouped-conv-count", "groups != 1"
  if "Pool" in case:
    return "C19-avgpool-count", "Ho * Wo != 1"
  return None


FINDINGS.update({
 "C18-top-code-overflow": "without a bias adder the accumulator type has no head-room for the single most positive sum: N = 2^k products of two most-negative codes (or -1 times the most negative activation, or the largest power-of-two weight times it) add up to exactly +2^(int_bits), one step above the largest representable value (QDense/QConv*/QDepthwiseConv2D with use_bias=False, signed weights and a signed input type)",
 "C18-relu11-ternary-step": "an input of type quantized_relu(1,1) is treated as a 0/1 gate; the AND-gate multiplier reports the ternary/binary record (int_bits = bits), so the accumulator type has step 2 and cannot hold odd sums (see C17-ternary-binary-frac)",
 "C18-po2-maxle1-step": "power-of-two weights with max_value <= 1: get_exp ignores the re-used exponent sign bit, so the accumulator type is too coarse for the smallest weights (see C16/C17-po2-maxle1-exp)",
 "C18-analyze-all-zero": "estimate.analyze_accumulator takes log2 of the largest bound without guarding zero: a layer whose weights and bias are all zero (or whose input range is (0, 0)) makes it raise OverflowError (int(-inf)) instead of reporting a size",
 "C18-analyze-bias-scaled": "estimate.analyze_accumulator adds the bias to the positive / negative weight sums BEFORE multiplying by the input range, so the bias is scaled by x_max / x_min: for ranges inside (-1, 1) or one-sided ranges the reported size under-estimates outputs dominated by the bias (e.g. range (0, 0.5), weights 0, bias 3: reported 1, |output| = 3 > 2)",
 "C18-analyze-depthwise-bias": "estimate.analyze_accumulator indexes the bias of a depthwise convolution with the depth-multiplier index (b[i], i < depth_multiplier) although the layer has input_channels * depth_multiplier output channels: the bias of every output channel beyond the first depth_multiplier ones is ignored",
 "C18-po2-top": "power-of-two weights: po2_to_qbits / the shifter report int_bits = max exponent, one short for the value 2^max_exp itself (see C17-po2-to-qbits-intbits); sums reaching 2^(log2(N) + max_exp [+ input int_bits]) overflow when there is no bias adder",
})


def rule_c18_analyze(ob, clause, wit):
  case = ob.split("/")[-2]
  rp = wit["__replay__"]
  shape, ub = rp["shape"], rp["use_bias"]
  names = []
  def rec(prefix, shp):
    if not shp:
      names.append(prefix)
      return
    for i in range(shp[0]):
      rec("%s_%d" % (prefix, i), shp[1:])
  rec("k", shape)
  dw = rp["layer"] == "QDepthwiseConv2D"
  if ub:
    rec("b", [shape[-2] * shape[-1]] if dw else shape[-1:])
  mult = shape[-1]
  seen = [n for n in names if not (dw and n.startswith("b_") and int(n[2:]) >= mult)]
  ignored = [n for n in names if n not in seen]
  if clause == "no_raise":
    return "C18-analyze-all-zero", "And(%s)" % ", ".join("%s == 0" % n for n in seen)
  if clause == "bound_all_channels" and ub:
    r = []
    if ignored:
      r.append(("C18-analyze-depthwise-bias", "Or(%s)" % ", ".join("%s != 0" % n for n in ignored)))
    if rp["range"][1] < 1:
      r.append(("C18-analyze-bias-scaled", "Or(%s)" % ", ".join("%s != 0" % n for n in names if n.startswith("b_"))))
    return r or None
  return None


def rule_c18(ob, clause, wit):
  if "analyze_accumulator" in ob:
    return rule_c18_analyze(ob, clause, wit)
  case = ob.split("/")[-2]
  lt, rest = case.split("_", 1)
  wtok, rest = rest.split("_x_")
  xk, btok = rest.split("_bias-")
  r = []
  if clause == "preact_fits":
    if wtok.startswith("po2-mvv"):
      r.append(("C18-po2-top", "sum >= pow2(LGN + w_emax + x_int)"))
    elif wtok.startswith("po2"):
      r.append(("C18-po2-top", "Or(sum >= pow2(LGN + w_emax + x_int), And(x_bits == 1, x_int == 1, sum >= pow2(LGN + w_emax)))"))
    elif wtok == "qbits":
      r.append(("C18-top-code-overflow", "sum >= pow2(LGN + w_int + x_int)"))
    else:
      r.append(("C18-top-code-overflow", "sum >= pow2(LGN + x_int)"))
  if clause == "preact_res":
    if "mvle1" in wtok:
      r.append(("C18-po2-maxle1-step", "true"))
    elif xk == "qrelu":
      r.append(("C18-relu11-ternary-step", "And(x_bits == 1, x_int == 1)"))
  return r or None


FINDINGS["C05-auto-zero-group-scale"] = "quantized_bits(alpha='auto'): the scale is max|x| * 2 / levels over the scaling group with no floor, so a group (output channel) whose elements are all zero gets scale 0 - not a positive scale (the value is recorded in quantizer.scale and later divided by in the hardware export); auto_po2 is not affected (epsilon inside the log)"


def rule_c05(ob, clause, wit):
  if clause == "scale_pos":
    return "C05-auto-zero-group-scale", "scale <= 0"
  return None


RULES = {"C05": rule_c05, "C18": rule_c18, "C17": rule_c17, "C10": rule_c10, "C19": rule_c19}


def main(prop, tier="quick"):
  mod = importlib.import_module("contracts." + prop.lower())
  cases = mod.cases(tier)
  runner._CASES = cases
  known, _, _ = runner.load_known("__none__")
  runner._KNOWN = {}
  runner._TIER = tier
  ctx = multiprocessing.get_context("fork")
  with ctx.Pool(16) as pool:
    results = pool.map(runner._work, range(len(cases)), chunksize=1)
  files, meta = [], []
  os.makedirs('/verif/replay', exist_ok=True)
  for r in results:
    if r["error"] or r["undecided_reason"]:
      print("PROBLEM", r["case"], r["error"] or r["undecided_reason"])
      continue
    for cname, c in r["clauses"].items():
      if c["status"] == "failed":
        ob = r["case"] + "/" + cname
        path = "/verif/replay/auto_" + runner.slug(ob) + ".json"
        json.dump({"property": prop, "obligation": ob, "case": r["name"], "clause": cname,
                   "kind": r["replay_kind"], "witness": c["witness"], "role": "violation"}, open(path, "w"))
        files.append(path); meta.append((ob, cname, c))
      elif c["status"] != "discharged" and c["kind"] != "canary":
        print("UNKNOWN", r["case"], cname, c["reason"][:200])
  for i in range(0, len(files), 400):
    runner.native_replay(files[i:i+400])
  data = json.load(open('/verif/known_findings.json'))
  data["findings"] = [f for f in data["findings"] if f["property"] != prop]
  ent = {}
  for path, (ob, cname, c) in zip(files, meta):
    nat = json.load(open(path)).get("native", {})
    if nat.get("status") != "confirmed":
      print("NOT CONFIRMED natively:", ob, nat.get("status"), str(nat)[:300], "witness", c["witness"])
      continue
    r = RULES[prop](ob, cname, c["witness"])
    if r is None:
      print("NO RULE for", ob, c["witness"])
      continue
    for fid, ex in (r if isinstance(r, list) else [r]):
      ent.setdefault(fid, []).append({"obligation": ob, "exclude": ex})
  for fid, es in ent.items():
    data["findings"].append({"id": fid, "property": prop, "what": FINDINGS[fid], "entries": es})
  json.dump(data, open('/verif/known_findings.json', 'w'), indent=1)
  print({k: len(v) for k, v in ent.items()})


if __name__ == "__main__":
  main(*sys.argv[1:3])
