"""Dev tool: apply scripted mutants to a scratch copy of /repo/qkeras and run checks against it."""
import os, shutil, subprocess, sys, json
MUT = [
 ("C01", "qkeras/quantizers.py", "          self.keep_negative  * (-m + self.symmetric), m - 1) / m", "          self.keep_negative  * (-m + self.symmetric), m) / m", "quantized_bits"),
 ("C01", "qkeras/quantizers.py", "      clip_min = self.keep_negative * (-unsigned_bits_po2 + self.symmetric)", "      clip_min = self.keep_negative * (-unsigned_bits_po2)", "quantized_linear"),
 ("C01", "qkeras/quantizers.py", "    p_and_n = np.where(x >= 2**(self.bits - 1),", "    p_and_n = np.where(x > 2**(self.bits - 1),", "range"),
 ("C01", "qkeras/quantizers.py", "    x = np.asarray(range(2**self.bits))\n    return x * np.array(\n        K.pow(2.0, -self.bits + K.cast(self.integer, dtype=\"float32\")),", "    x = np.asarray(range(2**self.bits))\n    return x * np.array(\n        K.pow(2.0, -self.bits + K.cast(self.integer, dtype=\"float32\") + 1),", "range"),
 ("C01", "qkeras/quantizers.py", "      pos_array = K.cast_to_floatx(tf.range(clip_max + 1))", "      pos_array = K.cast_to_floatx(tf.range(clip_max))", "range"),
 ("C02", "qkeras/quantizers.py", "    output = x + tf.stop_gradient(-x + tf.round(x))\n  return output", "    output = x + tf.stop_gradient(-x + tf.floor(x))\n  return output", "quantized_bits"),
 ("C07", "qkeras/quantizers.py", "      return x_u + tf.stop_gradient(self.qnoise_factor * (-x_u + xq))", "      return x_u + tf.stop_gradient(self.qnoise_factor * (x_u - xq))", "quantized_relu"),
 ("C07", "qkeras/callbacks.py", "      val = float(self.finish - freq) / float(self.finish - self.start)", "      val = float(freq - self.start) / float(self.finish - self.start)", "schedule"),
 ("C07", "qkeras/callbacks.py", "    if freq % self.update_freq != 0:\n      self.num_iters += 1\n      return", "    if freq % self.update_freq != 0:\n      return", "epoch_on_epoch_begin"),
 ("C09", "qkeras/quantizers.py", '        "bits": self.bits,\n        "symmetric": self.symmetric,\n        "use_stochastic_rounding": self.use_stochastic_rounding,\n        "use_real_tanh": self.use_real_tanh', '        "bits": self.bits,\n        "use_stochastic_rounding": self.use_stochastic_rounding,\n        "use_real_tanh": self.use_real_tanh', "quantized_tanh"),
 ("C09", "qkeras/quantizers.py", '        "max_po2_exponent": self.max_po2_exponent\n    }', '        "max_po2_exponent": self.min_po2_exponent\n    }', "binary"),
 ("C06", "qkeras/quantizers.py", "    output = x + tf.stop_gradient(-x + tf.round(x))\n  return output", "    output = tf.round(x)\n  return output", "quantized_"),
 ("C08", "qkeras/quantizers.py", "  result = tf.where(fraction < tf.random.uniform(tf.shape(x)),", "  result = tf.where(fraction > tf.random.uniform(tf.shape(x)),", "stochastic_round"),
 ("C03", "qkeras/quantizers.py", "  min_exp = -2**(effect_bits)\n", "  min_exp = -2**(effect_bits) + 1\n", "quantized_po2"),
 ("C03", "qkeras/quantizers.py", "  x_clipped = tf.where(\n      x_abs < eps,\n      tf.ones_like(x_abs) * min_exp,", "  x_clipped = tf.where(\n      x_abs < 0,\n      tf.ones_like(x_abs) * min_exp,", "quantized_po2"),
 ("C20", "qkeras/autoqkeras/autoqkeras_internal.py", "          if value <= self.limit[name][index]", "          if value <= self.limit[name][index] + 1", "_get_quantizer"),
 ("C20", "qkeras/autoqkeras/forgiving_metrics/forgiving_factor.py", "        self.trial_size < self.reference_size,", "        self.trial_size > self.reference_size,", "delta"),
 ("C20", "qkeras/autoqkeras/forgiving_metrics/forgiving_bits.py", "          bits = layer.get_quantizers()[i].bits\n        else:\n          bits = t_size", "          bits = layer.get_quantizers()[0].bits\n        else:\n          bits = t_size", "_param_size"),
 ("C20", "qkeras/autoqkeras/autoqkeras_internal.py", "          layer_d['recurrent_quantizer'] = recurrent_quantizer_dict[layer.name]", "          layer_d['recurrent_quantizer'] = kernel_quantizer", "quantize_model/seq_class"),
 ("C20", "qkeras/autoqkeras/autoqkeras_internal.py", "      if self.layer_indexes is not None and layer_id not in self.layer_indexes:\n        continue", "      if self.layer_indexes is not None and layer_id in self.layer_indexes:\n        continue", "quantize_model/indexes"),
 ("C20", "qkeras/autoqkeras/autoqkeras_internal.py", "            layer.units = max(int(layer.units * layer_filters), 1)", "            layer.units = max(int(layer.units * layer_filters), 2)", "quantize_model/filters"),
 ("C20", "qkeras/autoqkeras/autoqkeras_internal.py", "          if layer.use_bias:\n            layer_d[\"bias_quantizer\"], bits = self._get_quantizer(", "          if not layer.use_bias:\n            layer_d[\"bias_quantizer\"], bits = self._get_quantizer(", "quantize_model/dense"),
 ("C20", "qkeras/autoqkeras/autoqkeras_internal.py", "      elif layer.__class__.__name__ in self.limit:\n        # mark it for conversion", "      elif layer.__class__.__name__ not in REGISTERED_LAYERS:\n        # mark it for conversion", "quantize_model/dense"),
 ("C19", "qkeras/qtools/qenergy/qenergy.py", "      energy_op = (number_of_inputs - 1) * operation_count * gate_factor * OP[", "      energy_op = number_of_inputs * operation_count * gate_factor * OP[", "energy_estimate"),
 ("C19", "qkeras/qtools/qenergy/qenergy.py", "    total_energy += (input_rd_energy + output_wr_energy +\n                     parameter_rd_energy + energy_op)", "    total_energy += (input_rd_energy + output_wr_energy +\n                     parameter_rd_energy)", "energy_estimate"),
 ("C19", "qkeras/qtools/qenergy/qenergy.py", "      c2 = OP[get_op_type(accumulator.output)][\"add\"](accumulator.output.bits)", "      c2 = OP[get_op_type(accumulator.output)][\"add\"](multiplier.output.bits)", "energy_estimate"),
 ("C19", "qkeras/qtools/qenergy/qenergy.py", "      energy_op *= operation_count\n", "      pass\n", "energy_estimate"),
 ("C19", "qkeras/qtools/qenergy/qenergy.py", "        is_output_layer, output_shapes,\n        activations_on_memory,", "        is_input_layer, output_shapes,\n        activations_on_memory,", "energy_estimate"),
 ("C19", "qkeras/qtools/qenergy/qenergy.py", "          bias_quantizer.bits, is_tensor=False\n      )", "          weight_quantizer.bits, is_tensor=False\n      )", "parameter_read_energy"),
 ("C19", "qkeras/qtools/qenergy/qenergy.py", "      if q:\n        rd_energy += memory_read_energy(", "      if True:\n        rd_energy += memory_read_energy(", "parameter_read_energy"),
 ("C19", "qkeras/qtools/qtools_util.py", "    operation_count = (\n        time_o * channels_o * kernel_length * channels_i)", "    operation_count = (\n        time_o * channels_o * kernel_length)", "Conv1D"),
 ("C10", "qkeras/quantizers.py", '    flags = [str(self.bits), integer_bits, str(int(self.symmetric))]\n    if not self.keep_negative:\n      flags.append("keep_negative=False")\n    if self.alpha:', '    flags = [str(self.bits), str(int(self.symmetric)), integer_bits]\n    if not self.keep_negative:\n      flags.append("keep_negative=False")\n    if self.alpha:', "quantized_bits"),
 ("C10", "qkeras/safe_eval.py", "    if (len(items[i]) == 1) and (len(items[i-1]) == 2):", "    if (len(items[i]) == 1) and (len(items[i-1]) == 2) and i > 1:", "GetParams"),
 ("C11", "qkeras/qlayers.py", "      output = tf.keras.backend.bias_add(output, quantized_bias,\n                                         data_format=\"channels_last\")", "      output = tf.keras.backend.bias_add(output, self.bias,\n                                         data_format=\"channels_last\")", "QDense"),
 ("C11", "qkeras/qconvolutional.py", "        dilation_rate=self.dilation_rate[0])\n\n    if self.use_bias:", "        dilation_rate=1)\n\n    if self.use_bias:", "QConv1D"),
 ("C11", "qkeras/qconvolutional.py", "      quantized_pointwise_kernel = self.pointwise_quantizer_internal(\n          self.pointwise_kernel)\n    else:\n      quantized_pointwise_kernel = self.pointwise_kernel\n\n    outputs = tf.keras.backend.separable_conv2d(\n        inputs,\n        quantized_depthwise_kernel,\n        quantized_pointwise_kernel,\n        strides=self.strides,", "      quantized_pointwise_kernel = self.depthwise_quantizer_internal(\n          self.pointwise_kernel)\n    else:\n      quantized_pointwise_kernel = self.pointwise_kernel\n\n    outputs = tf.keras.backend.separable_conv2d(\n        inputs,\n        quantized_depthwise_kernel,\n        quantized_pointwise_kernel,\n        strides=self.strides,", "QSeparableConv2D"),
 ("C15", "qkeras/qconv2d_batchnorm.py", "      folded_bias = inv * (bias - new_mean) + beta", "      folded_bias = inv * (bias - new_mean)", "QConv2DBatchnorm"),
 ("C15", "qkeras/qconv2d_batchnorm.py", "          lambda: mv_inv * (bias - moving_mean) + beta)", "          lambda: mv_inv * (bias + moving_mean) + beta)", "QConv2DBatchnorm"),
 ("C15", "qkeras/qdepthwiseconv2d_batchnorm.py", "      inv = tf_utils.smart_cond(bn_training, lambda: batch_inv, lambda: mv_inv)", "      inv = tf_utils.smart_cond(bn_training, lambda: mv_inv, lambda: batch_inv)", "QDepthwiseConv2DBatchnorm"),
 ("C12", "qkeras/utils.py", '  quantizer = quantizer_config.get(layer["config"]["name"],\n                                   quantizer_config.get(layer_class, None))', '  quantizer = quantizer_config.get(layer_class,\n                                   quantizer_config.get(layer["config"]["name"], None))', "Dense_both"),
 ("C12", "qkeras/utils.py", '      if layer_config["use_bias"]:\n        bias_quantizer = get_config(\n            quantizer_config, layer, q_name, "bias_quantizer")\n      else:\n        bias_quantizer = None\n\n      if (kernel_quantizer is None and', '      bias_quantizer = get_config(\n          quantizer_config, layer, q_name, "bias_quantizer")\n\n      if (kernel_quantizer is None and', "Conv2D_"),
 ("C12", "qkeras/utils.py", "  jm = copy.deepcopy(json.loads(model.to_json()))\n  custom_objects = copy.deepcopy(custom_objects)", "  jm = copy.deepcopy(json.loads(model.to_json()))", "Dense_class"),
 ("C16", "qkeras/qtools/quantized_operators/multiplier_impl.py", "    self.output.int_bits = self.input.int_bits + self.weights.int_bits", "    self.output.int_bits = max(self.input.int_bits, self.weights.int_bits)", "qbits_x_qbits"),
 ("C17", "qkeras/qtools/quantized_operators/accumulator_impl.py", "    self.log_add_ops = int(np.ceil(np.log2(add_ops)))", "    self.log_add_ops = int(np.floor(np.log2(add_ops)))", "qbits_rank2"),
 ("C17", "qkeras/qtools/quantized_operators/adder_impl.py", "    fractional_bits = max(fractional_bits1, fractional_bits2)", "    fractional_bits = min(fractional_bits1, fractional_bits2)", "qbits_plus_qbits"),
 ("C04", "qkeras/quantizers.py", "    k_sign += (1.0 - tf.abs(k_sign))\n    if self.use_01:", "    if self.use_01:", "binary.__call__"),
 ("C04", "qkeras/quantizers.py", "    axes_of_mean = _get_scaling_axis(unrolled_scale_axis, len(unrolled_shape))", "    axes_of_mean = _get_scaling_axis(scale_axis, len(unrolled_shape))", "_eps"),
 ("C04", "qkeras/quantizers.py", "    qq = _repeat_along_axes(qq, repeats=elements_per_scale, axis=scale_axis)", "    qq = _repeat_along_axes(qq, repeats=1, axis=scale_axis)", "_eps"),
 ("C04", "qkeras/quantizers.py", "      q = K.cast(tf.abs(x) >= thres, K.floatx()) * tf.sign(x)\n\n    # ternary ranges", "      q = K.cast(tf.abs(x) > thres, K.floatx()) * tf.sign(x)\n\n    # ternary ranges", "ternary.__call__/alpha-"),
 ("C04", "qkeras/quantizers.py", "    qx = K.mean(tf.math.multiply(x, q), axis=axis, keepdims=True)\n    qq = K.mean(tf.math.multiply(q, q), axis=axis, keepdims=True)\n  return qx, qq", "    qx = K.mean(tf.math.multiply(x, q), axis=axis[:-1], keepdims=True)\n    qq = K.mean(tf.math.multiply(q, q), axis=axis[:-1], keepdims=True)\n  return qx, qq", "rank4"),
 ("C04", "qkeras/quantizers.py", "  scale = K.clip(scale, min_value=min_po2, max_value=max_po2)\n  return scale", "  scale = K.clip(scale, min_value=max_po2, max_value=min_po2)\n  return scale", "bounded"),
 ("C04", "qkeras/quantizers.py", "    scale = qx / (qq + K.epsilon())\n    if alpha == \"auto_po2\":", "    scale = qx / (qq + 1.0)\n    if alpha == \"auto_po2\":", "binary.__call__/alpha-auto"),
 ("C05", "qkeras/quantizers.py", "      z = tf.sign(x) * tf.where(mask, v, tf.ones_like(v) * levels / 2)\n\n      # z is an integer number", "      z = tf.sign(x) * tf.where(mask, v, tf.ones_like(v) * levels)\n\n      # z is an integer number", "quantized_bits.__call__"),
 ("C05", "qkeras/quantizers.py", "        scale = (K.max(abs(x), axis=axis, keepdims=True) * 2) / levels\n", "        scale = (K.max(abs(x), axis=axis[:-1], keepdims=True) * 2) / levels\n", "rank4"),
 ("C05", "qkeras/quantizers.py", "      if not self.freeze_scale:\n        self.scale = scale\n      xq = scale * xq", "      if not self.freeze_scale:\n        self.scale = scale / m\n      xq = scale * xq", "quantized_bits.__call__"),
 ("C05", "qkeras/quantizers.py", "      v = tf.floor(tf.abs(x) / scale + 0.5)\n      mask = v < levels / 2\n      z = tf.sign(x) * tf.where(mask, v, tf.ones_like(v) * levels / 2)\n\n      # z is an integer", "      v = tf.abs(x) / scale + 0.5\n      mask = v < levels / 2\n      z = tf.sign(x) * tf.where(mask, v, tf.ones_like(v) * levels / 2)\n\n      # z is an integer", "quantized_bits.__call__"),
 ("C13", "qkeras/utils.py", '  custom_objects["QGRU"] = QGRU\n', '', "class_QGRU"),
 ("C13", "qkeras/utils.py", "  qmodel.set_weights(model.get_weights())\n", "", "clone_model"),
 ("C13", "qkeras/qlayers.py", '        "kernel_quantizer": constraints.serialize(\n            self.kernel_quantizer_internal# Google internal code, commented out by copybara\n        ),\n        "bias_quantizer": constraints.serialize(\n            self.bias_quantizer_internal# Google internal code, commented out by copybara\n        ),\n        "kernel_initializer"', '        "bias_quantizer": constraints.serialize(\n            self.bias_quantizer_internal# Google internal code, commented out by copybara\n        ),\n        "kernel_initializer"', "QDense"),
 ("C13", "qkeras/qnormalization.py", "        'mean_quantizer': constraints.serialize(\n            self.mean_quantizer_internal", "        'mean_quantizer': constraints.serialize(\n            self.variance_quantizer_internal", "QBatchNormalization"),
 ("C18", "qkeras/qtools/generate_layer_data_type_map.py", "        kernel_shape = kernel.shape[:-2] + (1, 1)", "        kernel_shape = kernel.shape[:-3] + (1, 1, 1)", "QDepthwiseConv2D_qbits"),
 ("C18", "qkeras/qtools/generate_layer_data_type_map.py", "        accumulator = bias_accumulator_instance.make_quantizer(\n            kernel_accumulator.output, bias_quantizer)", "        accumulator = kernel_accumulator", "QDense_qbits_x_qbits_bias-qbits"),
 ("C18", "qkeras/qtools/quantized_operators/quantizer_impl.py", "    self.is_signed = quantizer.keep_negative\n", "    self.is_signed = 1\n", "QDense_qbits_x_qbits"),
 ("C18", "qkeras/qtools/generate_layer_data_type_map.py", "          graph, node_id, quantizer_factory, layer_quantizer, for_reference)\n\n      layer_data_type_map[layer] = LayerDataType(\n          input_quantizer_list,\n          None,\n          None,\n          None,\n          w_shapes,", "          graph, node_id, quantizer_factory, input_quantizer_list[0], for_reference)\n\n      layer_data_type_map[layer] = LayerDataType(\n          input_quantizer_list,\n          None,\n          None,\n          None,\n          w_shapes,", "QActivation_"),
 ("C18", "qkeras/qtools/generate_layer_data_type_map.py", "          input_qe_list, layer.__class__.__name__)", "          input_qe_list[:1] * 2, layer.__class__.__name__)", "Add_of_two"),
 ("C18", "qkeras/qtools/quantized_operators/quantizer_impl.py", "    self.is_signed = quantizer.keep_negative\n", "    self.is_signed = 1\n", "QActivation_"),
 ("C19", "qkeras/estimate.py", "      number_of_operations = int(size_i * size_o)", "      number_of_operations = int(size_i + size_o)", "extract_model_operations/QDense"),
 ("C19", "qkeras/estimate.py", '      ["barrel", "adder", "mux", "xor", "mux", "fmult"],', '      ["barrel", "adder", "mux", "mux", "mux", "fmult"],', "get_operation_type"),
 ("C19", "qkeras/estimate.py", '      ("bernoulli", 4, 1, 0),', '      ("bernoulli", 3, 1, 0),', "get_operation_type"),
 ("C19", "qkeras/qtools/run_qtools.py", "        self._model, self._layer_map, weights_on_memory,\n        activations_on_memory, min_sram_size,", "        self._model, self._layer_map, activations_on_memory,\n        weights_on_memory, min_sram_size,", "QTools.pe"),
 ("C20", "qkeras/autoqkeras/autoqkeras_internal.py", "      return K.cast(metric * (1.0 + delta), K.floatx())", "      return K.cast(metric * (1.0 - delta), K.floatx())", "adjusted_score"),
 ("C10", "qkeras/qlayers.py", '        "bias_quantizer":\n            str(self.bias_quantizer_internal),\n        "activation":\n            str(self.activation),\n        "units" : str(self.units)', '        "bias_quantizer":\n            str(self.kernel_quantizer_internal),\n        "activation":\n            str(self.activation),\n        "units" : str(self.units)', "QDense.get_quantization"),
 ("C14", "qkeras/utils.py", "          has_scale = True\n          signs.append([])\n", "          has_scale = True\n", "biaspo2b"),
 ("C10", "qkeras/safe_eval.py", 'Group(Regex(r"[^=,)\\s]+")', 'Group(Regex(r"[^=,)]+")', "GetParams/grammar"),
]
def main(sel=None):
  res = []
  for i, (prop, f, old, new, only) in enumerate(MUT):
    if sel and prop not in sel and ("#%d" % i) not in sel: continue
    d = "/tmp/mutant_%d" % i
    shutil.rmtree(d, ignore_errors=True)
    os.makedirs(d)
    shutil.copytree("/repo/qkeras", d + "/qkeras")
    p = os.path.join(d, f)
    s = open(p).read()
    assert s.count(old) == 1, (f, old, s.count(old))
    open(p, "w").write(s.replace(old, new))
    env = dict(os.environ, QKERAS_VERIF_REPO=d)
    r = subprocess.run(["./check", prop, "quick", "--only", only], capture_output=True, text=True, env=env, cwd="/verif")
    viol = [l for l in r.stdout.splitlines() if l.startswith("VIOLATION") or l.startswith("failed obligation") or l.startswith("UNDECIDED")]
    print("#%d %s %s -> exit %d" % (i, prop, new.strip()[:70], r.returncode))
    for l in viol[:4]: print("     ", l[:260])
    shutil.rmtree(d, ignore_errors=True)
main(sys.argv[1:])
