#!/bin/sh
# usage: dev_seed_prep.sh <propid lower, e.g. c07> <suffix e.g. a>   -> creates /tmp/wt_<id><suffix> and the prompt file
id=$1; suf=$2; wt=/tmp/wt_${id}${suf}
git -C /repo worktree add -q --detach $wt HEAD
python3 - "$id" "$suf" <<'PY'
import json,sys
pid, suf = sys.argv[1].upper(), sys.argv[2]
for l in open('/verif/properties.jsonl'):
    p=json.loads(l)
    if p['id']==pid:
        prop="Property %s: %s\n\nStatement: %s\n\nQuantifier: %s\n\nAnchors (files): %s\nMechanisms: %s\n" % (p['id'],p['title'],p['statement'],p['quantifier']['text'],', '.join(p['anchors']['files']), '; '.join(m['name']+' @ '+m['where'] for m in p['anchors']['mechanism']))
t=open('/verif/dev_agent_prompt_template.txt').read()
tag=pid.lower()+suf
open('/tmp/agent_prompt_%s.txt'%tag,'w').write(t.replace('{WT}','/tmp/wt_%s'%tag).replace('{ID}',tag).replace('{PROP}',prop))
print('/tmp/agent_prompt_%s.txt'%tag)
PY
