"""PyVC symbolic executor for a fragment of Python.

Executes the *real* source of /repo (re-read and ast.parse'd on every run).
Values are concrete Python objects or the wrappers of values.py.  Paths are
explored by re-execution under a decision prefix.
"""
import ast
import hashlib
import os
from fractions import Fraction

import z3

from .values import *  # noqa
from . import values as V


class _Return(Exception):

  def __init__(self, value):
    self.value = value


class _Break(Exception):
  pass


class _Continue(Exception):
  pass


POW2 = z3.Function("pow2", z3.IntSort(), z3.RealSort())
IPOW2 = z3.Function("ipow2", z3.IntSort(), z3.IntSort())
LOG2 = z3.Function("log2", z3.RealSort(), z3.RealSort())
RND = z3.Function("rnd", z3.RealSort(), z3.IntSort())
BOR = z3.Function("bor", z3.IntSort(), z3.IntSort(), z3.IntSort())
FLR = z3.Function("flr", z3.RealSort(), z3.IntSort())   # floor, axiom asserted at each use
CEL = z3.Function("cel", z3.RealSort(), z3.IntSort())   # ceiling, axiom asserted at each use


def _pow2_exp(t):
  """If t is (the real image of) a pure power of two, return its exponent term, else None."""
  if z3.is_app(t):
    n = t.decl().name()
    if n in ("pow2", "ipow2") and t.num_args() == 1:
      return t.arg(0)
    if t.decl().kind() == z3.Z3_OP_TO_REAL:
      return _pow2_exp(t.arg(0))
  if z3.is_int_value(t):
    v = t.as_long()
    if v > 0 and (v & (v - 1)) == 0:
      return z3.IntVal(v.bit_length() - 1)
  if z3.is_rational_value(t):
    nu, de = t.numerator_as_long(), t.denominator_as_long()
    if nu == 1 and de > 0 and (de & (de - 1)) == 0:
      return z3.IntVal(-(de.bit_length() - 1))
    if de == 1 and nu > 0 and (nu & (nu - 1)) == 0:
      return z3.IntVal(nu.bit_length() - 1)
  return None


def real_to_int(e):
  """Int-sorted term equal to the Real-sorted term e when e is structurally integer valued."""
  if e.sort() == z3.IntSort():
    return e
  if z3.is_rational_value(e):
    return z3.IntVal(e.numerator_as_long()) if e.denominator_as_long() == 1 else None
  if not z3.is_app(e):
    return None
  k = e.decl().kind()
  if k == z3.Z3_OP_TO_REAL:
    return e.arg(0)
  if k == z3.Z3_OP_ITE:
    a, b = real_to_int(e.arg(1)), real_to_int(e.arg(2))
    return None if a is None or b is None else z3.If(e.arg(0), a, b)
  if k in (z3.Z3_OP_ADD, z3.Z3_OP_MUL, z3.Z3_OP_SUB):
    cs = [real_to_int(c) for c in e.children()]
    if any(c is None for c in cs):
      return None
    r = cs[0]
    for c in cs[1:]:
      r = r + c if k == z3.Z3_OP_ADD else (r * c if k == z3.Z3_OP_MUL else r - c)
    return r
  if k == z3.Z3_OP_UMINUS:
    a = real_to_int(e.arg(0))
    return None if a is None else -a
  return None


def _factors(t, out):
  if z3.is_app(t) and t.decl().kind() == z3.Z3_OP_MUL:
    for c in t.children():
      _factors(c, out)
  elif z3.is_app(t) and t.decl().kind() == z3.Z3_OP_TO_REAL and z3.is_app(t.arg(0)) and t.arg(0).decl().kind() == z3.Z3_OP_MUL:
    for c in t.arg(0).children():
      _factors(z3.ToReal(c), out)
  else:
    out.append(t)


def pow2_inverse(t):
  """1/t as a pow2 monomial when every factor of t is a power of two."""
  fs = []
  _factors(t, fs)
  tot = None
  for f in fs:
    e = _pow2_exp(f)
    if e is None:
      return None
    tot = e if tot is None else tot + e
  return POW2(z3.simplify(-tot))


def mul_norm(a, b):
  """a * b with all power-of-two factors merged into one pow2(sum of exponents)
  (2^s * 2^t = 2^(s+t): the scale normalisation of DESIGN 2.5)."""
  fs = []
  _factors(a, fs)
  _factors(b, fs)
  exps = []
  for f in fs:
    e = _pow2_exp(f)
    if e is not None and (z3.is_int_value(f) or z3.is_rational_value(f)) and z3.is_int_value(e) and e.as_long() == 0:
      e = None      # the numeral 1 is not worth normalising
    exps.append((e, f))
  sym = [e for e, f in exps if e is not None and not (z3.is_int_value(f) or z3.is_rational_value(f))]
  num = [e for e, f in exps if e is not None and (z3.is_int_value(f) or z3.is_rational_value(f))]
  if not sym or len(sym) + len(num) < 2:
    if a.sort() == b.sort():
      return a * b
    return (z3.ToReal(a) if a.sort() == z3.IntSort() else a) * (z3.ToReal(b) if b.sort() == z3.IntSort() else b)
  tot = None
  rest = []
  for e, f in exps:
    if e is not None:
      tot = e if tot is None else tot + e
    else:
      rest.append(f if f.sort() == z3.RealSort() else z3.ToReal(f))
  tot = z3.simplify(tot)
  if z3.is_int_value(tot) and tot.as_long() == 0:
    p = z3.RealVal(1)
  else:
    p = POW2(tot)
  r = p
  for f in rest:
    r = f * r
  return r


class Env(object):

  def __init__(self, parent=None, module=None, func=None):
    self.vars = {}
    self.parent = parent
    self.module = module
    self.func = func
    self.globals_decl = set()
    self.locals = None

  def lookup(self, name):
    e = self
    while e is not None:
      if name in e.vars:
        return e.vars[name]
      if e.locals is not None and name in e.locals:
        raise UnboundLocal(name)
      e = e.parent
    raise KeyError(name)


class UnboundLocal(Exception):
  pass


def local_names(node):
  """Names bound in a function body (Python's compile-time local set)."""
  out, glob = set(), set()

  def targets(t):
    for n in ast.walk(t):
      if isinstance(n, ast.Name) and isinstance(n.ctx, (ast.Store, ast.Del)):
        out.add(n.id)

  def visit(stmts):
    for st in stmts:
      if isinstance(st, (ast.FunctionDef, ast.ClassDef)):
        out.add(st.name)
        continue
      if isinstance(st, ast.Global):
        glob.update(st.names)
      if isinstance(st, (ast.Import, ast.ImportFrom)):
        for a in st.names:
          out.add((a.asname or a.name).split(".")[0])
      for f in ("targets", "target"):
        t = getattr(st, f, None)
        if t is not None:
          for x in (t if isinstance(t, list) else [t]):
            targets(x)
      if isinstance(st, ast.With):
        for it in st.items:
          if it.optional_vars is not None:
            targets(it.optional_vars)
      if isinstance(st, ast.Try):
        for h in st.handlers:
          if h.name:
            out.add(h.name)
          visit(h.body)
      for f in ("body", "orelse", "finalbody"):
        b = getattr(st, f, None)
        if isinstance(b, list):
          visit(b)
      for n in ast.walk(st) if not isinstance(st, (ast.If, ast.For, ast.While, ast.Try, ast.With)) else []:
        if isinstance(n, ast.NamedExpr):
          targets(n.target)
  if isinstance(node, ast.Lambda):
    return set()
  visit(node.body)
  return out - glob


class Path(object):
  """Result of one explored path."""

  def __init__(self, pc, outcome, value, writes, decisions, notes):
    self.pc = pc
    self.outcome = outcome       # 'return' | 'raise'
    self.value = value
    self.writes = writes
    self.decisions = decisions
    self.notes = notes


class Interp(object):

  def __init__(self, repo_root, lib):
    self.repo_root = repo_root
    self.lib = lib
    self.modules = {}
    self.builtins = lib.make_builtins(self)
    self.pc = []
    self.decisions = []
    self.dpos = 0
    self.alts = []
    self.trail = []
    self.writes = []
    self.notes = []
    self.fresh_id = 0
    self.frames = []
    self.overrides = {}
    self.term_mode = False
    self.loading = 0
    self.functions_touched = {}
    self.depth = 0
    self.feas_timeout_ms = 2000
    self.split_minmax = True
    self.learning_phase = None

  # ---------------------------------------------------------------- modules
  def module_path(self, name):
    rel = name.replace(".", "/")
    for cand in (rel + ".py", rel + "/__init__.py"):
      p = os.path.join(self.repo_root, cand)
      if os.path.isfile(p):
        return p
    return None

  def load_source(self, name, source):
    """Load a contract-side stub module written in Python (executed by this interpreter)."""
    if name in self.modules:
      return self.modules[name]
    m = ModuleVal(name, "<stub %s>" % name)
    self.modules[name] = m
    m.source = source
    m.tree = ast.parse(source, filename=name)
    m.env = Env(parent=None, module=m)
    m.env.vars["__name__"] = name
    saved = (self.pc, self.decisions, self.dpos, self.frames)
    self.pc, self.decisions, self.dpos, self.frames = [], [], 0, []
    self.loading += 1
    try:
      for st in m.tree.body:
        self.exec_stmt(st, m.env)
    finally:
      self.loading -= 1
      self.pc, self.decisions, self.dpos, self.frames = saved
    m.loaded = True
    return m

  def get_module(self, name):
    if name in self.modules:
      return self.modules[name]
    path = self.module_path(name)
    if path is None:
      m = self.lib.ext_module(self, name)
      self.modules[name] = m
      return m
    m = ModuleVal(name, path)
    self.modules[name] = m
    with open(path) as f:
      m.source = f.read()
    m.tree = ast.parse(m.source, filename=path)
    m.env = Env(parent=None, module=m)
    m.env.vars["__name__"] = name
    saved = (self.pc, self.decisions, self.dpos, self.frames)
    self.pc, self.decisions, self.dpos, self.frames = [], [], 0, []
    self.loading += 1
    try:
      for st in m.tree.body:
        try:
          self.exec_stmt(st, m.env)
        except Unsupported as e:
          for n in _assigned_names(st):
            m.env.vars[n] = _Poison("module-level statement unsupported: %s" % e)
        except PyRaise as e:
          for n in _assigned_names(st):
            m.env.vars[n] = _Poison("module-level statement raised: %s" % e)
    finally:
      self.loading -= 1
      self.pc, self.decisions, self.dpos, self.frames = saved
    m.loaded = True
    return m

  def find(self, target):
    """'qkeras/quantizers.py::Class.method' -> value."""
    path, qual = target.split("::")
    modname = path[:-3].replace("/", ".")
    if modname.endswith(".__init__"):
      modname = modname[:-9]
    m = self.get_module(modname)
    cur = None
    parts = qual.split(".")
    try:
      cur = m.env.vars[parts[0]]
    except KeyError:
      raise Unsupported("target not found: %s" % target)
    for p in parts[1:]:
      if isinstance(cur, ClassVal):
        v, _ = cur.lookup(p)
        if v is None:
          raise Unsupported("target not found: %s" % target)
        cur = v
      else:
        raise Unsupported("target not found: %s" % target)
    return cur

  def source_sha(self, fv):
    if isinstance(fv, (FuncVal, ClassVal)) and fv.node is not None and fv.module is not None:
      seg = ast.get_source_segment(fv.module.source, fv.node) or ""
      return hashlib.sha256(seg.encode()).hexdigest()
    return None

  # ------------------------------------------------------------- path state
  def fresh(self, prefix, sort="int"):
    self.fresh_id += 1
    name = "%s!%d" % (prefix, self.fresh_id)
    if sort == "int":
      return z3.Int(name)
    if sort == "real":
      return z3.Real(name)
    return z3.Bool(name)

  def assume(self, b):
    if isinstance(b, bool):
      if not b:
        raise PathAbort()
      return
    self.pc.append(b)

  def _solver_with_axioms(self, extra):
    from . import vc
    s = z3.Solver()
    s.set("timeout", self.feas_timeout_ms)
    fs = list(self.pc) + [extra]
    for c in fs:
      s.add(c)
    for a in vc.all_axioms(fs):
      s.add(a)
    return s

  def feasible(self, extra=None):
    s = self._solver_with_axioms(z3.BoolVal(True) if extra is None else extra)
    return s.check() != z3.unsat

  def entails(self, c):
    """True iff pc |= c can be shown quickly."""
    s = self._solver_with_axioms(z3.Not(c))
    return s.check() == z3.unsat

  def branch(self, cond):
    """Decide a symbolic condition, forking the path if both sides are feasible."""
    if isinstance(cond, bool):
      return cond
    c = z3.simplify(cond)
    if z3.is_true(c):
      return True
    if z3.is_false(c):
      return False
    if self.loading:
      raise Unsupported("symbolic branch at module level")
    if self.dpos < len(self.decisions):
      d = self.decisions[self.dpos]
      self.dpos += 1
      self.pc.append(c if d else z3.Not(c))
      return d
    ft = self.feasible(c)
    ff = self.feasible(z3.Not(c))
    if ft and ff:
      self.alts.append(self.decisions[:self.dpos] + [False])
      d = True
    elif ft:
      d = True
    elif ff:
      d = False
    else:
      raise PathAbort()
    self.decisions.append(d)
    self.dpos += 1
    self.pc.append(c if d else z3.Not(c))
    return d

  def log_write(self, obj, attr, old, had):
    self.trail.append(("attr", obj, attr, old, had))
    self.writes.append((obj, attr))

  def log_container(self, c):
    if isinstance(c, list):
      self.trail.append(("list", c, list(c)))
    elif isinstance(c, dict):
      self.trail.append(("dict", c, dict(c)))
    elif isinstance(c, set):
      self.trail.append(("set", c, set(c)))
    self.writes.append((c, None))

  def rollback(self):
    for ent in reversed(self.trail):
      if ent[0] == "attr":
        _, obj, attr, old, had = ent
        d = obj.attrs if isinstance(obj, Obj) else (
            obj.ns if isinstance(obj, ClassVal) else obj.env.vars)
        if had:
          d[attr] = old
        else:
          d.pop(attr, None)
      elif ent[0] == "list":
        ent[1][:] = ent[2]
      elif ent[0] == "dict":
        ent[1].clear()
        ent[1].update(ent[2])
      elif ent[0] == "set":
        ent[1].clear()
        ent[1].update(ent[2])
    self.trail = []

  def explore(self, scenario, max_paths=4000, partial_unsupported=False):
    """Run scenario(interp) on every feasible path.  Returns list of Path."""
    work = [[]]
    out = []
    while work:
      prefix = work.pop()
      self.pc, self.decisions, self.dpos = [], list(prefix), 0
      self.alts, self.trail, self.writes, self.notes = [], [], [], []
      self.frames = []
      outcome, value = None, None
      try:
        value = scenario(self)
        outcome = "return"
      except PyRaise as e:
        outcome, value = "raise", e
      except PathAbort:
        outcome = None
      except Unsupported as e:
        # outside the fragment on THIS path only: the other paths are still explored (a violation found and replayed
        # on one of them stands; without one, every clause of the case stays undecided - see contract.run_case)
        if not partial_unsupported:
          raise
        outcome, value = "unsupported", str(e)
      finally:
        self.rollback()
      work.extend(self.alts)
      if outcome is not None:
        out.append(Path(list(self.pc), outcome, value, list(self.writes),
                        list(self.decisions), list(self.notes)))
      if len(out) + len(work) > max_paths:
        raise Unsupported("path explosion (> %d paths)" % max_paths)
    return out

  # ------------------------------------------------------------- statements
  def exec_block(self, stmts, env):
    for st in stmts:
      self.exec_stmt(st, env)

  def exec_stmt(self, st, env):
    m = getattr(self, "st_" + type(st).__name__, None)
    if m is None:
      raise Unsupported("statement %s" % type(st).__name__)
    return m(st, env)

  def st_Expr(self, st, env):
    if isinstance(st.value, ast.Constant) and isinstance(st.value.value, str):
      return
    self.eval(st.value, env)

  def st_Pass(self, st, env):
    pass

  def st_Import(self, st, env):
    for a in st.names:
      name = a.name
      if a.asname:
        env.vars[a.asname] = self.get_module(name)
      else:
        top = name.split(".")[0]
        env.vars[top] = self.get_module(top)

  def st_ImportFrom(self, st, env):
    mod = st.module or ""
    if st.level:
      base = env.module.name.split(".")
      if env.module.path and not env.module.path.endswith("__init__.py"):
        base = base[:-1]
      base = base[:len(base) - (st.level - 1)] if st.level > 1 else base
      mod = ".".join(base + ([mod] if mod else []))
    if mod == "__future__":
      return
    for a in st.names:
      if a.name == "*":
        m = self.get_module(mod)
        if isinstance(m, ModuleVal):
          for k, v in m.env.vars.items():
            if not k.startswith("_"):
              env.vars[k] = v
        continue
      sub = mod + "." + a.name
      if self.module_path(sub) is not None:
        val = self.get_module(sub)
      else:
        m = self.get_module(mod)
        val = self.getattr(m, a.name)
      env.vars[a.asname or a.name] = val

  def st_FunctionDef(self, st, env):
    fv = self.make_func(st, env)
    fv = self.apply_decorators(fv, st.decorator_list, env)
    self.bind_name(st.name, fv, env)

  def make_func(self, node, env, defclass=None):
    fv = FuncVal(node, env, env.module, defclass=defclass)
    a = node.args
    fv.defaults = [self.eval(d, env) for d in a.defaults]
    fv.kw_defaults = [None if d is None else self.eval(d, env)
                      for d in a.kw_defaults]
    return fv

  def apply_decorators(self, val, decos, env):
    for d in reversed(decos):
      src = ast.unparse(d)
      if hasattr(val, "decorators"):
        val.decorators.append(src)
      if src in ("staticmethod", "classmethod", "property"):
        val.kind = src
        continue
      if src.endswith("abstractmethod") or src.startswith("tf.function") or src.endswith(".setter"):
        continue
      try:
        f = self.eval(d, env)
        r = self.call(f, [val], {})
        if r is not None:
          val = r
      except Unsupported as e:
        self.notes.append("decorator dropped: %s (%s)" % (src, e))
    return val

  def st_ClassDef(self, st, env):
    bases = []
    for b in st.bases:
      bv = self.eval(b, env)
      bases.append(bv)
    cv = ClassVal(st.name, bases, {}, env.module, st)
    cenv = Env(parent=env, module=env.module)
    cenv.is_class = True
    for s in st.body:
      if isinstance(s, ast.FunctionDef):
        fv = self.make_func(s, env, defclass=cv)
        fv = self.apply_decorators(fv, s.decorator_list, env)
        cenv.vars[s.name] = fv
      else:
        try:
          self.exec_stmt(s, cenv)
        except Unsupported as e:
          for n in _assigned_names(s):
            cenv.vars[n] = _Poison(str(e))
    cv.ns = cenv.vars
    cv2 = self.apply_decorators(cv, st.decorator_list, env)
    self.bind_name(st.name, cv2, env)

  def bind_name(self, name, val, env):
    if name in env.globals_decl:
      g = env
      while g.parent is not None:
        g = g.parent
      env = g
    if env.parent is None and not self.loading and env.module is not None:
      had = name in env.vars
      self.log_write(env.module, name, env.vars.get(name), had)
    env.vars[name] = val

  def st_Global(self, st, env):
    env.globals_decl.update(st.names)

  def st_Nonlocal(self, st, env):
    raise Unsupported("nonlocal")

  def st_Assign(self, st, env):
    v = self.eval(st.value, env)
    for t in st.targets:
      self.assign(t, v, env)

  def st_AnnAssign(self, st, env):
    if st.value is not None:
      self.assign(st.target, self.eval(st.value, env), env)

  def st_AugAssign(self, st, env):
    t = st.target
    if isinstance(t, ast.Name):
      cur = self.eval(ast.Name(id=t.id, ctx=ast.Load()), env)
    elif isinstance(t, ast.Attribute):
      obj = self.eval(t.value, env)
      cur = self.getattr(obj, t.attr)
    elif isinstance(t, ast.Subscript):
      obj = self.eval(t.value, env)
      idx = self.eval_index(t.slice, env)
      cur = self.getitem(obj, idx)
    else:
      raise Unsupported("augassign target")
    rhs = self.eval(st.value, env)
    if isinstance(cur, list) and isinstance(st.op, ast.Add):
      self.log_container(cur)
      cur.extend(list(rhs))
      new = cur
    else:
      new = self.binop(st.op, cur, rhs)
    if isinstance(t, ast.Name):
      self.bind_name(t.id, new, env)
    elif isinstance(t, ast.Attribute):
      self.setattr(obj, t.attr, new)
    else:
      self.setitem(obj, idx, new)

  def assign(self, target, v, env):
    if isinstance(target, ast.Name):
      self.bind_name(target.id, v, env)
    elif isinstance(target, (ast.Tuple, ast.List)):
      vals = self.iterate(v)
      star = [i for i, e in enumerate(target.elts) if isinstance(e, ast.Starred)]
      if star:
        i = star[0]
        n_after = len(target.elts) - i - 1
        for e, x in zip(target.elts[:i], vals[:i]):
          self.assign(e, x, env)
        self.assign(target.elts[i].value, list(vals[i:len(vals) - n_after]), env)
        for e, x in zip(target.elts[i + 1:], vals[len(vals) - n_after:]):
          self.assign(e, x, env)
        return
      if len(vals) != len(target.elts):
        raise PyRaise("ValueError", ("unpack",))
      for e, x in zip(target.elts, vals):
        self.assign(e, x, env)
    elif isinstance(target, ast.Attribute):
      obj = self.eval(target.value, env)
      self.setattr(obj, target.attr, v)
    elif isinstance(target, ast.Subscript):
      obj = self.eval(target.value, env)
      idx = self.eval_index(target.slice, env)
      self.setitem(obj, idx, v)
    else:
      raise Unsupported("assign target %s" % type(target).__name__)

  def st_Delete(self, st, env):
    for t in st.targets:
      if isinstance(t, ast.Subscript):
        obj = self.eval(t.value, env)
        idx = self.eval_index(t.slice, env)
        if isinstance(obj, (dict, list)):
          self.log_container(obj)
          try:
            del obj[idx]
          except KeyError:
            raise PyRaise("KeyError", (idx,))
        else:
          raise Unsupported("del on %r" % type(obj))
      elif isinstance(t, ast.Name):
        env.vars.pop(t.id, None)
      else:
        raise Unsupported("del target")

  def st_If(self, st, env):
    if self.truth(self.eval(st.test, env)):
      self.exec_block(st.body, env)
    else:
      self.exec_block(st.orelse, env)

  def st_For(self, st, env):
    it = self.iterate(self.eval(st.iter, env))
    broke = False
    for x in it:
      self.assign(st.target, x, env)
      try:
        self.exec_block(st.body, env)
      except _Break:
        broke = True
        break
      except _Continue:
        continue
    if not broke:
      self.exec_block(st.orelse, env)

  def st_While(self, st, env):
    n = 0
    while self.truth(self.eval(st.test, env)):
      n += 1
      if n > 256:
        raise Unsupported("while loop exceeded 256 concrete iterations")
      try:
        self.exec_block(st.body, env)
      except _Break:
        break
      except _Continue:
        continue

  def st_Break(self, st, env):
    raise _Break()

  def st_Continue(self, st, env):
    raise _Continue()

  def st_Return(self, st, env):
    raise _Return(None if st.value is None else self.eval(st.value, env))

  def st_Assert(self, st, env):
    if not self.truth(self.eval(st.test, env)):
      raise PyRaise("AssertionError", (), st)

  def st_Raise(self, st, env):
    if st.exc is None:
      cur = getattr(self, "_cur_exc", None)
      if cur is None:
        raise PyRaise("RuntimeError", ("no active exception",))
      raise cur
    v = self.eval(st.exc, env)
    if isinstance(v, ExcClass):
      raise PyRaise(v.name, (), st)
    if isinstance(v, ExcVal):
      raise PyRaise(v.cls.name, v.args, st)
    if isinstance(v, Obj) or isinstance(v, ClassVal):
      name = v.cls.name if isinstance(v, Obj) else v.name
      raise PyRaise(name, (), st)
    raise Unsupported("raise of %r" % (v,))

  def st_Try(self, st, env):
    try:
      try:
        self.exec_block(st.body, env)
      except PyRaise as e:
        for h in st.handlers:
          if self.exc_matches(e, h.type, env):
            if h.name:
              env.vars[h.name] = ExcVal(self.builtins.get(e.name, ExcClass(e.name)), e.eargs)
            saved = getattr(self, "_cur_exc", None)
            self._cur_exc = e
            try:
              self.exec_block(h.body, env)
            finally:
              self._cur_exc = saved
            break
        else:
          raise
      else:
        self.exec_block(st.orelse, env)
    finally:
      if st.finalbody:
        self.exec_block(st.finalbody, env)

  def exc_matches(self, e, tnode, env):
    if tnode is None:
      return True
    t = self.eval(tnode, env)
    ts = t if isinstance(t, tuple) else (t,)
    for c in ts:
      if isinstance(c, ExcClass):
        if _exc_is(self.builtins, e.name, c.name):
          return True
      elif isinstance(c, ClassVal) and c.name == e.name:
        return True
    return False

  def st_With(self, st, env):
    # only context managers that are modelled as no-ops (tf.name_scope, ...)
    for item in st.items:
      v = self.eval(item.context_expr, env)
      if item.optional_vars is not None:
        self.assign(item.optional_vars, v, env)
    self.exec_block(st.body, env)

  # ------------------------------------------------------------ expressions
  def eval(self, node, env):
    m = getattr(self, "ex_" + type(node).__name__, None)
    if m is None:
      raise Unsupported("expression %s" % type(node).__name__)
    return m(node, env)

  def ex_Constant(self, node, env):
    return node.value

  def ex_Name(self, node, env):
    try:
      v = env.lookup(node.id)
    except UnboundLocal:
      raise PyRaise("UnboundLocalError", (node.id,), node)
    except KeyError:
      if node.id in self.builtins:
        v = self.builtins[node.id]
      else:
        raise PyRaise("NameError", (node.id,), node)
    if isinstance(v, _Poison):
      raise Unsupported(v.why)
    return v

  def ex_Tuple(self, node, env):
    return tuple(self.eval_elts(node.elts, env))

  def ex_List(self, node, env):
    return list(self.eval_elts(node.elts, env))

  def ex_Set(self, node, env):
    return set(self.eval_elts(node.elts, env))

  def eval_elts(self, elts, env):
    out = []
    for e in elts:
      if isinstance(e, ast.Starred):
        out.extend(self.iterate(self.eval(e.value, env)))
      else:
        out.append(self.eval(e, env))
    return out

  def ex_Dict(self, node, env):
    d = {}
    for k, v in zip(node.keys, node.values):
      if k is None:
        d.update(self.eval(v, env))
      else:
        d[self.hashable(self.eval(k, env))] = self.eval(v, env)
    return d

  def hashable(self, k):
    if is_sym(k):
      raise Unsupported("symbolic dictionary key")
    return k

  def ex_JoinedStr(self, node, env):
    parts = []
    for v in node.values:
      if isinstance(v, ast.Constant):
        parts.append(v.value)
      else:
        parts.append(self.to_str(self.eval(v.value, env)))
    return self.concat_str(parts)

  def ex_FormattedValue(self, node, env):
    return self.to_str(self.eval(node.value, env))

  def concat_str(self, parts):
    if all(isinstance(p, str) for p in parts):
      return "".join(parts)
    pieces = []
    for p in parts:
      if isinstance(p, SStr):
        pieces.extend(p.pieces)
      else:
        pieces.append(p)
    return SStr(pieces)

  def to_str(self, v):
    if isinstance(v, str):
      return v
    if isinstance(v, SStr):
      return v
    if isinstance(v, (bool, int, float, type(None))):
      return str(v)
    if isinstance(v, (list, tuple)) and not any(_contains_sym(x) for x in v):
      return str(v)
    if isinstance(v, Obj):
      f, _ = v.cls.lookup("__str__")
      if f is not None:
        return self.call(BoundMethod(v, f), [], {})
      return SStr([("str", v)])
    return SStr([("str", v)])

  def ex_Lambda(self, node, env):
    return self.make_func(node, env)

  def ex_IfExp(self, node, env):
    if self.truth(self.eval(node.test, env)):
      return self.eval(node.body, env)
    return self.eval(node.orelse, env)

  def ex_BoolOp(self, node, env):
    is_and = isinstance(node.op, ast.And)
    v = None
    for e in node.values:
      v = self.eval(e, env)
      t = self.truth(v)
      if is_and and not t:
        return v
      if (not is_and) and t:
        return v
    return v

  def ex_UnaryOp(self, node, env):
    v = self.eval(node.operand, env)
    if isinstance(node.op, ast.Not):
      return not self.truth(v)
    if isinstance(node.op, ast.USub):
      return self.binop(ast.Sub(), 0, v) if is_sym(v) else self._neg(v)
    if isinstance(node.op, ast.UAdd):
      return v
    if isinstance(node.op, ast.Invert):
      if isinstance(v, SBool):
        return SBool(z3.Not(v.e), v.pytype)
      if isinstance(v, (int, bool)):
        return ~v
    raise Unsupported("unary op")

  def _neg(self, v):
    if isinstance(v, Term):
      return Term("neg", (v,))
    if isinstance(v, Obj):
      return self.call_special(v, "__neg__", [])
    try:
      return -v
    except TypeError:
      raise Unsupported("neg of %r" % (v,))

  def ex_BinOp(self, node, env):
    a = self.eval(node.left, env)
    b = self.eval(node.right, env)
    return self.binop(node.op, a, b)

  def ex_Compare(self, node, env):
    left = self.eval(node.left, env)
    result = None
    for op, rn in zip(node.ops, node.comparators):
      right = self.eval(rn, env)
      r = self.compare(op, left, right)
      if len(node.ops) == 1:
        return r
      if not self.truth(r):
        return False
      result = r
      left = right
    return result

  def ex_Attribute(self, node, env):
    obj = self.eval(node.value, env)
    return self.getattr(obj, node.attr, node)

  def ex_Subscript(self, node, env):
    obj = self.eval(node.value, env)
    idx = self.eval_index(node.slice, env)
    return self.getitem(obj, idx)

  def eval_index(self, s, env):
    if isinstance(s, ast.Slice):
      return slice(None if s.lower is None else self.eval(s.lower, env),
                   None if s.upper is None else self.eval(s.upper, env),
                   None if s.step is None else self.eval(s.step, env))
    if isinstance(s, ast.Tuple):
      return tuple(self.eval_index(e, env) for e in s.elts)
    return self.eval(s, env)

  def ex_Starred(self, node, env):
    raise Unsupported("starred expression")

  def ex_ListComp(self, node, env):
    out = []
    self._comp(node.generators, 0, env, lambda e: out.append(self.eval(node.elt, e)))
    return out

  def ex_GeneratorExp(self, node, env):
    return self.ex_ListComp(node, env)

  def ex_SetComp(self, node, env):
    out = []
    self._comp(node.generators, 0, env, lambda e: out.append(self.eval(node.elt, e)))
    return set(out)

  def ex_DictComp(self, node, env):
    out = {}

    def add(e):
      out[self.hashable(self.eval(node.key, e))] = self.eval(node.value, e)
    self._comp(node.generators, 0, env, add)
    return out

  def _comp(self, gens, i, env, emit):
    if i == len(gens):
      emit(env)
      return
    g = gens[i]
    for x in self.iterate(self.eval(g.iter, env)):
      e2 = Env(parent=env, module=env.module, func=env.func)
      self.assign(g.target, x, e2)
      if all(self.truth(self.eval(c, e2)) for c in g.ifs):
        self._comp(gens, i + 1, e2, emit)

  def ex_Call(self, node, env):
    # zero-argument super()
    if isinstance(node.func, ast.Name) and node.func.id == "super" and not node.args:
      return self.make_super(env)
    f = self.eval(node.func, env)
    args = []
    for a in node.args:
      if isinstance(a, ast.Starred):
        args.extend(self.iterate(self.eval(a.value, env)))
      else:
        args.append(self.eval(a, env))
    kwargs = {}
    for k in node.keywords:
      if k.arg is None:
        d = self.eval(k.value, env)
        if isinstance(d, Obj) and "__dict_items__" in d.attrs:
          d = d.attrs["__dict_items__"]
        if not isinstance(d, dict):
          raise Unsupported("** of non-dict %r" % (d,))
        for kk, vv in d.items():
          if kk in kwargs:
            raise PyRaise("TypeError", ("multiple values for keyword %s" % kk,))
          kwargs[kk] = vv
      else:
        kwargs[k.arg] = self.eval(k.value, env)
    return self.call(f, args, kwargs, node)

  def make_super(self, env):
    e = env
    while e is not None and e.func is None:
      e = e.parent
    if e is None or e.func.defclass is None:
      raise Unsupported("super() outside method")
    fn = e.func
    a = fn.node.args
    first = (a.posonlyargs + a.args)[0].arg
    selfv = e.vars[first]
    return _Super(selfv, fn.defclass)

  # -------------------------------------------------------------- operators
  def truth(self, v):
    if isinstance(v, SBool):
      if v.pytype == "tensor" and not self.term_mode:
        pass
      return self.branch(v.e)
    if isinstance(v, SNum):
      if v.pytype == "tensor":
        raise Unsupported("truth value of a tensor element")
      return self.branch(v.e != 0)
    if isinstance(v, (Obj,)):
      if v.attrs.get("__var__") is True:
        return self.truth(self.deref(v))
      if isinstance(v.cls, ClassVal):
        f, _ = v.cls.lookup("__bool__")
        if f is not None:
          return self.truth(self.call(BoundMethod(v, f), [], {}))
        f, _ = v.cls.lookup("__len__")
        if f is not None:
          return self.truth(self.compare(ast.NotEq(), self.call(BoundMethod(v, f), [], {}), 0))
      if "__truth__" in v.attrs:
        return self.truth(v.attrs["__truth__"])
      return True
    if isinstance(v, (ClassVal, FuncVal, BoundMethod, Builtin, ModuleVal, ExtModule, ExtClass, ExcClass)):
      return True
    if isinstance(v, SStr):
      if any(isinstance(p, str) and p for p in v.pieces):
        return True
      raise Unsupported("truth of symbolic string")
    if isinstance(v, Term):
      if v.op.endswith("serialize") and v.args and v.args[0] is not None:
        return True          # K2: the serialised form of an object is a non-empty dict
      raise Unsupported("truth of opaque term %r" % (v,))
    if isinstance(v, ExtAttr):
      raise Unsupported("truth of %r" % (v,))
    return bool(v)

  def num(self, v):
    """-> (z3 arith expr) for a numeric value."""
    v = self.deref(v)
    if isinstance(v, SNum):
      return v.e
    if isinstance(v, SBool):
      return z3.If(v.e, z3.IntVal(1), z3.IntVal(0))
    if isinstance(v, bool):
      return z3.IntVal(int(v))
    if isinstance(v, int):
      return z3.IntVal(v)
    if isinstance(v, (float, Fraction)):
      if isinstance(v, float) and (v != v or v in (float("inf"), float("-inf"))):
        raise Unsupported("non-finite float constant")
      return zreal(v)
    raise Unsupported("not numeric: %r" % (v,))

  def as_bool(self, v):
    if isinstance(v, SBool):
      return v.e
    if isinstance(v, bool):
      return z3.BoolVal(v)
    if isinstance(v, SNum):
      return v.e != 0
    if isinstance(v, (int, float)):
      return z3.BoolVal(bool(v))
    raise Unsupported("not boolean: %r" % (v,))

  def deref(self, v):
    """tf.Variable cell -> its current value."""
    while isinstance(v, Obj) and v.attrs.get("__var__") is True:
      v = v.attrs["value"]
    return v

  def binop(self, op, a, b):
    a, b = self.deref(a), self.deref(b)
    if isinstance(a, Obj) or isinstance(b, Obj):
      return self.obj_binop(op, a, b)
    if isinstance(a, Term) or isinstance(b, Term):
      return Term(type(op).__name__.lower(), (a, b))
    if isinstance(a, ExtAttr) or isinstance(b, ExtAttr):
      raise Unsupported("arithmetic on %r" % ((a, b),))
    if not (is_sym(a) or is_sym(b)):
      return self.concrete_binop(op, a, b)
    if isinstance(a, SStr) or isinstance(b, SStr):
      if isinstance(op, ast.Add):
        return self.concat_str([a, b])
      if isinstance(op, ast.Mod):
        raise Unsupported("% formatting of symbolic string")
      raise Unsupported("string op")
    if isinstance(a, (str, list, tuple, dict)) or isinstance(b, (str, list, tuple, dict)):
      if isinstance(op, ast.Mult) and isinstance(a, (list, tuple)) and isinstance(b, SNum):
        raise Unsupported("sequence repetition by symbolic count")
      if isinstance(op, ast.Mod) and isinstance(a, str):
        return SStr([("fmt", a, b)])
      raise Unsupported("operator %s on %r, %r" % (type(op).__name__, a, b))
    if a is None or b is None:
      raise PyRaise("TypeError", ("unsupported operand None",))
    return self.sym_arith(op, a, b)

  def concrete_binop(self, op, a, b):
    import operator
    table = {ast.Add: operator.add, ast.Sub: operator.sub, ast.Mult: operator.mul,
             ast.Div: operator.truediv, ast.FloorDiv: operator.floordiv,
             ast.Mod: operator.mod, ast.Pow: operator.pow,
             ast.BitOr: operator.or_, ast.BitAnd: operator.and_,
             ast.BitXor: operator.xor, ast.LShift: operator.lshift,
             ast.RShift: operator.rshift, ast.MatMult: operator.matmul}
    f = table.get(type(op))
    if f is None:
      raise Unsupported("operator %s" % type(op).__name__)
    try:
      return f(a, b)
    except ZeroDivisionError:
      raise PyRaise("ZeroDivisionError", ())
    except TypeError as e:
      raise PyRaise("TypeError", (str(e),))
    except OverflowError:
      raise Unsupported("float overflow in concrete arithmetic")

  def obj_binop(self, op, a, b):
    names = {ast.Add: "add", ast.Sub: "sub", ast.Mult: "mul", ast.Div: "truediv",
             ast.BitOr: "or", ast.BitAnd: "and"}
    n = names.get(type(op))
    if n is None:
      raise Unsupported("operator on objects")
    if isinstance(a, Obj):
      f, _ = a.cls.lookup("__%s__" % n) if isinstance(a.cls, ClassVal) else (None, None)
      if f is not None:
        return self.call(BoundMethod(a, f), [b], {})
    if isinstance(b, Obj):
      f, _ = b.cls.lookup("__r%s__" % n) if isinstance(b.cls, ClassVal) else (None, None)
      if f is not None:
        return self.call(BoundMethod(b, f), [a], {})
    if self.term_mode:
      return Term(n, (a, b))
    raise Unsupported("operator %s on objects %r %r" % (n, a, b))

  def pytype_of(self, a, b, default=None):
    ts = []
    for v in (a, b):
      if isinstance(v, SNum):
        ts.append(v.pytype)
      elif isinstance(v, SBool):
        ts.append("tensor" if v.pytype == "tensor" else "int")
      elif isinstance(v, bool) or isinstance(v, int):
        ts.append("int")
      else:
        ts.append("float")
    if "tensor" in ts:
      return "tensor"
    if "float" in ts:
      return "float"
    return "int"

  def grad_of(self, v):
    if isinstance(v, SNum) and v.grad is not None:
      return v.grad
    return None

  def sym_arith(self, op, a, b):
    return inherit_shape(self._sym_arith(op, a, b), (a, b))

  def _sym_arith(self, op, a, b):
    ea, eb = self.num(a), self.num(b)
    pt = self.pytype_of(a, b)
    ga, gb = self.grad_of(a), self.grad_of(b)
    has_g = ga is not None or gb is not None
    z0 = z3.RealVal(0)
    if has_g:
      ga = z0 if ga is None else ga
      gb = z0 if gb is None else gb
    both_int = ea.sort() == z3.IntSort() and eb.sort() == z3.IntSort()

    def R(e):
      return z3.ToReal(e) if e.sort() == z3.IntSort() else e

    if isinstance(op, (ast.Add, ast.Sub, ast.Mult)):
      if not both_int:
        ea, eb = R(ea), R(eb)
      if isinstance(op, ast.Add):
        e = ea + eb
        g = ga + gb if has_g else None
      elif isinstance(op, ast.Sub):
        e = ea - eb
        g = ga - gb if has_g else None
      else:
        e = mul_norm(ea, eb)
        g = (mul_norm(ga, R(eb)) + mul_norm(gb, R(ea))) if has_g else None
      return SNum(z3.simplify(e), pt, None if g is None else z3.simplify(g))
    if isinstance(op, ast.Div):
      inv = pow2_inverse(eb)
      if inv is not None:
        # division by a power of two 2^t is multiplication by 2^-t (never zero)
        e = mul_norm(R(ea), inv)
        g = mul_norm(ga, inv) if has_g else None
        if pt != "tensor":
          pt = "float"
        return SNum(z3.simplify(e), pt, None if g is None else z3.simplify(g))
      if pt != "tensor":
        if self.branch(eb == 0):
          raise PyRaise("ZeroDivisionError", ())
        pt = "float"
      e = R(ea) / R(eb)
      g = None
      if has_g:
        g = (ga * R(eb) - gb * R(ea)) / (R(eb) * R(eb))
      return SNum(z3.simplify(e), pt, None if g is None else z3.simplify(g))
    if isinstance(op, (ast.FloorDiv, ast.Mod)):
      if not both_int:
        raise Unsupported("floor division / modulo on reals")
      if pt != "tensor" and self.branch(eb == 0):
        raise PyRaise("ZeroDivisionError", ())
      # Python floors; z3 div/mod are Euclidean: equal when divisor > 0.
      if self.branch(eb > 0):
        q, r = ea / eb, ea % eb
      else:
        # divisor < 0: floor(a/b) = -((-a) floordiv (-b)) adjusted; use a = q*b + r, b < r <= 0
        q = self.fresh("fdiv")
        r = self.fresh("fmod")
        self.assume(z3.And(ea == q * eb + r, r <= 0, r > eb))
      return SNum(z3.simplify(q if isinstance(op, ast.FloorDiv) else r), pt)
    if isinstance(op, ast.Pow):
      return self.sym_pow(a, b, pt)
    if isinstance(op, (ast.BitOr, ast.BitAnd, ast.BitXor)):
      if isinstance(a, (SBool, bool)) and isinstance(b, (SBool, bool)):
        fa, fb = self.as_bool(a), self.as_bool(b)
        f = {ast.BitOr: z3.Or, ast.BitAnd: z3.And, ast.BitXor: z3.Xor}[type(op)]
        return SBool(z3.simplify(f(fa, fb)),
                     "tensor" if "tensor" in (getattr(a, "pytype", ""), getattr(b, "pytype", "")) else "bool")
      if both_int:
        # concrete 0/1 on one side: x|1 = 1, x|0 = x, x&0 = 0, x&1 = x for x in {0,1}
        for u, v, ev in ((a, b, eb), (b, a, ea)):
          if not is_sym(u) and isinstance(u, (int, bool)) and int(u) in (0, 1) and self.entails(z3.And(ev >= 0, ev <= 1)):
            if isinstance(op, ast.BitOr):
              return 1 if int(u) == 1 else SNum(ev, "int")
            if isinstance(op, ast.BitAnd):
              return 0 if int(u) == 0 else SNum(ev, "int")
        in01 = z3.And(ea >= 0, ea <= 1, eb >= 0, eb <= 1)
        if isinstance(op, ast.BitOr):
          exact = z3.If(ea + eb >= 1, z3.IntVal(1), z3.IntVal(0))
        elif isinstance(op, ast.BitAnd):
          exact = z3.If(ea + eb >= 2, z3.IntVal(1), z3.IntVal(0))
        else:
          exact = z3.If(ea + eb == 1, z3.IntVal(1), z3.IntVal(0))
        if not self.entails(in01):
          raise Unsupported("bitwise operator on integers not known to be 0/1")
        return SNum(z3.simplify(exact), "int")
      raise Unsupported("bitwise operator on non-integers")
    raise Unsupported("operator %s" % type(op).__name__)

  def int_view(self, e):
    """real_to_int that also accepts pow2(k) leaves when k >= 0 holds on the current path (forking on k >= 0 when
    the path does not decide it; the k < 0 side is outside the fragment)."""
    r = real_to_int(e)
    if r is not None:
      return r
    if not z3.is_app(e):
      return None
    k = e.decl().kind()
    if e.decl().eq(POW2):
      n = e.arg(0)
      if self.entails(n >= 0) or self.truth(SBool(n >= 0)):
        self.assume(POW2(n) == z3.ToReal(IPOW2(n)))
        return IPOW2(n)
      raise Unsupported("2 ** (pow2 of a negative exponent)")
    if k == z3.Z3_OP_ITE:
      a, b = self.int_view(e.arg(1)), self.int_view(e.arg(2))
      return None if a is None or b is None else z3.If(e.arg(0), a, b)
    if k in (z3.Z3_OP_ADD, z3.Z3_OP_MUL, z3.Z3_OP_SUB):
      cs = [self.int_view(c) for c in e.children()]
      if any(c is None for c in cs):
        return None
      r = cs[0]
      for c in cs[1:]:
        r = r + c if k == z3.Z3_OP_ADD else (r * c if k == z3.Z3_OP_MUL else r - c)
      return r
    if k == z3.Z3_OP_UMINUS:
      a = self.int_view(e.arg(0))
      return None if a is None else -a
    return None

  def pow2(self, n_expr, pytype="float"):
    return SNum(POW2(n_expr), pytype)

  def sym_pow(self, a, b, pt):
    # base 2 with a symbolic integer exponent
    if isinstance(a, SNum):
      sa = z3.simplify(a.e)
      if (z3.is_int_value(sa) or z3.is_rational_value(sa)) and sa.numerator_as_long() == 2 and sa.denominator_as_long() == 1:
        a = 2.0 if a.pytype != "int" else 2
    if not is_sym(a) and a == 2:
      eb = self.num(b)
      if eb.sort() == z3.IntSort():
        # 2 ** n with n >= 0 is an integer: keep it in the Int sort (ipow2);
        # otherwise the real-valued pow2 (int ** negative int is a float in Python)
        if self.entails(eb >= 0):
          return SNum(IPOW2(eb), "int" if (isinstance(a, int) and pt == "int") else ("tensor" if pt == "tensor" else "float"))
        return SNum(POW2(eb), "float" if pt != "tensor" else "tensor")
      ei = real_to_int(z3.simplify(eb))
      if ei is not None:
        g = None
        if isinstance(b, SNum) and b.grad is not None:
          # d/dx 2^e(x) = ln2 * 2^e * e'(x); e is integer-valued and piecewise constant here
          g = b.grad * POW2(ei) * z3.RealVal("6931471805599453/10000000000000000")
        return SNum(POW2(ei), "float" if pt != "tensor" else "tensor", g)
      ei = self.int_view(z3.simplify(eb))
      if ei is not None:
        return SNum(POW2(ei), "float" if pt != "tensor" else "tensor")
      raise Unsupported("2 ** real-valued symbolic exponent: %s" % str(z3.simplify(eb))[:200])
    if not is_sym(b) and isinstance(b, int) and 0 <= b <= 4:
      r = 1
      for _ in range(b):
        r = self.binop(ast.Mult(), r, a)
      return r
    if not is_sym(b) and b == 0.5:
      raise Unsupported("sqrt via ** 0.5")
    raise Unsupported("symbolic power %r ** %r" % (a, b))

  def compare(self, op, a, b):
    if not isinstance(op, (ast.Is, ast.IsNot)):
      a, b = self.deref(a), self.deref(b)
    if isinstance(op, ast.Is):
      return self.identical(a, b)
    if isinstance(op, ast.IsNot):
      return not self.identical(a, b)
    if isinstance(op, (ast.In, ast.NotIn)):
      r = self.contains(b, a)
      if isinstance(op, ast.NotIn):
        return self.logical_not(r)
      return r
    if isinstance(op, (ast.Eq, ast.NotEq)):
      r = self.equals(a, b)
      return self.logical_not(r) if isinstance(op, ast.NotEq) else r
    # ordering
    if isinstance(a, Obj) and isinstance(a.cls, ClassVal):
      dn = {ast.Lt: "__lt__", ast.LtE: "__le__", ast.Gt: "__gt__", ast.GtE: "__ge__"}[type(op)]
      f, _ = a.cls.lookup(dn)
      if f is not None:
        return self.call(BoundMethod(a, f), [b], {})
    if isinstance(a, Term) or isinstance(b, Term):
      return Term(type(op).__name__.lower(), (a, b))
    if type(a).__name__ == "NDList" or type(b).__name__ == "NDList":
      xs = a if type(a).__name__ == "NDList" else [a] * len(b)
      ys = b if type(b).__name__ == "NDList" else [b] * len(a)
      return type(a if type(a).__name__ == "NDList" else b)([self.compare(op, x, y) for x, y in zip(xs, ys)])
    if not (is_sym(a) or is_sym(b)):
      import operator
      f = {ast.Lt: operator.lt, ast.LtE: operator.le, ast.Gt: operator.gt,
           ast.GtE: operator.ge}[type(op)]
      try:
        return f(a, b)
      except TypeError as e:
        raise PyRaise("TypeError", (str(e),))
    if a is None or b is None or isinstance(a, str) or isinstance(b, str):
      raise PyRaise("TypeError", ("ordering comparison with None/str",))
    ea, eb = self.num(a), self.num(b)
    if ea.sort() != eb.sort():
      ea = z3.ToReal(ea) if ea.sort() == z3.IntSort() else ea
      eb = z3.ToReal(eb) if eb.sort() == z3.IntSort() else eb
    e = {ast.Lt: ea < eb, ast.LtE: ea <= eb, ast.Gt: ea > eb, ast.GtE: ea >= eb}[type(op)]
    pt = "tensor" if self.pytype_of(a, b) == "tensor" else "bool"
    return SBool(z3.simplify(e), pt)

  def logical_not(self, r):
    if isinstance(r, SBool):
      return SBool(z3.simplify(z3.Not(r.e)), r.pytype)
    if isinstance(r, Term):
      return Term("not", (r,))
    return not r

  def identical(self, a, b):
    if a is None or b is None:
      return a is b
    if isinstance(a, (bool, int, str)) and isinstance(b, (bool, int, str)):
      return type(a) == type(b) and a == b
    return a is b

  def equals(self, a, b):
    if isinstance(a, Term) or isinstance(b, Term):
      if isinstance(a, Term) and isinstance(b, Term) and a == b:
        return True
      if a is None or b is None or isinstance(a, str) or isinstance(b, str):
        return False
      return Term("eq", (a, b))
    if isinstance(a, SStr) or isinstance(b, SStr):
      if isinstance(a, SStr) and isinstance(b, SStr) and a.pieces == b.pieces:
        return True
      raise Unsupported("equality of symbolic strings")
    if is_sym(a) or is_sym(b):
      for x, y in ((a, b), (b, a)):
        if is_sym(x) and (y is None or isinstance(y, (str, list, tuple, dict, Obj, ClassVal, FuncVal))):
          return False
      if isinstance(a, (SBool, bool)) and isinstance(b, (SBool, bool)):
        return SBool(z3.simplify(self.as_bool(a) == self.as_bool(b)))
      ea, eb = self.num(a), self.num(b)
      if ea.sort() != eb.sort():
        ea = z3.ToReal(ea) if ea.sort() == z3.IntSort() else ea
        eb = z3.ToReal(eb) if eb.sort() == z3.IntSort() else eb
      pt = "tensor" if self.pytype_of(a, b) == "tensor" else "bool"
      return SBool(z3.simplify(ea == eb), pt)
    if isinstance(a, Obj) and isinstance(a.cls, ClassVal):
      f, _ = a.cls.lookup("__eq__")
      if f is not None:
        return self.call(BoundMethod(a, f), [b], {})
      return a is b
    if isinstance(a, Obj) or isinstance(b, Obj):
      return a is b
    if isinstance(a, (list, tuple)) and isinstance(b, (list, tuple)) and type(a) == type(b):
      if len(a) != len(b):
        return False
      conj = []
      for x, y in zip(a, b):
        r = self.equals(x, y)
        if isinstance(r, SBool):
          conj.append(r.e)
        elif not r:
          return False
      if conj:
        return SBool(z3.simplify(z3.And(*conj)))
      return True
    if isinstance(a, ExtAttr) or isinstance(b, ExtAttr):
      if isinstance(a, ExtAttr) and isinstance(b, ExtAttr):
        return a.path == b.path
      return False
    try:
      return a == b
    except Exception:  # pylint: disable=broad-except
      return a is b

  def contains(self, container, item):
    if isinstance(container, str):
      if isinstance(item, str):
        return item in container
      raise Unsupported("symbolic substring test")
    if isinstance(container, SStr):
      if isinstance(item, str):
        if any(isinstance(p, str) and item in p for p in container.pieces):
          return True
        if not _sstr_may_contain(container.pieces, item):
          return False
      raise Unsupported("substring test on symbolic string")
    if isinstance(container, dict):
      if is_sym(item):
        raise Unsupported("symbolic key membership")
      if isinstance(item, (Obj, ClassVal, FuncVal)):
        return any(k is item for k in container)
      return item in container
    if isinstance(container, Obj):
      if "__dict_items__" in container.attrs:
        return self.lib.symdict_contains(self, container, item)
      f, _ = container.cls.lookup("__contains__")
      if f is not None:
        return self.call(BoundMethod(container, f), [item], {})
      raise Unsupported("membership in object")
    if isinstance(container, (list, tuple, set, frozenset, range)):
      disj = []
      for x in container:
        r = self.equals(item, x)
        if isinstance(r, SBool):
          disj.append(r.e)
        elif isinstance(r, Term):
          raise Unsupported("membership with opaque equality")
        elif r:
          return True
      if disj:
        return SBool(z3.simplify(z3.Or(*disj)))
      return False
    raise Unsupported("membership in %r" % (container,))

  # ------------------------------------------------------ attributes, items
  def getattr(self, obj, name, node=None):
    if isinstance(obj, Obj):
      if name in obj.attrs:
        v = obj.attrs[name]
        if isinstance(v, _Poison):
          raise Unsupported(v.why)
        return v
      if name == "__class__":
        return obj.cls
      if name == "__dict__":
        return obj.attrs
      if isinstance(obj.cls, ClassVal):
        v, owner = obj.cls.lookup(name)
        if v is not None or owner is not None:
          return self.bind_attr(v, obj, obj.cls)
      hook = self.lib.obj_getattr(self, obj, name)
      if hook is not NotImplemented:
        return hook
      raise PyRaise("AttributeError", (name,), node)
    if isinstance(obj, _Super):
      v, owner = obj.self_val.cls.lookup(name, after=obj.cls) if isinstance(obj.self_val, Obj) else obj.self_val.lookup(name, after=obj.cls)
      if v is None:
        if name == "__init__" and isinstance(obj.self_val, Obj):
          # object.__init__, or the constructor of an unmodelled external (Keras) base class:
          # assumed to store its keyword arguments as same-named attributes (K1)
          target = obj.self_val

          def ext_init(ip, *a, **k):
            for kk, vv in k.items():
              if kk not in target.attrs:
                ip.setattr(target, kk, vv)
            merged = dict(target.attrs.get("__base_kwargs__", {}))
            merged.update(k)
            ip.setattr(target, "__base_kwargs__", merged)
            if a:
              ip.setattr(target, "__base_args__", tuple(a))
              # keras.layers.RNN(cell, ...): the one external base constructor called positionally
              if "cell" not in target.attrs:
                ip.setattr(target, "cell", a[0])
              merged = dict(merged)
              merged["cell"] = a[0]
              ip.setattr(target, "__base_kwargs__", merged)
            return None
          return Builtin("object.__init__", ext_init)
        if name == "get_config" and isinstance(obj.self_val, Obj) and "__base_kwargs__" in obj.self_val.attrs:
          # K1: the external base class reports the keyword arguments its constructor was given
          target = obj.self_val
          # (Keras' BatchNormalization.get_config does not report fused / renorm(False) / virtual_batch_size / adjustment)
          omit = ("fused", "renorm", "virtual_batch_size", "adjustment")
          return Builtin("base.get_config", lambda ip: {k: v for k, v in target.attrs["__base_kwargs__"].items() if k not in omit})
        if name in ("__init__", "__init_subclass__", "__setattr__"):
          return Builtin("object." + name, lambda ip, *a, **k: None)
        if self.term_mode:
          base = "super(%s).%s" % (obj.cls.name, name)
          return Builtin(base, lambda ip, *a, **k: Term(base, a, k))
        raise PyRaise("AttributeError", (name,), node)
      if isinstance(obj.self_val, Obj):
        return self.bind_attr(v, obj.self_val, obj.self_val.cls)
      return self.bind_attr(v, None, obj.self_val)
    if isinstance(obj, ClassVal):
      if name == "__name__":
        return obj.name
      if name == "__mro__":
        return tuple(obj.mro())
      v, owner = obj.lookup(name)
      if v is None and owner is None:
        if name == "from_config":
          # K2: keras.layers.Layer.from_config(config) is cls(**config) for a class that does not override it
          cls_ = obj
          return Builtin("Layer.from_config", lambda ip, config: ip.call(cls_, [], dict(config)))
        raise PyRaise("AttributeError", (name,), node)
      return self.bind_attr(v, None, obj)
    if isinstance(obj, ModuleVal):
      if name in obj.env.vars:
        v = obj.env.vars[name]
        if isinstance(v, _Poison):
          raise Unsupported(v.why)
        return v
      sub = obj.name + "." + name
      if self.module_path(sub) is not None:
        return self.get_module(sub)
      raise PyRaise("AttributeError", (obj.name + "." + name,), node)
    if isinstance(obj, ExtModule):
      return self.lib.ext_getattr(self, obj.name, name)
    if isinstance(obj, ExtAttr):
      return self.lib.ext_getattr(self, obj.path, name)
    if isinstance(obj, (FuncVal, Builtin)):
      if name == "__name__":
        return obj.name
      raise PyRaise("AttributeError", (name,), node)
    if isinstance(obj, BoundMethod):
      if name == "__name__":
        return obj.func.name
      if name == "__self__":
        return obj.self_val
      raise PyRaise("AttributeError", (name,), node)
    if isinstance(obj, ExtClass):
      if name == "__name__":
        return obj.name.split(".")[-1]
      if name in obj.ns:
        return self.bind_attr(obj.ns[name], None, obj)
      raise PyRaise("AttributeError", (name,), node)
    if isinstance(obj, ExcVal):
      if name == "args":
        return tuple(obj.args)
      raise PyRaise("AttributeError", (name,), node)
    if isinstance(obj, Term):
      hook = self.lib.term_getattr(self, obj, name)
      if hook is not NotImplemented:
        return hook
      return Term("attr", (obj, name))
    hook = self.lib.value_getattr(self, obj, name)
    if hook is not NotImplemented:
      return hook
    raise PyRaise("AttributeError", ("%s on %r" % (name, type(obj).__name__),), node)

  def bind_attr(self, v, inst, cls):
    if isinstance(v, FuncVal):
      if v.kind == "staticmethod":
        return v
      if v.kind == "classmethod":
        return BoundMethod(cls, v)
      if v.kind == "property":
        if inst is None:
          return v
        return self.call_func(v, [inst], {})
      if inst is not None:
        return BoundMethod(inst, v)
      return v
    if isinstance(v, Builtin) and getattr(v, "is_method", False) and inst is not None:
      return BoundMethod(inst, v)
    if isinstance(v, _Poison):
      raise Unsupported(v.why)
    return v

  def hasattr(self, obj, name):
    try:
      self.getattr(obj, name)
      return True
    except PyRaise as e:
      if e.name == "AttributeError":
        return False
      raise

  def setattr(self, obj, name, v):
    if isinstance(obj, Obj):
      if isinstance(obj.cls, ClassVal):
        pv, _ = obj.cls.lookup(name)
        if isinstance(pv, FuncVal) and pv.kind == "property":
          raise Unsupported("assignment to property %s" % name)
      had = name in obj.attrs
      old = obj.attrs.get(name)
      if not self.loading:
        self.log_write(obj, name, old, had)
      obj.attrs[name] = v
      return
    if isinstance(obj, ClassVal):
      had = name in obj.ns
      if not self.loading:
        self.log_write(obj, name, obj.ns.get(name), had)
      obj.ns[name] = v
      return
    if isinstance(obj, ModuleVal):
      had = name in obj.env.vars
      if not self.loading:
        self.log_write(obj, name, obj.env.vars.get(name), had)
      obj.env.vars[name] = v
      return
    raise Unsupported("setattr on %r" % (obj,))

  def getitem(self, obj, idx):
    if isinstance(obj, (list, tuple, str, range)):
      if isinstance(idx, slice):
        if any(is_sym(x) for x in (idx.start, idx.stop, idx.step)):
          raise Unsupported("symbolic slice")
        return obj[idx]
      if is_sym(idx):
        raise Unsupported("symbolic index")
      if isinstance(idx, (Term, Obj)):
        raise Unsupported("opaque index")
      try:
        return obj[idx]
      except IndexError:
        raise PyRaise("IndexError", (idx,))
      except TypeError as e:
        raise PyRaise("TypeError", (str(e),))
    if isinstance(obj, dict):
      if is_sym(idx):
        raise Unsupported("symbolic dictionary key")
      if isinstance(idx, (Obj, ClassVal, FuncVal)):
        for k, v in obj.items():
          if k is idx:
            return v
        raise PyRaise("KeyError", (idx,))
      try:
        return obj[idx]
      except KeyError:
        raise PyRaise("KeyError", (idx,))
      except TypeError:
        raise Unsupported("unhashable key %r" % (idx,))
    if isinstance(obj, Obj):
      if "__dict_items__" in obj.attrs:
        return self.lib.symdict_getitem(self, obj, idx)
      if isinstance(obj.cls, ClassVal):
        f, _ = obj.cls.lookup("__getitem__")
        if f is not None:
          return self.call(BoundMethod(obj, f), [idx], {})
      hook = self.lib.obj_getitem(self, obj, idx)
      if hook is not NotImplemented:
        return hook
      raise Unsupported("subscript of %r" % (obj,))
    if isinstance(obj, Term):
      return Term("getitem", (obj, idx))
    if isinstance(obj, SNum) and obj.pytype == "tensor":
      return obj
    hook = self.lib.value_getitem(self, obj, idx)
    if hook is not NotImplemented:
      return hook
    raise Unsupported("subscript of %r" % (obj,))

  def setitem(self, obj, idx, v):
    if isinstance(obj, (list, dict)):
      if is_sym(idx):
        raise Unsupported("symbolic index in store")
      if not self.loading:
        self.log_container(obj)
      if isinstance(obj, dict) and isinstance(idx, (Obj, ClassVal, FuncVal)):
        for k in list(obj):
          if k is idx:
            obj[k] = v
            return
      try:
        obj[idx] = v
      except IndexError:
        raise PyRaise("IndexError", (idx,))
      return
    if isinstance(obj, Obj) and "__dict_items__" in obj.attrs:
      return self.lib.symdict_setitem(self, obj, idx, v)
    raise Unsupported("item store on %r" % (obj,))

  def iterate(self, v):
    if isinstance(v, (list, tuple)):
      return list(v)
    if isinstance(v, (set, frozenset)):
      return sorted(v, key=repr)
    if isinstance(v, dict):
      return list(v.keys())
    if isinstance(v, str):
      return list(v)
    if isinstance(v, range):
      return list(v)
    if isinstance(v, (zip, enumerate, map, filter)):
      return list(v)
    if isinstance(v, Obj):
      if "__iter_items__" in v.attrs:
        return list(v.attrs["__iter_items__"])
      if isinstance(v.cls, ClassVal):
        f, _ = v.cls.lookup("__iter__")
        if f is not None:
          return self.iterate(self.call(BoundMethod(v, f), [], {}))
    hook = self.lib.value_iterate(self, v)
    if hook is not NotImplemented:
      return hook
    raise Unsupported("iteration over %r" % (v,))

  # ------------------------------------------------------------------ calls
  def call(self, f, args, kwargs, node=None):
    self.depth += 1
    if self.depth > 80:
      self.depth = 0
      raise Unsupported("recursion depth")
    try:
      return self._call(f, args, kwargs, node)
    finally:
      self.depth -= 1

  def _call(self, f, args, kwargs, node):
    if isinstance(f, FuncVal):
      return self.call_func(f, args, kwargs)
    if isinstance(f, BoundMethod):
      if isinstance(f.func, Builtin):
        return f.func.fn(self, f.self_val, *args, **kwargs)
      return self.call_func(f.func, [f.self_val] + list(args), kwargs)
    if isinstance(f, Builtin):
      return f.fn(self, *args, **kwargs)
    if isinstance(f, ClassVal):
      return self.instantiate(f, args, kwargs)
    if isinstance(f, ExcClass):
      return ExcVal(f, args)
    if isinstance(f, ExtClass):
      ctor = f.ns.get("__new__")
      if ctor is not None:
        return ctor.fn(self, *args, **kwargs)
      if self.term_mode:
        return Term(f.name, args, kwargs)
      raise Unsupported("construction of external class %s" % f.name)
    if isinstance(f, Obj):
      if isinstance(f.cls, ClassVal):
        m, _ = f.cls.lookup("__call__")
        if m is not None:
          return self.call(self.bind_attr(m, f, f.cls), args, kwargs)
      hook = self.lib.obj_call(self, f, args, kwargs)
      if hook is not NotImplemented:
        return hook
      raise Unsupported("call of object %r" % (f,))
    if isinstance(f, ExtAttr):
      if f.path.startswith("np.") and _all_concrete_np(list(args) + list(kwargs.values())):
        # concrete numpy call on concrete arguments (arrays, numbers, tuples): executed by numpy itself
        import numpy as _np
        fn = _np
        try:
          for part in f.path.split(".")[1:]:
            fn = getattr(fn, part)
          return fn(*args, **kwargs)
        except Exception as e:  # pylint: disable=broad-except
          raise PyRaise(type(e).__name__, (str(e),))
      if self.term_mode:
        if f.path.endswith("serialize") and args and args[0] is None:
          return None                      # Keras: serialize(None) / deserialize(None) is None
        if f.path.split(".")[-2:] in (["constraints", "get"], ["regularizers", "get"], ["initializers", "get"]) \
            and args and args[0] is None:
          return None                      # Keras: constraints/regularizers/initializers.get(None) is None
        return Term(f.path, args, kwargs)
      raise Unsupported("call of unmodelled library function %s" % f.path)
    if isinstance(f, Term):
      hooks = getattr(self, "term_hooks", None)
      if hooks and f.op == "attr" and f.args[1] in hooks:
        return hooks[f.args[1]](self, f.args[0], args, kwargs)
      return Term("call", (f,) + tuple(args), kwargs)
    if isinstance(f, _PyMethod):
      return f(self, args, kwargs)
    if f is None:
      raise PyRaise("TypeError", ("'NoneType' object is not callable",))
    raise Unsupported("call of %r" % (f,))

  def instantiate(self, cls, args, kwargs):
    obj = Obj(cls)
    init, owner = cls.lookup("__init__")
    if isinstance(init, FuncVal):
      self.call_func(init, [obj] + list(args), kwargs)
    elif isinstance(init, Builtin):
      init.fn(self, obj, *args, **kwargs)
    elif args or kwargs:
      raise PyRaise("TypeError", ("%s() takes no arguments" % cls.name,))
    return obj

  def call_func(self, fv, args, kwargs):
    key = (fv.module.name if fv.module else "?") + "::" + fv.qualname()
    self.functions_touched[key] = fv
    ov = self.overrides.get(key)
    if ov is not None:
      r = ov(self, fv, args, kwargs)
      if r is not NotImplemented:
        return r
    env = Env(parent=fv.env, module=fv.module, func=fv)
    if getattr(fv, "_locals", None) is None:
      fv._locals = local_names(fv.node)
    env.locals = fv._locals
    self.bind_params(fv, args, kwargs, env)
    node = fv.node
    if isinstance(node, ast.Lambda):
      return self.eval(node.body, env)
    self.frames.append(fv)
    try:
      self.exec_block(node.body, env)
    except _Return as r:
      return r.value
    finally:
      self.frames.pop()
    return None

  def bind_params(self, fv, args, kwargs, env):
    a = fv.node.args
    pos = a.posonlyargs + a.args
    npos = len(pos)
    args = list(args)
    kwargs = dict(kwargs)
    ndef = len(fv.defaults)
    for i, p in enumerate(pos):
      if i < len(args):
        if p.arg in kwargs:
          raise PyRaise("TypeError", ("%s() got multiple values for argument '%s'" % (fv.name, p.arg),))
        env.vars[p.arg] = args[i]
      elif p.arg in kwargs:
        env.vars[p.arg] = kwargs.pop(p.arg)
      elif i >= npos - ndef:
        env.vars[p.arg] = fv.defaults[i - (npos - ndef)]
      else:
        raise PyRaise("TypeError", ("%s() missing required argument '%s'" % (fv.name, p.arg),))
    extra = args[npos:]
    if a.vararg is not None:
      env.vars[a.vararg.arg] = tuple(extra)
    elif extra:
      raise PyRaise("TypeError", ("%s() takes %d positional arguments but %d were given" % (fv.name, npos, len(args)),))
    for p, d in zip(a.kwonlyargs, fv.kw_defaults):
      if p.arg in kwargs:
        env.vars[p.arg] = kwargs.pop(p.arg)
      elif d is not None or True:
        env.vars[p.arg] = d
    if a.kwarg is not None:
      env.vars[a.kwarg.arg] = kwargs
    elif kwargs:
      raise PyRaise("TypeError", ("%s() got an unexpected keyword argument '%s'" % (fv.name, sorted(kwargs)[0]),))

  def call_special(self, obj, name, args):
    f, _ = obj.cls.lookup(name)
    if f is None:
      raise Unsupported("%s on %r" % (name, obj))
    return self.call(BoundMethod(obj, f), args, {})

  # ------------------------------------------------------------- utilities
  def deepcopy(self, v, memo=None):
    if memo is None:
      memo = {}
    if id(v) in memo:
      return memo[id(v)]
    if isinstance(v, Obj):
      if isinstance(v.cls, ClassVal):
        f, _ = v.cls.lookup("__deepcopy__")
        if f is not None:
          raise Unsupported("__deepcopy__")
      o = Obj(v.cls, label=v.label)
      memo[id(v)] = o
      for k, x in v.attrs.items():
        o.attrs[k] = self.deepcopy(x, memo)
      return o
    if isinstance(v, list):
      o = []
      memo[id(v)] = o
      o.extend(self.deepcopy(x, memo) for x in v)
      return o
    if isinstance(v, dict):
      o = {}
      memo[id(v)] = o
      for k, x in v.items():
        o[k] = self.deepcopy(x, memo)
      return o
    if isinstance(v, tuple):
      return tuple(self.deepcopy(x, memo) for x in v)
    if isinstance(v, set):
      return set(v)
    return v


def _all_concrete_np(vals):
  import numpy as _np
  ok = False
  for v in vals:
    if isinstance(v, _np.ndarray):
      ok = True
    elif isinstance(v, (int, float, bool, str)) or v is None:
      pass
    elif isinstance(v, (tuple, list)):
      if not all(isinstance(x, (int, float, bool, _np.ndarray, tuple, list)) for x in v):
        return False
      if any(isinstance(x, (list, tuple)) and not _all_plain(x) for x in v):
        return False
      ok = ok or _all_plain(v)
    else:
      return False
  return ok


def _all_plain(v):
  import numpy as _np
  if isinstance(v, (list, tuple)):
    return all(_all_plain(x) for x in v)
  return isinstance(v, (int, float, bool, _np.ndarray))


def _sstr_may_contain(pieces, needle):
  """Over-approximation: can needle occur in the string, if every str(value) piece may be any text over
  the alphabet of Python's number/bool/None printing?  (False => the substring test is definitely False.)"""
  numeric = set("0123456789.-+einfaNoTrueFls")
  segs = [p if isinstance(p, str) else None for p in pieces]
  # states: (segment index, offset in concrete segment); simulate all start positions
  def closure(states):
    out, todo = set(), list(states)
    while todo:
      st = todo.pop()
      if st in out:
        continue
      out.add(st)
      i, o = st
      if i < len(segs):
        if segs[i] is None:
          todo.append((i + 1, 0))            # wildcard may be empty / end here
        elif o == len(segs[i]):
          todo.append((i + 1, 0))
    return out
  starts = set()
  for i, sg in enumerate(segs):
    if sg is None:
      starts.add((i, 0))
    else:
      for o in range(len(sg) + 1):
        starts.add((i, o))
  cur = closure(starts)
  for ch in needle:
    nxt = set()
    for i, o in cur:
      if i >= len(segs):
        continue
      if segs[i] is None:
        if ch in numeric:
          nxt.add((i, 0))
      elif o < len(segs[i]) and segs[i][o] == ch:
        nxt.add((i, o + 1))
    cur = closure(nxt)
    if not cur:
      return False
  return True


class _Super(object):

  def __init__(self, self_val, cls):
    self.self_val = self_val
    self.cls = cls


class _Poison(object):

  def __init__(self, why):
    self.why = why


class _PyMethod(object):
  """Bound method of a concrete Python container, applied through the interpreter."""

  def __init__(self, recv, name):
    self.recv = recv
    self.name = name

  def __call__(self, ip, args, kwargs):
    return ip.lib.container_method(ip, self.recv, self.name, args, kwargs)


def _assigned_names(st):
  out = []
  if isinstance(st, ast.Assign):
    for t in st.targets:
      for n in ast.walk(t):
        if isinstance(n, ast.Name):
          out.append(n.id)
  elif isinstance(st, (ast.FunctionDef, ast.ClassDef)):
    out.append(st.name)
  elif isinstance(st, (ast.Import, ast.ImportFrom)):
    for a in st.names:
      out.append((a.asname or a.name).split(".")[0])
  elif isinstance(st, ast.AnnAssign) and isinstance(st.target, ast.Name):
    out.append(st.target.id)
  return out


def _contains_sym(v):
  if is_sym(v) or isinstance(v, (Term, Obj)):
    return True
  if isinstance(v, (list, tuple)):
    return any(_contains_sym(x) for x in v)
  return False


_EXC_PARENTS = {
    "AssertionError": "Exception", "ValueError": "Exception",
    "TypeError": "Exception", "KeyError": "LookupError",
    "IndexError": "LookupError", "LookupError": "Exception",
    "AttributeError": "Exception", "NameError": "Exception",
    "ZeroDivisionError": "ArithmeticError", "ArithmeticError": "Exception",
    "SyntaxError": "Exception", "NotImplementedError": "RuntimeError",
    "RuntimeError": "Exception", "ImportError": "Exception",
    "StopIteration": "Exception", "OverflowError": "ArithmeticError",
    "Exception": "BaseException", "UnboundLocalError": "NameError",
}


def _exc_is(builtins, name, parent):
  while name is not None:
    if name == parent:
      return True
    name = _EXC_PARENTS.get(name, "Exception" if name not in ("Exception", "BaseException") else (
        "BaseException" if name == "Exception" else None))
  return False
