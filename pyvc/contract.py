"""Contract cases, obligations and the worker that discharges them."""
import collections
import os
import time
import traceback

import z3

from . import interp as I
from . import lib as L
from . import vc as VC
from .values import *  # noqa

REPO = os.environ.get("QKERAS_VERIF_REPO", "/repo")


class Scen(object):
  """What a scenario returns for one path."""

  def __init__(self):
    self.goals = collections.OrderedDict()   # name -> (kind, goal)
    self.vars = {}                           # name -> z3 expr (inputs, for witnesses)
    self.hints = []
    self.info = {}
    self.splits = []
    self.seeds = []           # extra terms to instantiate axiom schemata on
    self.mono = []
    self.cong = []
    self.replay = None        # {'class': name, 'kwargs': {k: python value | z3 expr}, ...}
    self.abstract = []        # [(z3 term, fresh constant)]: generalise the term in every formula of the VC

  def claim(self, name, goal):
    self.goals[name] = ("claim", goal)

  def lemma(self, name, goal):
    self.goals[name] = ("lemma", goal)

  def canary(self, name, goal):
    """A deliberately false clause: the engine must refute it."""
    self.goals[name] = ("canary", goal)


class Case(object):

  def __init__(self, prop, target, name, scenario, bounds=None, replay_kind=None,
               timeout_ms=None, max_paths=4000, assumptions=(), lo=-40, hi=40, term_mode=False,
               setup=None, precise_ties=False, bounded=None):
    self.prop = prop
    self.target = target
    self.name = name
    self.scenario = scenario
    self.bounds = bounds            # callable(vars) -> list of z3 constraints for concretisation
    self.replay_kind = replay_kind
    self.timeout_ms = timeout_ms
    self.max_paths = max_paths
    self.assumptions = list(assumptions)
    self.lo, self.hi = lo, hi
    self.term_mode = term_mode
    self.setup = setup
    self.precise_ties = precise_ties
    self.bounded = bounded          # None, or the stated bound: the case is a bounded stand-in, never counted as proved

  @property
  def id(self):
    return "%s/%s/%s" % (self.prop, self.target, self.name)


def new_interp():
  ip = I.Interp(os.environ.get("QKERAS_VERIF_REPO", REPO), L)
  return ip


def run_call(ip, f, args=(), kwargs=None):
  """Call through the interpreter, catching Python-level exceptions of the program."""
  try:
    return ("return", ip.call(f, list(args), dict(kwargs or {})))
  except PyRaise as e:
    return ("raise", e)


def eval_exclude(expr, vars_):
  env = {"And": z3.And, "Or": z3.Or, "Not": z3.Not, "Implies": z3.Implies, "If": z3.If,
         "true": z3.BoolVal(True), "false": z3.BoolVal(False),
         "ipow2": I.IPOW2, "pow2": I.POW2, "eps": zreal(1e-07)}
  env.update(vars_)
  return eval(expr, {"__builtins__": {}}, env)  # our own committed file, not repo input


def _goal_expr(g):
  if isinstance(g, bool):
    return z3.BoolVal(g)
  if isinstance(g, SBool):
    return g.e
  return g


def _eval_replay(model, spec):
  if spec is None:
    return None
  def ev(v):
    if isinstance(v, z3.ExprRef):
      return VC.model_value(model, v)
    if isinstance(v, SNum) or isinstance(v, SBool):
      return VC.model_value(model, v.e)
    if isinstance(v, dict):
      return {k: ev(x) for k, x in v.items()}
    if isinstance(v, (list, tuple)):
      return [ev(x) for x in v]
    return v
  return ev(spec)


def _witness(model, vars_):
  out = {}
  for k, e in vars_.items():
    try:
      out[k] = VC.model_value(model, e)
    except Exception:  # pylint: disable=broad-except
      out[k] = "?"
  return out


def run_case(case, tier, known):
  """Execute one case: explore paths, build and discharge the VCs.

  known: {clause name: [known-finding entries]} for this case id.
  Returns a picklable dict.
  """
  t0 = time.time()
  timeout = case.timeout_ms or (10000 if tier == "quick" else 60000)
  res = {"case": case.id, "prop": case.prop, "target": case.target, "name": case.name,
         "clauses": {}, "paths": 0, "error": None, "undecided_reason": None,
         "functions": {}, "lib_used": [], "notes": [], "samples": [], "cover": "ok",
         "replay_kind": case.replay_kind, "assumptions": case.assumptions,
         "bounded": case.bounded, "native_probes": []}
  L.USED.clear()
  L.PRECISE_TIES[0] = bool(getattr(case, "precise_ties", False))
  import pyvc.values as _V
  _V.STRICT_SHAPES[0] = False
  try:
    ip = new_interp()
    ip.term_mode = case.term_mode
    if case.setup:
      case.setup(ip)
    per_path = []

    def scen(ip_):
      s = case.scenario(ip_)
      return s
    paths = ip.explore(scen, max_paths=case.max_paths, partial_unsupported=True)
    unsup = [p for p in paths if p.outcome == "unsupported"]
    paths = [p for p in paths if p.outcome != "unsupported"]
    res["paths"] = len(paths)
    if unsup and not paths:
      raise Unsupported(unsup[0].value)
    for key, fv in ip.functions_touched.items():
      res["functions"][key] = ip.source_sha(fv)
    res["lib_used"] = sorted(L.USED)
    if not paths:
      res["cover"] = "vacuous"
      res["undecided_reason"] = "no feasible path (contradictory requires?)"
      return res
    for p in paths:
      if p.outcome == "raise":
        # the scenario itself did not catch: every clause fails on this path
        per_path.append((p, None))
      else:
        per_path.append((p, p.value))
      res["notes"].extend(p.notes)
      if p.outcome == "return" and p.value is not None and p.value.info.get("native_probes"):
        for pr in p.value.info["native_probes"]:
          if pr not in res["native_probes"]:
            res["native_probes"].append(pr)
      if p.outcome == "return" and p.value is not None and p.value.info.get("raised"):
        res["notes"].append("raised: " + p.value.info["raised"])
    clause_names = []
    for p, s in per_path:
      if s is not None:
        for n in s.goals:
          if n not in clause_names:
            clause_names.append(n)
    if not clause_names:
      res["undecided_reason"] = "scenario produced no clause on any path: " + "; ".join(
          str(p.value) for p, s in per_path if s is None)[:400]
      return res
    any_cover = False
    for p, s in per_path:
      ax = VC.all_axioms(list(p.pc), s.hints if s is not None else ())
      o = VC.check_sat(list(p.pc) + ax, 3000, use_external=False)
      if o.status != "unsat":
        any_cover = True
        break
    if not any_cover:
      res["cover"] = "vacuous"
    budget = float(os.environ.get("PYVC_CASE_BUDGET_S", "300" if tier == "quick" else "1500"))
    res["deadline"] = t0 + budget
    for cname in clause_names:
      if time.time() - t0 > budget:
        # wall-clock budget of the case exhausted: the remaining clauses stay undecided (never a violation)
        res["clauses"][cname] = {"kind": "claim", "status": "unknown", "vcs": 0, "seconds": 0.0, "solvers": {},
                                 "witness": None, "model_raw": None, "known": [], "path": None, "probe": None,
                                 "reason": "case wall-clock budget (%ds) exhausted before this clause" % budget}
        continue
      res["clauses"][cname] = _run_clause(case, cname, per_path, timeout, known.get(cname, []), res)
      if unsup and res["clauses"][cname]["status"] == "discharged":
        # some paths left the fragment: nothing is proved for the clause (a replayed failure on a supported path stands)
        res["clauses"][cname]["status"] = "unknown"
        res["clauses"][cname]["reason"] += " unsupported on %d path(s): %s" % (len(unsup), str(unsup[0].value)[:300])
  except Unsupported as e:
    res["undecided_reason"] = "unsupported: %s" % e
  except Exception as e:  # pylint: disable=broad-except
    res["error"] = "%s: %s\n%s" % (type(e).__name__, e, traceback.format_exc()[-2000:])
  res["wall_s"] = time.time() - t0
  return res


def _split_check(residual, atoms, timeout, first):
  """Prove residual unsat by splitting on atoms (all branches must be unsat).
  Sound: the branches cover all cases.  Returns an Outcome."""
  total = first.seconds
  work = [(residual, list(atoms))]
  solver = first.solver
  while work:
    cs, rest = work.pop()
    o = VC.check_sat(cs, timeout, use_external=not rest)
    total += o.seconds
    solver = o.solver
    if o.status == "unsat":
      continue
    if o.status == "sat":
      o.seconds = total
      return o
    if not rest:
      o.seconds = total
      return o
    a = rest[0]
    work.append((cs + [a], rest[1:]))
    work.append((cs + [z3.Not(a)], rest[1:]))
  return VC.Outcome("unsat", solver + "+split", total)


def _run_clause(case, cname, per_path, timeout, known_entries, res):
  out = {"kind": None, "status": "discharged", "vcs": 0, "seconds": 0.0, "solvers": {},
         "witness": None, "model_raw": None, "reason": "", "known": [], "path": None, "probe": None}
  for p, s in per_path:
    if time.time() > res.get("deadline", float("inf")) and out["status"] != "failed":
      out["status"] = "unknown"
      out["reason"] += " case wall-clock budget exhausted before every path of this clause was examined"
      break
    if s is None:
      kind, g = out["kind"] or "claim", z3.BoolVal(False)
      vars_, hints = {}, []
      out["reason"] = "uncaught %s" % (p.value,)
    else:
      if cname not in s.goals:
        continue
      kind, g = s.goals[cname]
      vars_, hints = s.vars, s.hints
    out["kind"] = kind
    if g is False and s is not None and s.info.get("raised"):
      out["reason"] += " " + str(s.info["raised"])[:1500]
    g = _goal_expr(g)
    base = list(p.pc) + [z3.Not(g)]
    pairs = list(getattr(s, "abstract", []) or []) if s is not None else []
    if pairs:
      # generalisation: a sub-term is replaced by a fresh constant in the WHOLE VC (hypotheses and goal);
      # validity of the generalised VC implies validity of the original (it is a substitution instance)
      gen = lambda f: z3.substitute(f, *pairs) if isinstance(f, z3.ExprRef) else f
      base = [gen(f) for f in base]
      hints = [gen(h) for h in hints]
      vars_ = {k: gen(v) for k, v in vars_.items()}
    excl = []
    for ent in known_entries:
      try:
        excl.append((ent, eval_exclude(ent["exclude"], vars_)))
      except Exception as e:  # pylint: disable=broad-except
        out["reason"] += " known-finding exclude failed to evaluate: %s" % e
    seeds = [t == t for t in (getattr(s, 'seeds', []) if s is not None else [])]
    ax = VC.all_axioms(base + [x for _, x in excl] + seeds, hints)
    for (cx, ca, cb) in (getattr(s, "cong", []) if s is not None else []):
      # congruence of multiplication: a == b  =>  x*a == x*b   (valid in any ring)
      ax.append(z3.Implies(ca == cb, cx * ca == cx * cb))
    for (ma, mb, mc) in (getattr(s, "mono", []) if s is not None else []):
      # ordered-field fact: a <= b and c >= 0  =>  a*c <= b*c   (valid for all reals)
      ax.append(z3.Implies(z3.And(ma <= mb, mc >= 0), ma * mc <= mb * mc))
    residual = base + ax + [z3.Not(x) for _, x in excl]
    o = VC.check_sat(residual, timeout)
    if o.status == "unknown":
      # case-split on the atoms of the excluded regions and on contract-supplied split terms
      atoms = []
      for _, x in excl:
        atoms.extend(x.children() if z3.is_and(x) else [x])
      atoms.extend(getattr(s, "splits", []) if s is not None else [])
      o = _split_check(residual, atoms, timeout, o)
    out["vcs"] += 1
    out["seconds"] += o.seconds
    out["solvers"][o.solver] = out["solvers"].get(o.solver, 0) + 1
    if len(res["samples"]) < 2 and o.status == "unsat" and kind != "canary":
      sv = z3.Solver()
      for c in residual:
        sv.add(c)
      res["samples"].append({"obligation": case.id + "/" + cname, "result": "unsat",
                             "smt2_head": sv.to_smt2()[:1500]})
    if o.status == "sat":
      bounds = case.bounds(vars_) if case.bounds else []
      conc = VC.concretise_constraints(residual, case.lo, case.hi)
      o2 = VC.check_sat(residual + conc + bounds, max(timeout, 20000), use_external=False)
      out["seconds"] += o2.seconds
      if o2.status == "sat":
        out["status"] = "failed"
        out["witness"] = _witness(o2.model, vars_)
        if s is not None and s.replay is not None:
          out["witness"]["__replay__"] = _eval_replay(o2.model, s.replay)
        out["model_raw"] = str(o2.model)[:3000]
        out["path"] = p.decisions
        break
      else:
        if out["status"] != "failed":
          out["status"] = "unknown"
          out["reason"] += " counter-model could not be concretised (%s): %s" % (
              o2.status, str(o.model)[:300])
    elif o.status == "unknown":
      if out["status"] != "failed":
        out["status"] = "unknown"
        out["reason"] += " solver: %s" % o.reason
        if s is not None and s.replay is not None and out.get("probe") is None:
          # no counter-model: offer the native side a concrete configuration of this path to probe
          bounds = case.bounds(vars_) if case.bounds else []
          pm = VC.check_sat(list(p.pc) + bounds, 5000, use_external=False)
          if pm.status == "sat":
            wp = _witness(pm.model, vars_)
            wp["__replay__"] = _eval_replay(pm.model, s.replay)
            out["probe"] = wp
    # confirm each known finding still reproduces (on some path)
    for ent, x in excl:
      if any(k["id"] == ent["id"] for k in out["known"]):
        continue
      bounds = case.bounds(vars_) if case.bounds else []
      conc = VC.concretise_constraints(base + ax + [x], case.lo, case.hi)
      ok = VC.check_sat(base + ax + [x] + conc + bounds, max(timeout, 20000), use_external=False)
      out["seconds"] += ok.seconds
      if ok.status == "sat":
        wk = _witness(ok.model, vars_)
        if s is not None and s.replay is not None:
          wk["__replay__"] = _eval_replay(ok.model, s.replay)
        out["known"].append({"id": ent["id"], "what": ent["what"], "witness": wk})
  return out
