"""check <ID> quick|thorough : discharge all obligations of one property.

Exit codes: 0 held (known findings allowed), 1 violation, 2 undecided/vacuous,
3 checker crash.  Only a counter-model that was concretised and (where a native
replayer exists) confirmed on the real code becomes a VIOLATION.
"""
import hashlib
import importlib
import json
import multiprocessing
import os
import re
import subprocess
import sys
import time

VERIF = os.path.dirname(os.path.dirname(os.path.abspath(__file__)))
sys.path.insert(0, VERIF)

from pyvc import contract as C  # noqa: E402

_CASES = []
_KNOWN = {}
_TIER = "quick"


def _work(i):
  case = _CASES[i]
  return C.run_case(case, _TIER, _KNOWN.get(case.id, {}))


def slug(s):
  h = hashlib.sha1(s.encode()).hexdigest()[:8]
  return re.sub(r"[^A-Za-z0-9_.-]+", "_", s)[-120:] + "_" + h


def load_known(prop):
  path = os.path.join(VERIF, "known_findings.json")
  by_case = {}
  findings = {}
  fixed = []
  if os.path.exists(path):
    data = json.load(open(path))
    for f in data.get("findings", []):
      if f["property"] != prop:
        continue
      findings[f["id"]] = f
      for ent in f["entries"]:
        ob = ent["obligation"]
        case_id, clause = ob.rsplit("/", 1)
        by_case.setdefault(case_id, {}).setdefault(clause, []).append(
            {"id": f["id"], "what": f["what"], "exclude": ent["exclude"]})
    fixed = [x for x in data.get("fixed", []) if x.startswith("fixed: property=%s " % prop)]
  return by_case, findings, fixed


def repo_root():
  return os.environ.get("QKERAS_VERIF_REPO", "/repo")


def native_replay(files):
  if not files:
    return
  env = dict(os.environ)
  env["QKERAS_VERIF_REPO"] = repo_root()
  env["PYTHONPATH"] = repo_root() + os.pathsep + env.get("PYTHONPATH", "")
  env.setdefault("TF_CPP_MIN_LOG_LEVEL", "3")
  env.setdefault("CUDA_VISIBLE_DEVICES", "")
  cmd = ["/venv/bin/python", os.path.join(VERIF, "native", "replay.py")] + files
  try:
    p = subprocess.run(cmd, capture_output=True, text=True, timeout=3000, env=env, cwd=VERIF)
    if p.returncode != 0:
      sys.stderr.write("native replay failed (%d): %s\n" % (p.returncode, p.stderr[-2000:]))
  except subprocess.TimeoutExpired:
    sys.stderr.write("native replay timed out\n")


def main(argv):
  global _CASES, _KNOWN, _TIER
  t0 = time.time()
  if len(argv) < 2:
    print("usage: check <ID> quick|thorough [--only PATTERN] [--replay FILE] [--jobs N]")
    return 3
  prop = argv[0].upper()
  tier = argv[1]
  tier = os.environ.get("VERIF_TIER", tier) if tier not in ("quick", "thorough") else tier
  only = None
  jobs = int(os.environ.get("PYVC_JOBS", "16"))
  replay_only = None
  i = 2
  while i < len(argv):
    if argv[i] == "--only":
      only = argv[i + 1]
      i += 2
    elif argv[i] == "--jobs":
      jobs = int(argv[i + 1])
      i += 2
    elif argv[i] == "--replay":
      replay_only = argv[i + 1]
      i += 2
    else:
      i += 1
  seed = int(os.environ.get("VERIF_SEED", "0"))
  if replay_only:
    native_replay([replay_only])
    d = json.load(open(replay_only))
    st = d.get("native", {}).get("status")
    print("replay %s: %s" % (replay_only, st))
    if st == "confirmed":
      print("VIOLATION property=%s replay=%s" % (d.get("property", prop), replay_only))
      return 1
    return 0
  _TIER = tier
  try:
    mod = importlib.import_module("contracts." + prop.lower())
    cases = mod.cases(tier)
  except Exception as e:  # pylint: disable=broad-except
    import traceback
    traceback.print_exc()
    print("checker crash while building contracts: %s" % e)
    return 3
  if only:
    cases = [c for c in cases if only in c.id]
  _CASES = cases
  _KNOWN, findings, fixed = load_known(prop)
  if not cases:
    print("no obligations generated: vacuous run")
    return 2
  os.makedirs(os.path.join(VERIF, "replay"), exist_ok=True)
  os.makedirs(os.path.join(VERIF, "evidence"), exist_ok=True)
  os.makedirs(os.path.join(VERIF, ".work"), exist_ok=True)
  ctx = multiprocessing.get_context("fork")
  # hard wall-clock guard: z3's own timeout is cooperative and can overshoot by a large factor on nonlinear queries; a
  # worker that exceeds the limit is abandoned (its case becomes UNDECIDED, never a violation) and killed with the pool
  budget = float(os.environ.get("PYVC_CASE_BUDGET_S", "300" if tier == "quick" else "1500"))
  hard = float(os.environ.get("PYVC_HARD_LIMIT_S", budget * 2 + 180))

  def _stuck(i, what):
    c = cases[i]
    return {"case": c.id, "prop": c.prop, "target": c.target, "name": c.name, "clauses": {}, "paths": 0, "error": None,
            "undecided_reason": "hard wall-clock limit (%ds) exceeded %s; worker abandoned" % (hard, what),
            "functions": {}, "lib_used": [], "notes": [], "samples": [], "cover": "ok", "replay_kind": c.replay_kind,
            "assumptions": c.assumptions, "bounded": c.bounded, "native_probes": [], "wall_s": hard}

  def _run_all(idxs, what):
    out = {}
    pool = ctx.Pool(min(jobs, max(1, len(idxs))))
    try:
      pend = [(i, pool.apply_async(_work, (i,))) for i in idxs]
      t_start = time.time()
      n_workers = min(jobs, max(1, len(idxs)))
      # cases queue behind each other: the limit for the whole batch is the per-case limit times the number of rounds
      limit = hard * (1 + (len(idxs) - 1) // n_workers)
      for i, ar in pend:
        try:
          out[i] = ar.get(timeout=max(1.0, t_start + limit - time.time()))
        except multiprocessing.TimeoutError:
          out[i] = _stuck(i, what)
    finally:
      pool.terminate()
      pool.join()
    return out
  res_map = _run_all(list(range(len(cases))), "in the main pass")
  results = [res_map[i] for i in range(len(cases))]
  # a clause the solver left undecided while all workers were busy is retried once, alone (in a fresh worker),
  # with four times the budget: solver timeouts must not flip a verdict because the machine was loaded
  retry = [i for i, r in enumerate(results)
           if not r["error"] and not r["undecided_reason"]
           and 1 <= sum(1 for c in r["clauses"].values() if c["status"] == "unknown") <= 2
           and not any("budget" in c["reason"] for c in r["clauses"].values())
           and not any(c["status"] == "failed" for c in r["clauses"].values())]
  t_retry = time.time()
  for i in retry[:4]:
    if time.time() - t_retry > (300 if tier == "quick" else 1200):
      break                      # the retries share one wall-clock budget
    base = cases[i].timeout_ms or (10000 if tier == "quick" else 60000)
    saved = (cases[i].timeout_ms, cases[i].precise_ties)
    cases[i].timeout_ms = base * 4
    # a counter-model that exists only AT a rounding tie cannot be concretised while ties are left unspecified:
    # the retry models tf.round's half-to-even exactly, so such a model becomes a replayable witness (or disappears)
    if any("could not be concretised" in c["reason"] for c in results[i]["clauses"].values()):
      cases[i].precise_ties = True
    try:
      r2 = _run_all([i], "in the retry")[i]      # forked AFTER the budget change: the child sees the larger timeout
    finally:
      cases[i].timeout_ms, cases[i].precise_ties = saved
    if not r2["error"] and not r2["undecided_reason"]:
      better = any(c["status"] == "failed" for c in r2["clauses"].values()) or \
          sum(1 for c in r2["clauses"].values() if c["status"] == "unknown") < \
          sum(1 for c in results[i]["clauses"].values() if c["status"] == "unknown")
      if better:
        r2["retried"] = True
        results[i] = r2

  crash = [r for r in results if r["error"]]
  obligations = discharged = 0
  undecided = []
  failed = []          # (result, clause name, clause dict)
  probes = []          # undecided clauses for which the native side can probe a concrete configuration
  known_hits = []      # (result, cname, known dict)
  canary_ok = canary_bad = 0
  vcs = 0
  solver_s = 0.0
  by_backend = {}
  functions = {}
  lib_used = set()
  assumptions = set()
  vacuous = []
  bounded_cases = {}
  for r in results:
    functions.update(r["functions"])
    lib_used.update(r["lib_used"])
    assumptions.update(r.get("assumptions", []))
    if r["cover"] == "vacuous":
      vacuous.append(r["case"])
    if r["undecided_reason"]:
      undecided.append((r["case"], r["undecided_reason"]))
      obligations += 1
      continue
    for cname, c in r["clauses"].items():
      vcs += c["vcs"]
      solver_s += c["seconds"]
      for k, v in c["solvers"].items():
        by_backend[k] = by_backend.get(k, 0) + v
      if c["kind"] == "canary":
        if c["status"] == "failed":
          canary_ok += 1
        else:
          canary_bad += 1
          undecided.append((r["case"] + "/" + cname, "canary not refuted: the engine failed to refute a deliberately false clause"))
        continue
      for k in c["known"]:
        known_hits.append((r, cname, k))
      if r.get("bounded"):
        b = bounded_cases.setdefault(r["case"], {"case": r["case"], "bound": r["bounded"], "clauses": 0, "held": 0})
        b["clauses"] += 1
        b["held"] += 1 if c["status"] == "discharged" else 0
      else:
        obligations += 1
      if c["status"] == "discharged":
        if not r.get("bounded"):
          discharged += 1
      elif c["status"] == "failed":
        failed.append((r, cname, c))
      else:
        if c.get("probe") is not None and r["replay_kind"]:
          probes.append((r, cname, c))
        else:
          undecided.append((r["case"] + "/" + cname, c["reason"][:500]))

  # ----- native replay of every counter-model (violations and known findings)
  jobs_files = []
  tree_sha = functions
  for r, cname, c in failed:
    ob = r["case"] + "/" + cname
    path = os.path.join(VERIF, "replay", slug(ob) + ".json")
    json.dump({"property": prop, "obligation": ob, "case": r["name"], "clause": cname,
               "kind": r["replay_kind"], "witness": c["witness"], "role": "violation",
               "solver": {"result": "sat", "concretised": True, "model": c["model_raw"]},
               "path_decisions": c["path"], "reason": c["reason"],
               "tree_sha": {k: v for k, v in r["functions"].items() if v}}, open(path, "w"), indent=1)
    c["replay_file"] = path
    if r["replay_kind"]:
      jobs_files.append(path)
  for r, cname, c in probes:
    ob = r["case"] + "/" + cname
    path = os.path.join(VERIF, "replay", "probe_" + slug(ob) + ".json")
    json.dump({"property": prop, "obligation": ob, "case": r["name"], "clause": cname,
               "kind": r["replay_kind"], "witness": c["probe"], "role": "probe",
               "solver": {"result": "unknown", "reason": c["reason"][:500]},
               "note": "the solver could not decide this obligation; the native side probes the clause on concrete inputs for the configuration above (a bounded search, labelled as such)"},
              open(path, "w"), indent=1)
    c["replay_file"] = path
    jobs_files.append(path)
  # bounded native probes requested by contracts (clauses the symbolic side cannot express, e.g. IEEE non-finite values):
  # the native replayer searches a fixed family of concrete inputs; a hit is a violation with a real failing input,
  # no hit is recorded as a bounded stand-in (never counted as proved)
  probe_jobs = []
  for r in results:
    for pr in r.get("native_probes", []):
      ob = r["case"] + "/" + pr["clause"]
      path = os.path.join(VERIF, "replay", "bounded_" + slug(ob) + ".json")
      json.dump({"property": prop, "obligation": ob, "case": r["name"], "clause": pr["clause"], "kind": pr["kind"],
                 "witness": pr["witness"], "role": "bounded-probe", "bound": pr["bound"]}, open(path, "w"), indent=1)
      probe_jobs.append((r, pr, path))
      jobs_files.append(path)
  seen_known = {}
  if tier == "quick":
    # quick: replay natively one witness per finding; thorough: every obligation's witness
    first = {}
    for hit in known_hits:
      first.setdefault(hit[2]["id"], hit)
    rest = [h for h in known_hits if first[h[2]["id"]] is not h]
    known_hits = list(first.values())
  else:
    rest = []
  for r, cname, k in known_hits:
    ob = r["case"] + "/" + cname
    path = os.path.join(VERIF, "replay", "known_" + slug(k["id"] + "@" + ob) + ".json")
    json.dump({"property": prop, "obligation": ob, "case": r["name"], "clause": cname,
               "kind": r["replay_kind"], "witness": k["witness"], "role": "known-finding",
               "finding": k["id"], "what": k["what"]}, open(path, "w"), indent=1)
    k["replay_file"] = path
    if r["replay_kind"]:
      jobs_files.append(path)
  native_replay(jobs_files)

  violations = []
  for r, cname, c in failed:
    d = json.load(open(c["replay_file"]))
    nat = d.get("native", {}).get("status")
    if not r["replay_kind"] or nat in (None, "unsupported"):
      violations.append((r, cname, c, "no-failing-input-found"))
    elif nat == "confirmed":
      violations.append((r, cname, c, ""))
    elif nat == "refuted":
      undecided.append((r["case"] + "/" + cname,
                        "counter-model refuted by native replay (artefact of an assumption): %s" % json.dumps(c["witness"])))
    else:
      undecided.append((r["case"] + "/" + cname, "native replay error: %s" % d.get("native")))
  for r, cname, c in probes:
    d = json.load(open(c["replay_file"]))
    nat = d.get("native", {}).get("status")
    if nat == "confirmed":
      c["witness"] = c["probe"]
      violations.append((r, cname, c, ""))
    else:
      undecided.append((r["case"] + "/" + cname, "solver undecided and native probe found nothing (%s): %s" % (nat, c["reason"][:300])))
  for r, pr, path in probe_jobs:
    d = json.load(open(path))
    nat = d.get("native", {}).get("status")
    b = bounded_cases.setdefault(r["case"] + "/" + pr["clause"],
                                 {"case": r["case"] + "/" + pr["clause"], "bound": pr["bound"], "clauses": 1, "held": 0})
    if nat == "confirmed":
      c = {"witness": d.get("native", {}).get("observed"), "replay_file": path}
      violations.append((r, pr["clause"], c, ""))
    elif nat == "refuted":
      b["held"] = 1
    else:
      undecided.append((r["case"] + "/" + pr["clause"], "bounded native probe did not run: %s" % d.get("native")))
  known_confirmed = {}
  known_unconfirmed = []
  for r, cname, k in known_hits:
    d = json.load(open(k["replay_file"]))
    nat = d.get("native", {}).get("status")
    if nat == "confirmed" or (not r["replay_kind"]):
      known_confirmed.setdefault(k["id"], []).append((r["case"] + "/" + cname, k["witness"], d.get("native")))
    else:
      known_unconfirmed.append((k["id"], r["case"] + "/" + cname, d.get("native")))

  for fid, hits in sorted(known_confirmed.items()):
    print("KNOWN-FINDING: property=%s %s: %s [reproduced on %d obligation(s), e.g. %s with %s]" % (
        prop, fid, findings[fid]["what"], len(hits), hits[0][0].split("/")[-2] + "/" + hits[0][0].split("/")[-1],
        json.dumps(hits[0][1])))
  for r, cname, c, tag in violations:
    line = "VIOLATION property=%s replay=%s" % (prop, c["replay_file"])
    print("failed obligation: %s/%s witness=%s" % (r["case"], cname, json.dumps(c["witness"])))
    print(line + (" " + tag if tag else ""))
  for ob, why in undecided:
    print("UNDECIDED %s: %s" % (ob, why.replace("\n", " ")[:600]))
  for r in crash:
    print("CRASH %s: %s" % (r["case"], r["error"][-1500:]))
  for v in vacuous:
    print("VACUOUS %s" % v)

  # thorough: the arithmetic lemmas that contracts assume (L-prod, L-sum, L-vertex, L-mean, pow2 / mono / cong schemata)
  # are re-checked by Lean 4 + Mathlib when this property's contracts use them
  lean_info = None
  if tier == "thorough" and any(a.startswith("L-") or "L-prod" in a or "L-sum" in a or "L-mean" in a or "L-vertex" in a
                                for a in assumptions):
    lf = os.path.join(VERIF, "lean", "Lemmas.lean")
    tl = time.time()
    try:
      pr = subprocess.run(["lean", lf], capture_output=True, text=True, timeout=1800)
      ok = pr.returncode == 0 and "sorry" not in open(lf).read() and "error" not in (pr.stdout + pr.stderr)
      lean_info = {"file": lf, "status": "checked" if ok else "FAILED", "seconds": round(time.time() - tl, 1),
                   "output_tail": (pr.stdout + pr.stderr)[-400:]}
    except Exception as e:  # pylint: disable=broad-except
      lean_info = {"file": lf, "status": "not run: %s" % e, "seconds": round(time.time() - tl, 1)}
    if lean_info["status"] != "checked":
      undecided.append(("lean/Lemmas.lean", "assumed arithmetic lemmas could not be re-checked: %s" % lean_info["status"]))

  wall = time.time() - t0
  level = "proof" if (obligations == discharged and obligations > 0 and not violations) else "other"
  meta = getattr(mod, "META", {})
  ev = {
      "property_id": prop, "tier": tier, "seed": seed, "level": level,
      "wall_s": round(wall, 2), "violations": len(violations),
      "coverage": {
          "obligations": obligations, "discharged": discharged,
          "checker_cmd": "python3-vt /verif/pyvc/runner.py %s %s  (PyVC: AST symbolic execution of %s -> VCs -> %s)" % (
              prop, tier, repo_root(), ", ".join(sorted(by_backend)) or "z3"),
          "trusted_base": sorted(set(meta.get("trusted_base", [])) | set("library model: " + x for x in sorted(lib_used)) | assumptions),
          "explanation": meta.get("explanation", "") + " Obligations are (function x case x clause); "
                         "each is a set of per-path VCs discharged by the SMT back ends. Obligations listed under "
                         "known_finding_regions are discharged only OUTSIDE the input regions committed in known_findings.json.",
          "vcs": vcs, "cases": len(cases), "paths": sum(r["paths"] for r in results),
          "obligations_by_backend": by_backend, "solver_s": round(solver_s, 2),
          "canaries_refuted": canary_ok, "canaries_missed": canary_bad,
          "functions_under_contract": {k: v for k, v in sorted(functions.items()) if v and k.startswith("qkeras")},
          "known_finding_regions": sorted(set(ob for hits in known_confirmed.values() for ob, _, _ in hits)),
          "known_findings_confirmed": sorted(known_confirmed),
          "known_findings_not_reproduced": known_unconfirmed,
          "fixed": fixed,
          "undecided": [u[0] for u in undecided],
          "bounded": meta.get("bounded", []) + sorted(bounded_cases.values(), key=lambda b: b["case"]),
          "bounded_note": "cases listed under 'bounded' are bounded stand-ins (bound stated per case); their clauses are NOT included in obligations/discharged",
          "samples": [s for r in results for s in r["samples"]][:4] or [{"note": "no sample"}],
          "lean_lemmas": lean_info if lean_info is not None else {"file": os.path.join(VERIF, "lean", "Lemmas.lean"),
                                                                   "status": "not re-checked in this tier (thorough re-checks it)"},
      },
      "assumptions": sorted(set(meta.get("assumptions", [])) | assumptions),
  }
  if level != "proof":
    ev["coverage"]["evaluations"] = max(1, vcs)
    ev["coverage"]["distinct_nontrivial"] = max(2, obligations)
    ev["coverage"]["rule"] = "one evaluation = one VC (function x case x clause x path); distinct = obligations"
  # the evidence file describes a FULL run against /repo itself; partial (--only) runs and runs against a scratch
  # copy (QKERAS_VERIF_REPO) are written aside so that they can never replace it
  official = only is None and os.path.realpath(repo_root()) == os.path.realpath("/repo")
  ev_path = os.path.join(VERIF, "evidence", prop + ".json") if official else \
      os.path.join(VERIF, ".work", "evidence_partial_%s.json" % prop)
  json.dump(ev, open(ev_path, "w"), indent=1)
  print("%s %s: %d obligations, %d discharged, %d VCs, %d known findings reproduced, %d violations, %d undecided, %.1fs" % (
      prop, tier, obligations, discharged, vcs, len(known_confirmed), len(violations), len(undecided), wall))
  if crash:
    return 3
  if violations:
    return 1
  if undecided or vacuous or (obligations == 0 and not bounded_cases):
    return 2
  return 0


if __name__ == "__main__":
  sys.exit(main(sys.argv[1:]))
