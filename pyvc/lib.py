"""Library models ("assumed contracts of dependencies", DESIGN 2.4).

Every entry gives the meaning of one builtin / math / numpy / TensorFlow /
Keras-backend operator on the executor's value domain.  Element-wise tensor
operators act on ONE element (a z3 Real/Int term) and carry its derivative
with respect to the designated input element when one is being tracked.

This file is the trusted base A2; native/validate_axioms.py checks each
numeric rule against the real library on a grid.
"""
import ast
import math
from fractions import Fraction

import z3

from .values import *  # noqa
from . import interp as I

USED = set()          # names of library models used during the current run

LN2 = zreal(math.log(2.0))


def used(name):
  USED.add(name)


# ----------------------------------------------------------------- helpers
def R(e):
  return z3.ToReal(e) if e.sort() == z3.IntSort() else e


def is_num(v):
  return isinstance(v, (int, float, Fraction)) and not isinstance(v, bool)


def conc(v):
  return not is_sym(v) and not isinstance(v, (Term, Obj, ExtAttr))


def tensor_like(v):
  return isinstance(v, SNum) and v.pytype == "tensor" or isinstance(v, SBool) and v.pytype == "tensor"


def as_tensor(ip, v):
  """Lift a python number to a tensor element."""
  if isinstance(v, SNum):
    return SNum(v.e, "tensor", v.grad, v.tag)
  if isinstance(v, SBool):
    return SBool(v.e, "tensor")
  if isinstance(v, (int, float, Fraction, bool)):
    return SNum(ip.num(v), "tensor")
  return v


def grad0(v):
  return v.grad if isinstance(v, SNum) and v.grad is not None else None


def mk(e, like, grad=None):
  pt = "tensor" if any(tensor_like(x) for x in like) else None
  if pt is None:
    pt = "float" if e.sort() == z3.RealSort() else "int"
  return SNum(z3.simplify(e), pt, None if grad is None else z3.simplify(grad))


def fresh_floor(ip, x_e, name="floor"):
  if x_e.sort() == z3.IntSort():
    return x_e
  s = z3.simplify(x_e)
  if z3.is_rational_value(s):
    return z3.IntVal(math.floor(Fraction(s.numerator_as_long(), s.denominator_as_long())))
  r = I.FLR(x_e)
  ip.assume(z3.And(z3.ToReal(r) <= x_e, x_e < z3.ToReal(r) + 1))
  _bridge_log(ip, x_e, r, "floor")
  return r


def fresh_ceil(ip, x_e, name="ceil"):
  if x_e.sort() == z3.IntSort():
    return x_e
  s = z3.simplify(x_e)
  if z3.is_rational_value(s):
    return z3.IntVal(math.ceil(Fraction(s.numerator_as_long(), s.denominator_as_long())))
  r = I.CEL(x_e)
  ip.assume(z3.And(z3.ToReal(r) - 1 < x_e, x_e <= z3.ToReal(r)))
  _bridge_log(ip, x_e, r, "ceil")
  return r


def rnd_of(ip, x_e):
  """Round to nearest, ties unspecified: |rnd(x) - x| <= 1/2."""
  if x_e.sort() == z3.IntSort():
    return x_e
  r = I.RND(x_e)
  ip.assume(rnd_axiom_formula(x_e))
  _bridge_log(ip, x_e, r, "rnd")
  return r


PRECISE_TIES = [False]     # set per case: model tf.round's half-to-even tie rule (needed by C08 phase0)


def rnd_axiom_formula(x_e):
  """tf.round / np.round / round: nearest integer; with PRECISE_TIES also 'ties to the even integer'
  (otherwise ties are left unspecified, which is all C01-C03 need)."""
  r = I.RND(x_e)
  d = z3.ToReal(r) - x_e
  half = z3.RealVal("1/2")
  if PRECISE_TIES[0]:
    return z3.And(d <= half, -d <= half, z3.Implies(z3.Or(d == half, -d == half), r % 2 == 0))
  return z3.And(d <= half, -d <= half)


def _bridge_log(ip, x_e, r, kind):
  """If x_e is log2(t), relate the integer r to t through pow2 (definitional)."""
  if z3.is_app(x_e) and x_e.decl().name() == "log2":
    t = x_e.arg(0)
    if kind == "ceil":
      ip.assume(z3.And(I.POW2(r - 1) < t, t <= I.POW2(r)))
    elif kind == "floor":
      ip.assume(z3.And(I.POW2(r) <= t, t < I.POW2(r + 1)))
    else:
      # 2^(r-1/2) <= t <= 2^(r+1/2); stated with SQRT2 (SQRT2^2 = 2, SQRT2 > 0)
      s2 = z3.Real("SQRT2")
      ip.assume(z3.And(s2 > 0, s2 * s2 == 2, s2 > z3.RealVal("1414/1000"), s2 < z3.RealVal("1415/1000")))
      ip.assume(z3.And(I.POW2(r) <= t * s2, t <= I.POW2(r) * s2))


def trunc_int(ip, v):
  """Python int(v)."""
  if isinstance(v, bool):
    return int(v)
  if isinstance(v, (int, float, Fraction)):
    try:
      return int(v)
    except (OverflowError, ValueError):
      raise PyRaise("OverflowError", ())
  if isinstance(v, str):
    try:
      return int(v)
    except ValueError:
      raise PyRaise("ValueError", ("invalid literal for int()", v))
  if isinstance(v, SBool):
    return SNum(z3.If(v.e, z3.IntVal(1), z3.IntVal(0)), "int")
  if isinstance(v, SNum):
    if v.is_int_sort:
      return SNum(v.e, "int")
    r = ip.fresh("trunc")
    x = v.e
    ip.assume(z3.If(x >= 0,
                    z3.And(z3.ToReal(r) <= x, x < z3.ToReal(r) + 1),
                    z3.And(z3.ToReal(r) - 1 < x, x <= z3.ToReal(r))))
    return SNum(r, "int")
  if isinstance(v, SStr):
    raise Unsupported("int() of symbolic string")
  if v is None or isinstance(v, (list, tuple, dict)):
    raise PyRaise("TypeError", ("int() argument must be a string, a bytes-like object or a real number",))
  raise Unsupported("int() of %r" % (v,))


# --------------------------------------------------------------- builtins
def make_builtins(ip):
  b = {}

  def reg(name, fn):
    b[name] = Builtin(name, fn)

  for n, par in I._EXC_PARENTS.items():
    b[n] = ExcClass(n, (par,))
  b["BaseException"] = ExcClass("BaseException")
  b["True"], b["False"], b["None"] = True, False, None
  b["NotImplemented"] = NotImplemented
  b["object"] = ExtClass("object", check=lambda v: True)
  b["int"] = ExtClass("int", {"__new__": Builtin("int", lambda ip, v=0, base=None: trunc_int(ip, v))},
                      check=lambda v: (isinstance(v, int)) or (isinstance(v, SNum) and v.pytype == "int") or isinstance(v, SBool) and v.pytype == "bool")
  b["bool"] = ExtClass("bool", {"__new__": Builtin("bool", lambda ip, v=False: _bool(ip, v))},
                       check=lambda v: isinstance(v, bool) or (isinstance(v, SBool) and v.pytype == "bool"))
  b["float"] = ExtClass("float", {"__new__": Builtin("float", lambda ip, v=0.0: _float(ip, v))},
                        check=lambda v: isinstance(v, float) or (isinstance(v, SNum) and v.pytype == "float"))
  b["str"] = ExtClass("str", {"__new__": Builtin("str", lambda ip, v="": ip.to_str(v))},
                      check=lambda v: isinstance(v, (str, SStr)))
  b["list"] = ExtClass("list", {"__new__": Builtin("list", lambda ip, v=(): list(ip.iterate(v)))},
                       check=lambda v: isinstance(v, list) or (isinstance(v, SNum) and isinstance(v.tag, dict) and bool(v.tag.get("pylist"))))
  b["tuple"] = ExtClass("tuple", {"__new__": Builtin("tuple", lambda ip, v=(): tuple(ip.iterate(v)))},
                        check=lambda v: isinstance(v, tuple))
  b["dict"] = ExtClass("dict", {"__new__": Builtin("dict", _dict_new)},
                       check=lambda v: isinstance(v, dict) or (isinstance(v, Obj) and "__dict_items__" in v.attrs))
  b["set"] = ExtClass("set", {"__new__": Builtin("set", lambda ip, v=(): set(ip.iterate(v)))},
                      check=lambda v: isinstance(v, set))
  b["frozenset"] = ExtClass("frozenset", {"__new__": Builtin("frozenset", lambda ip, v=(): frozenset(ip.iterate(v)))},
                            check=lambda v: isinstance(v, frozenset))
  b["type"] = Builtin("type", _type)
  reg("len", _len)
  reg("range", _range)
  reg("abs", _abs)
  reg("max", lambda ip, *a, **k: _minmax(ip, True, a, k))
  reg("min", lambda ip, *a, **k: _minmax(ip, False, a, k))
  reg("sum", _sum)
  reg("any", lambda ip, it: _any(ip, it))
  reg("all", lambda ip, it: _all(ip, it))
  reg("isinstance", _isinstance)
  reg("issubclass", _issubclass)
  reg("hasattr", lambda ip, o, n: ip.hasattr(o, n))
  reg("getattr", _getattr)
  reg("setattr", lambda ip, o, n, v: ip.setattr(o, n, v))
  reg("callable", lambda ip, o: isinstance(o, (FuncVal, BoundMethod, Builtin, ClassVal, ExtClass, ExtAttr)) or (isinstance(o, Obj) and isinstance(o.cls, ClassVal) and o.cls.lookup("__call__")[0] is not None) or (isinstance(o, Obj) and bool(o.attrs.get("__callable__"))))
  reg("zip", lambda ip, *its: list(zip(*[ip.iterate(i) for i in its])))
  reg("enumerate", lambda ip, it, start=0: list(enumerate(ip.iterate(it), start)))
  reg("sorted", _sorted)
  reg("reversed", lambda ip, it: list(reversed(ip.iterate(it))))
  reg("print", lambda ip, *a, **k: None)
  reg("round", _round)
  reg("pow", lambda ip, a, b: ip.binop(ast.Pow(), a, b))
  reg("map", lambda ip, f, *its: [ip.call(f, list(xs), {}) for xs in zip(*[ip.iterate(i) for i in its])])
  reg("filter", lambda ip, f, it: [x for x in ip.iterate(it) if ip.truth(ip.call(f, [x], {}) if f is not None else x)])
  reg("id", lambda ip, o: id(o))
  reg("repr", lambda ip, o: ip.to_str(o) if not isinstance(o, str) else repr(o))
  reg("iter", lambda ip, o: ip.iterate(o))
  reg("globals", lambda ip: _globals(ip))
  reg("vars", lambda ip, o: o.attrs)
  reg("divmod", lambda ip, a, c: (ip.binop(ast.FloorDiv(), a, c), ip.binop(ast.Mod(), a, c)))
  reg("super", lambda ip, c, o: I._Super(o, c))
  reg("eval", _no_eval)
  reg("exec", _no_eval)
  reg("compile", _no_eval)
  reg("__import__", _no_eval)
  return b


def _no_eval(ip, *a, **k):
  raise Unsupported("eval/exec/compile/__import__ is outside the fragment")


def _globals(ip):
  if not ip.frames:
    raise Unsupported("globals() outside function")
  return ip.frames[-1].module.env.vars


def _bool(ip, v):
  if isinstance(v, SBool):
    return SBool(v.e, "bool")
  if isinstance(v, SNum):
    if v.pytype == "tensor":
      raise Unsupported("bool() of tensor element")
    return SBool(z3.simplify(v.e != 0))
  return ip.truth(v)


def _float(ip, v):
  if isinstance(v, SNum) and isinstance(v.tag, dict) and v.tag.get("pylist"):
    raise PyRaise("TypeError", ("float() argument must be a string or a real number, not 'list'",))
  if isinstance(v, SNum):
    return SNum(v.e, "float", v.grad)
  if isinstance(v, SBool):
    return SNum(z3.If(v.e, z3.RealVal(1), z3.RealVal(0)), "float")
  if isinstance(v, (int, float, bool)):
    return float(v)
  if isinstance(v, Fraction):
    return v
  if isinstance(v, str):
    try:
      return float(v)
    except ValueError:
      raise PyRaise("ValueError", ("could not convert string to float", v))
  if isinstance(v, SStr) and len(v.pieces) == 1 and isinstance(v.pieces[0], tuple) and v.pieces[0][0] == "format" \
      and v.pieces[0][1] in ("{0:.2f}", "{:.2f}") and len(v.pieces[0][2]) == 1:
    # float("{0:.2f}".format(x)): x rounded to two decimals, |r - x| <= 0.005 (assumed contract of str.format)
    x = v.pieces[0][2][0]
    xe = R(ip.num(x))
    r = ip.fresh("round2", "real")
    ip.assume(z3.And(r - xe <= z3.RealVal("5/1000"), xe - r <= z3.RealVal("5/1000"),
                     z3.Implies(xe >= 0, r >= 0)))
    return SNum(r, "float")
  raise Unsupported("float() of %r" % (v,))


def _dict_new(ip, *args, **kw):
  d = {}
  if args:
    a = args[0]
    if isinstance(a, dict):
      d.update(a)
    else:
      for k, v in ip.iterate(a):
        d[ip.hashable(k)] = v
  d.update(kw)
  return d


def _type(ip, v, *rest):
  if rest:
    raise Unsupported("3-argument type()")
  if isinstance(v, Obj):
    return v.cls
  for name in ("bool", "int", "float", "str", "list", "tuple", "dict", "set"):
    if ip.builtins[name].check(v):
      return ip.builtins[name]
  if v is None:
    return ExtClass("NoneType")
  if isinstance(v, ClassVal):
    return ip.builtins["type"]
  if isinstance(v, Term):
    return Term("type", (v,))
  raise Unsupported("type() of %r" % (v,))


def _len(ip, v):
  if isinstance(v, (list, tuple, dict, str, set, frozenset, range)):
    return len(v)
  if isinstance(v, Obj):
    if "__iter_items__" in v.attrs:
      return len(v.attrs["__iter_items__"])
    if "__len__" in v.attrs:
      return v.attrs["__len__"]
    if isinstance(v.cls, ClassVal):
      f, _ = v.cls.lookup("__len__")
      if f is not None:
        return ip.call(BoundMethod(v, f), [], {})
  if isinstance(v, Term):
    return Term("len", (v,))
  raise Unsupported("len() of %r" % (v,))


def real_to_int_or_none(e):
  if e.sort() == z3.IntSort():
    return e
  return I.real_to_int(z3.simplify(e))


class SymRange(object):
  """range(lo, hi) with symbolic bounds: not iterable (a loop over it would need an invariant), but convertible to a
  GENERIC-ELEMENT array (np.asarray / tf.range): one element index, a fresh integer idx with lo <= idx < hi."""

  def __init__(self, lo, hi):
    self.lo, self.hi = lo, hi


def generic_array(ip, lo, hi, lazy=False):
  """lazy: the array may be empty (tf.range(a, b) with a >= b); the index bounds are then assumed only when the element is
  selected (tf.concat picks a non-empty piece).  Until then the element is over-approximated (sound for proofs)."""
  zi = lambda v: v.e if isinstance(v, SNum) else z3.IntVal(int(v))
  lo_e, hi_e = zi(lo), zi(hi)
  lo_e = real_to_int_or_none(lo_e)
  hi_e = real_to_int_or_none(hi_e)
  if lo_e is None or hi_e is None:
    raise Unsupported("range over non-integer symbolic bounds")
  idx = ip.fresh("idx", "int")
  if not lazy:
    ip.assume(z3.And(lo_e <= idx, idx < hi_e))
  g = getattr(ip, "generic_indexes", None)
  if g is None:
    g = ip.generic_indexes = []
  g.append((idx, lo_e, hi_e))
  return SNum(idx, "tensor", None, {"ndarray": True, "shape": (SNum(hi_e - lo_e, "int"),), "generic_index": idx})


def _range(ip, *a):
  if any(is_sym(x) for x in a):
    if len(a) == 1:
      return SymRange(0, a[0])
    if len(a) == 2:
      return SymRange(a[0], a[1])
    raise Unsupported("range() with a symbolic step")
  if any(isinstance(x, (Term, Obj)) for x in a):
    raise Unsupported("range() with an opaque bound")
  try:
    return range(*[int(x) if isinstance(x, float) and x == int(x) and False else x for x in a])
  except TypeError as e:
    raise PyRaise("TypeError", (str(e),))


def _abs(ip, v):
  if isinstance(v, SNum):
    g = None
    if v.grad is not None:
      g = z3.If(v.e >= 0, v.grad, -v.grad)
    return SNum(z3.simplify(z3.If(v.e >= 0, v.e, -v.e)), v.pytype, g)
  if isinstance(v, Term):
    return Term("abs", (v,))
  if isinstance(v, SBool):
    return SNum(ip.num(v), "int")
  return abs(v)


def _minmax(ip, is_max, a, k):
  key = k.get("key")
  if len(a) == 1:
    items = ip.iterate(a[0])
    if not items:
      if "default" in k:
        return k["default"]
      raise PyRaise("ValueError", ("empty sequence",))
  else:
    items = list(a)
  if key is not None:
    keyed = [ip.call(key, [x], {}) for x in items]
  else:
    keyed = items
  best, bk = items[0], keyed[0]
  for x, kx in zip(items[1:], keyed[1:]):
    if isinstance(kx, Term) or isinstance(bk, Term):
      if key is not None:
        raise Unsupported("max/min with key over opaque terms")
      best = Term("max" if is_max else "min", (best, x))
      bk = best
      continue
    # python: max keeps the first maximal element -> replace only if strictly greater
    c = ip.compare(ast.Gt() if is_max else ast.Lt(), kx, bk)
    if isinstance(c, SBool) and not ip.split_minmax and key is None:
      e1, e2 = ip.num(x), ip.num(best)
      if e1.sort() != e2.sort():
        e1, e2 = R(e1), R(e2)
      best = SNum(z3.simplify(z3.If(c.e, e1, e2)), ip.pytype_of(x, best))
      bk = best
      continue
    if ip.truth(c):
      best, bk = x, kx
  return best


def _sum(ip, it, start=0):
  acc = start
  for x in ip.iterate(it):
    acc = ip.binop(ast.Add(), acc, x)
  return acc


def _any(ip, it):
  for x in ip.iterate(it):
    if ip.truth(x):
      return True
  return False


def _all(ip, it):
  for x in ip.iterate(it):
    if not ip.truth(x):
      return False
  return True


def _isinstance(ip, v, c):
  cs = c if isinstance(c, tuple) else (c,)
  flat = []
  for x in cs:
    if isinstance(x, tuple):
      flat.extend(x)
    else:
      flat.append(x)
  for x in flat:
    if isinstance(x, ClassVal):
      if isinstance(v, Obj) and isinstance(v.cls, ClassVal) and v.cls.is_subclass(x):
        return True
      if isinstance(v, Obj) and not isinstance(v.cls, ClassVal):
        r = ip.lib.opaque_isinstance(ip, v, x)
        if r:
          return True
    elif isinstance(x, ExtClass):
      if isinstance(v, Obj) and isinstance(v.cls, ClassVal) and x in v.cls.mro():
        return True
      if isinstance(v, Obj) and v.cls is x:
        return True
      if x.check is not None:
        if x.check(v):
          return True
      elif isinstance(v, Obj):
        r = ip.lib.opaque_isinstance(ip, v, x)
        if r:
          return True
    elif isinstance(x, ExcClass):
      if isinstance(v, ExcVal) and I._exc_is(None, v.cls.name, x.name):
        return True
    elif isinstance(x, ExtAttr):
      if isinstance(v, Obj) and isinstance(v.cls, ExtClass) and v.cls.name == x.path:
        return True
      if isinstance(v, Obj) and not isinstance(v.cls, ClassVal):
        r = ip.lib.opaque_isinstance(ip, v, x)
        if r:
          return True
      # library classes that are not modelled: repo objects / python values are never instances
      continue
    elif isinstance(x, Builtin) and x.name == "type":
      if isinstance(v, (ClassVal, ExtClass)):
        return True
    else:
      raise Unsupported("isinstance against %r" % (x,))
  return False


def opaque_isinstance(ip, v, c):
  kinds = v.attrs.get("__isinstance__")
  if kinds is None:
    return False
  name = c.name if hasattr(c, "name") else getattr(c, "path", "")
  return name in kinds or name.split(".")[-1] in kinds


def _issubclass(ip, a, c):
  cs = c if isinstance(c, tuple) else (c,)
  if isinstance(a, ClassVal):
    return any(a.is_subclass(x) for x in cs)
  if isinstance(a, ExtClass):
    return any(a is x for x in cs)
  raise Unsupported("issubclass of %r" % (a,))


def _getattr(ip, o, n, *d):
  if not isinstance(n, str):
    raise Unsupported("getattr with symbolic name")
  try:
    return ip.getattr(o, n)
  except PyRaise as e:
    if e.name == "AttributeError" and d:
      return d[0]
    raise


def _sorted(ip, it, key=None, reverse=False):
  items = ip.iterate(it)
  if key is not None:
    keys = [ip.call(key, [x], {}) for x in items]
  else:
    keys = items
  if any(is_sym(k) or isinstance(k, (Term, Obj)) for k in keys):
    raise Unsupported("sorted() over symbolic keys")
  order = sorted(range(len(items)), key=lambda i: keys[i], reverse=reverse)
  return [items[i] for i in order]


def _round(ip, v, nd=None):
  if conc(v):
    return round(v) if nd is None else round(v, nd)
  if nd is not None:
    raise Unsupported("round(x, n) symbolic")
  return SNum(rnd_of(ip, ip.num(v)), "int")


# ------------------------------------------------------- container methods
_MUTATING = {"append", "extend", "insert", "pop", "remove", "clear", "sort", "reverse",
             "update", "setdefault", "popitem", "add", "discard"}


def value_getattr(ip, obj, name):
  import numpy as _np
  if isinstance(obj, _np.ndarray):
    if name in ("shape", "ndim", "size", "dtype"):
      return getattr(obj, name)
    if name in ("tolist", "copy", "flatten", "squeeze", "reshape", "astype"):
      return Builtin("ndarray." + name, lambda ip_, *a, _n=name, **k: getattr(obj, _n)(*a, **k))
  if name == "__class__" and (obj is None or isinstance(obj, (bool, int, float, str, list, dict, tuple, set))):
    return ExtClass(type(obj).__name__)
  if isinstance(obj, (list, dict, set, tuple, str, frozenset)):
    if hasattr(obj, name):
      return I._PyMethod(obj, name)
    return NotImplemented
  if isinstance(obj, SStr):
    return I._PyMethod(obj, name)
  if isinstance(obj, SNum):
    if name == "shape" and obj.pytype == "tensor":
      return shape_of(obj)
    if name in ("numpy", "eval"):
      if obj.pytype == "tensor" or (isinstance(obj.tag, dict) and obj.tag.get("variable")):
        return Builtin("numpy", lambda ip_: SNum(obj.e, "float", obj.grad))
      return NotImplemented
    if name == "dtype":
      return "float32"
    if name == "get_shape":
      return Builtin("get_shape", lambda ip_: shape_of(obj))
    if name == "set_shape":
      return Builtin("set_shape", lambda ip_, *a, **k: None)
    if name == "tolist":
      # ndarray.tolist() is a (nested) Python list: no longer an np.ndarray instance (seed c09-7)
      def _tolist(ip_):
        tag = dict(obj.tag) if isinstance(obj.tag, dict) else {}
        if not tag.pop("ndarray", None) or len(tuple(tag.get("shape", ()))) == 0:
          return obj
        tag["pylist"] = True
        return SNum(obj.e, obj.pytype, obj.grad, tag)
      return Builtin("tolist", _tolist)
    if name == "shape" and isinstance(obj.tag, dict) and "shape" in obj.tag:
      return shape_of(obj)
    return NotImplemented
  if isinstance(obj, (int, float)):
    if name in ("real", "imag", "is_integer"):
      raise Unsupported("number attribute %s" % name)
    return NotImplemented
  return NotImplemented


def container_method(ip, recv, name, args, kwargs):
  if isinstance(recv, SStr):
    raise Unsupported("method %s on symbolic string" % name)
  if isinstance(recv, dict) and name in ("get", "pop", "setdefault", "__contains__") and args:
    k = args[0]
    if is_sym(k):
      raise Unsupported("symbolic dictionary key")
    if isinstance(k, (Obj, ClassVal, FuncVal)):
      found = [kk for kk in recv if kk is k]
      if name == "get":
        return recv[found[0]] if found else (args[1] if len(args) > 1 else None)
      raise Unsupported("dict.%s with object key" % name)
  if name in _MUTATING and not ip.loading:
    ip.log_container(recv)
  if name == "sort" and isinstance(recv, list):
    recv[:] = _sorted(ip, recv, kwargs.get("key"), kwargs.get("reverse", False))
    return None
  if name == "join" and isinstance(recv, str):
    items = ip.iterate(args[0])
    if all(isinstance(x, str) for x in items):
      return recv.join(items)
    parts = []
    for i, x in enumerate(items):
      if i:
        parts.append(recv)
      if not isinstance(x, (str, SStr)):
        raise PyRaise("TypeError", ("sequence item %d: expected str instance" % i,))
      parts.append(x)
    return ip.concat_str(parts)
  if name == "format" and isinstance(recv, str):
    if all(conc(a) for a in args) and all(conc(a) for a in kwargs.values()):
      return recv.format(*args, **kwargs)
    return SStr([("format", recv, tuple(args), tuple(sorted(kwargs.items())))])
  if name in ("items", "keys", "values") and isinstance(recv, dict):
    return list(getattr(recv, name)())
  if name == "index" and isinstance(recv, (list, tuple)):
    for i, x in enumerate(recv):
      if ip.truth(ip.equals(x, args[0])):
        return i
    raise PyRaise("ValueError", ("not in list",))
  if name == "count" and isinstance(recv, (list, tuple)):
    return sum(1 for x in recv if ip.truth(ip.equals(x, args[0])))
  if name == "remove" and isinstance(recv, list):
    for i, x in enumerate(recv):
      if ip.truth(ip.equals(x, args[0])):
        del recv[i]
        return None
    raise PyRaise("ValueError", ("list.remove(x): x not in list",))
  if name == "copy":
    return recv.copy()
  if isinstance(recv, str) and any(is_sym(a) for a in args):
    raise Unsupported("str.%s with symbolic argument" % name)
  try:
    return getattr(recv, name)(*args, **kwargs)
  except KeyError as e:
    raise PyRaise("KeyError", e.args)
  except IndexError as e:
    raise PyRaise("IndexError", e.args)
  except ValueError as e:
    raise PyRaise("ValueError", e.args)
  except TypeError as e:
    if "unhashable" in str(e):
      raise Unsupported("unhashable value in container method")
    raise PyRaise("TypeError", e.args)
  except AttributeError as e:
    raise PyRaise("AttributeError", e.args)


def value_getitem(ip, obj, idx):
  return NotImplemented


def value_iterate(ip, v):
  return NotImplemented


def obj_getattr(ip, obj, name):
  if obj.attrs.get("__var__") is True:
    if name == "assign":
      return BoundMethod(obj, TABLE["tf.Variable"].ns["assign"])
    if name in ("numpy", "eval", "read_value"):
      return Builtin(name, lambda ip_, *a, **k: obj.attrs["value"])
    if name in ("shape",):
      return ()
    if name == "dtype":
      return "float32"
  h = obj.attrs.get("__getattr__")
  if h is not None:
    return h(ip, obj, name)
  if "__base_kwargs__" in obj.attrs and name == "add_weight":
    # K1: Layer.add_weight creates a variable named after its `name` argument
    return Builtin("add_weight", lambda ip_, *a, **k: Term("weight", (k.get("name", a[0] if a else None),)))
  if "__base_kwargs__" in obj.attrs and name in ("build", "set_weights"):
    # Keras base-class methods of a library layer object (K1): recorded, no other effect
    def rec(ip_, *a, _n=name, **k):
      calls = list(obj.attrs.get("__calls__", []))
      calls.append((_n, a))
      ip_.setattr(obj, "__calls__", calls)
      return None
    return Builtin(name, rec)
  if name in EXT_ATTR_DEFAULTS and "__base_kwargs__" in obj.attrs:
    # attribute that the external (Keras) base class sets from its own default when the subclass does not pass it
    return EXT_ATTR_DEFAULTS[name]
  return NotImplemented


EXT_ATTR_DEFAULTS = {"dilation_rate": (1, 1), "groups": 1, "trainable": True, "dtype": "float32",
                     "data_format": "channels_last", "padding": "valid", "strides": (1, 1), "output_padding": None,
                     "activation": None}


def obj_getitem(ip, obj, idx):
  h = obj.attrs.get("__getitem__")
  if h is not None:
    return h(ip, obj, idx)
  return NotImplemented


def obj_call(ip, obj, args, kwargs):
  h = obj.attrs.get("__call__")
  if h is not None:
    return h(ip, obj, args, kwargs)
  return NotImplemented


def term_getattr(ip, t, name):
  return NotImplemented


def symdict_contains(ip, d, k):
  raise Unsupported("symbolic map")


def symdict_getitem(ip, d, k):
  raise Unsupported("symbolic map")


def symdict_setitem(ip, d, k, v):
  raise Unsupported("symbolic map")


# ------------------------------------------------------- external modules
ALIASES = [
    ("tensorflow.compat.v2", "tf"),
    ("tensorflow.compat.v1", "tf"),
    ("tensorflow.python.framework.smart_cond", "smart_cond"),
    ("tensorflow.python.keras.utils.tf_utils", "smart_cond"),
    ("tf.python.framework.smart_cond", "smart_cond"),
    ("tf.python.keras.utils.tf_utils", "smart_cond"),
    ("tf.python.ops.math_ops", "math_ops"),
    ("tf.python.ops.array_ops", "array_ops"),
    ("tensorflow.keras.backend", "K"),
    ("tf.keras.backend", "K"),
    ("tensorflow", "tf"),
    ("numpy", "np"),
    ("six.moves", "six_moves"),
    ("absl.logging", "logging"),
    ("tf.math", "tf"),
    ("tf.nn", "tfnn"),
]


def canon(path):
  changed = True
  while changed:
    changed = False
    for a, b in ALIASES:
      if path == a or path.startswith(a + "."):
        path = b + path[len(a):]
        changed = True
        break
  return path


def ext_module(ip, name):
  return ExtModule(canon(name))


def ext_getattr(ip, path, name):
  full = canon(path + "." + name)
  if full in TABLE:
    v = TABLE[full]
    if isinstance(v, _Lazy):
      v = v.make(ip)
    return v
  if full in BUILTIN_PASSTHROUGH:
    return ip.builtins[BUILTIN_PASSTHROUGH[full]]
  return ExtAttr(full)


class _Lazy(object):

  def __init__(self, make):
    self.make = make


TABLE = {}
BUILTIN_PASSTHROUGH = {"six_moves.range": "range", "six_moves.zip": "zip", "six_moves.map": "map",
                       "builtins.range": "range"}


def model(*names):
  def deco(fn):
    for n in names:
      def wrap(ip, *a, _fn=fn, _n=n, **k):
        used(_n)
        return inherit_shape(_fn(ip, *a, **k), a)
      TABLE[n] = Builtin(n, wrap)
    return fn
  return deco


def const(name, v):
  TABLE[name] = v


# -- logging / abc / typing / misc: no-ops
for _n in ("logging.debug", "logging.info", "logging.warning", "logging.warn", "logging.error",
           "logging.fatal", "logging.log", "logging.vlog", "warnings.warn", "tf.print",
           "logging.set_verbosity", "tqdm.tqdm"):
  TABLE[_n] = Builtin(_n, lambda ip, *a, **k: None)
# absl logging.fatal only aborts when the absl handler is installed (absl.app.run); in library use it logs
# CRITICAL and returns (observed natively on the pinned environment), so it is a no-op like the other loggers.
const("abc.ABC", ExtClass("abc.ABC", check=lambda v: False))
const("abc.ABCMeta", ExtClass("abc.ABCMeta", check=lambda v: False))
TABLE["abc.abstractmethod"] = Builtin("abstractmethod", lambda ip, f: f)
const("six.string_types", (ExtClass("str", check=lambda v: isinstance(v, (str, SStr))),))
const("six.integer_types", (ExtClass("int", check=lambda v: isinstance(v, int) and not isinstance(v, bool) or (isinstance(v, SNum) and v.pytype == "int")),))
for _n in ("typing.Any", "typing.List", "typing.Tuple", "typing.cast", "typing.Optional",
           "typing.Dict", "typing.Union", "typing.Callable", "typing.Sequence", "typing.Text"):
  const(_n, ExtAttr(_n))
const("math.pi", math.pi)
const("math.e", math.e)
const("math.inf", float("inf"))
const("np.pi", math.pi)
const("np.inf", float("inf"))
const("sys.maxsize", 2 ** 63 - 1)
const("np.float32", ExtClass("np.float32", {"__new__": Builtin("np.float32", lambda ip, v: _float(ip, v))}, check=lambda v: False))
const("np.float64", ExtClass("np.float64", {"__new__": Builtin("np.float64", lambda ip, v: _float(ip, v))}, check=lambda v: False))
const("np.int32", ExtClass("np.int32", {"__new__": Builtin("np.int32", lambda ip, v: trunc_int(ip, v))}, check=lambda v: False))
const("np.int64", ExtClass("np.int64", {"__new__": Builtin("np.int64", lambda ip, v: trunc_int(ip, v))}, check=lambda v: False))
const("np.ndarray", ExtClass("np.ndarray", check=lambda v: (isinstance(v, SNum) and isinstance(v.tag, dict) and bool(v.tag.get("ndarray"))) or type(v).__name__ == "NDList"))
def _var_new(ip, initial_value=None, *a, **k):
  v = initial_value
  if isinstance(v, (FuncVal, BoundMethod, Builtin)):
    v = ip.call(v, [], {})
  cell = Obj(TABLE["tf.Variable"], {"__var__": True, "value": v}, label="tf.Variable")
  return cell


def _var_assign(ip, cell, v, *a, **k):
  ip.setattr(cell, "value", ip.deref(v))
  return cell


_VARCLS = ExtClass("tf.Variable", {"__new__": Builtin("tf.Variable", _var_new)},
                   check=lambda v: (isinstance(v, Obj) and v.attrs.get("__var__") is True) or (isinstance(v, SNum) and isinstance(v.tag, dict) and bool(v.tag.get("variable"))))
_b = Builtin("assign", _var_assign)
_b.is_method = True
_VARCLS.ns["assign"] = _b
for _n in ("numpy", "eval", "read_value", "value"):
  _b = Builtin(_n, lambda ip, cell, *a, **k: cell.attrs["value"])
  _b.is_method = True
  _VARCLS.ns[_n + "_m"] = _b
const("tf.Variable", _VARCLS)
const("tf.keras.callbacks.Callback", ExtClass("tf.keras.callbacks.Callback", check=lambda v: False))
TABLE["tf.summary.create_file_writer"] = Builtin("create_file_writer", lambda ip, *a, **k: None)
TABLE["tf.summary.scalar"] = Builtin("summary.scalar", lambda ip, *a, **k: None)
const("tf.Tensor", ExtClass("tf.Tensor", check=lambda v: isinstance(v, SNum) and v.pytype == "tensor"))
const("tf.Module", ExtClass("tf.Module", check=lambda v: False))
const("tf.float32", "float32")
const("tf.float64", "float64")
const("tf.int32", "int32")
const("tf.int64", "int64")
const("tf.bool", "bool")
const("np.uint8", "uint8")


@model("tf.python.eager.context.executing_eagerly", "tf.executing_eagerly", "context.executing_eagerly")
def _executing_eagerly(ip):
  return True        # qkeras asserts eager execution at import (qkeras/__init__.py)


@model("array_ops.split", "tf.split")
def _split(ip, value, num_or_size_splits=None, axis=0, **k):
  n = num_or_size_splits
  if isinstance(value, Term) and isinstance(n, int):
    return [Term("split", (value, n, axis, i)) for i in range(n)]
  if isinstance(value, Term) and isinstance(n, (list, tuple)):
    return [Term("split", (value, tuple(n), axis, i)) for i in range(len(n))]
  raise Unsupported("split of %r" % (value,))


@model("array_ops.unstack", "tf.unstack")
def _unstack(ip, value, num=None, axis=0, **k):
  # qkeras only unstacks the (2, 3*units) bias of a reset_after GRU: two rows
  if isinstance(value, Term):
    n = num if isinstance(num, int) else 2
    return [Term("unstack", (value, axis, i)) for i in range(n)]
  raise Unsupported("unstack of %r" % (value,))


@model("collections.OrderedDict")
def _ordered_dict(ip, *a, **k):
  return dict(*a, **k)


@model("tf.keras.models.Model", "tf.keras.Model")
def _keras_model(ip, *a, **k):
  """tf.keras Model(inputs=..., outputs=...): a record of its arguments (the functional-API constructor as far as the
  graph-rewriting utilities use it)."""
  attrs = dict(k)
  if a:
    attrs.setdefault("inputs", a[0])
  if len(a) > 1:
    attrs.setdefault("outputs", a[1])
  return Obj(ExtClass("Model"), attrs)


@model("collections.namedtuple")
def _namedtuple(ip, typename, field_names, **k):
  """collections.namedtuple: a constructor of records with the given field names (attribute access; positional and
  keyword construction; no tuple protocol beyond that)."""
  fields = field_names.replace(",", " ").split() if isinstance(field_names, str) else [f for f in field_names]
  cls = ExtClass(typename)

  def make(ip_, *a, **kw):
    if len(a) + len(kw) != len(fields) or len(a) > len(fields):
      raise PyRaise("TypeError", ("%s() takes %d fields" % (typename, len(fields)),))
    attrs = dict(zip(fields, a))
    for n, v in kw.items():
      if n not in fields or n in attrs:
        raise PyRaise("TypeError", ("%s() got an unexpected field %r" % (typename, n),))
      attrs[n] = v
    attrs["_fields"] = tuple(fields)
    return Obj(cls, attrs)
  return Builtin(typename, make)


@model("networkx.topological_sort")
def _nx_topo(ip, graph):
  # contract of networkx (K): nodes in an order compatible with the edges; the stub graph knows it
  return ip.call(ip.getattr(graph, "topological_order"), [], {})


@model("copy.deepcopy")
def _deepcopy(ip, v, memo=None):
  return ip.deepcopy(v)


@model("copy.copy")
def _copy(ip, v):
  if isinstance(v, Obj):
    return Obj(v.cls, dict(v.attrs), v.label)
  if isinstance(v, (list, dict, set)):
    return v.copy()
  return v


# -- math / numpy scalar functions
def _unary_real(name, concrete, symbolic):
  def fn(ip, x, *rest, **kw):
    if conc(x):
      try:
        return concrete(x)
      except (ValueError, OverflowError) as e:
        raise PyRaise(type(e).__name__, e.args)
    if isinstance(x, Term):
      return Term(name, (x,) + tuple(rest), kw)
    return symbolic(ip, x)
  return fn


def _sym_ceil(ip, x, as_float):
  e = fresh_ceil(ip, ip.num(x))
  pt = "tensor" if tensor_like(x) else ("float" if as_float else "int")
  g = z3.RealVal(0) if grad0(x) is not None else None
  return SNum(e, pt, g)


def _sym_floor(ip, x, as_float):
  e = fresh_floor(ip, ip.num(x))
  pt = "tensor" if tensor_like(x) else ("float" if as_float else "int")
  g = z3.RealVal(0) if grad0(x) is not None else None
  return SNum(e, pt, g)


def _np_ceil_c(x):
  import numpy as np
  return float(np.ceil(x))


TABLE["math.ceil"] = Builtin("math.ceil", _unary_real("math.ceil", math.ceil, lambda ip, x: _sym_ceil(ip, x, False)))
TABLE["math.floor"] = Builtin("math.floor", _unary_real("math.floor", math.floor, lambda ip, x: _sym_floor(ip, x, False)))
TABLE["np.ceil"] = Builtin("np.ceil", _unary_real("np.ceil", lambda x: float(math.ceil(x)), lambda ip, x: _sym_ceil(ip, x, True)))
TABLE["np.floor"] = Builtin("np.floor", _unary_real("np.floor", lambda x: float(math.floor(x)), lambda ip, x: _sym_floor(ip, x, True)))


def _sym_log2(ip, x):
  e = R(ip.num(x))
  if not tensor_like(x):
    if not ip.entails(e > 0):
      if ip.branch(e > 0):
        pass
      else:
        # numpy: log2(0) = -inf, log2(negative) = nan (math.log2 raises ValueError); both make a later
        # int() raise.  The non-finite result is represented by -inf on this path.
        return float("-inf")
  g = None
  if grad0(x) is not None:
    g = grad0(x) / (e * LN2)
  return SNum(I.LOG2(e), "tensor" if tensor_like(x) else "float", g)


def _c_log2(x):
  if x <= 0:
    raise Unsupported("log of non-positive constant")
  return math.log2(x)


def _c_log(x):
  if x <= 0:
    raise Unsupported("log of non-positive constant")
  return math.log(x)


TABLE["np.log2"] = Builtin("np.log2", _unary_real("np.log2", _c_log2, _sym_log2))
TABLE["math.log2"] = Builtin("math.log2", _unary_real("math.log2", _c_log2, _sym_log2))


def _sym_ln(ip, x):
  l2 = _sym_log2(ip, x)
  g = None
  if l2.grad is not None:
    g = l2.grad * LN2
  return SNum(z3.simplify(l2.e * LN2), l2.pytype, g)


def _math_log(ip, x, base=None):
  if base is not None:
    if conc(x) and conc(base):
      return math.log(x, base)
    if conc(base) and base == 2:
      return _sym_log2(ip, x)
    raise Unsupported("log with symbolic base")
  if conc(x):
    return _c_log(x)
  if isinstance(x, Term):
    return Term("log", (x,))
  return _sym_ln(ip, x)


TABLE["math.log"] = Builtin("math.log", _math_log)
TABLE["np.log"] = Builtin("np.log", _math_log)
TABLE["K.log"] = Builtin("K.log", lambda ip, x: (as_tensor(ip, _c_log(x)) if conc(x) else (Term("K.log", (x,)) if isinstance(x, Term) else _sym_ln(ip, as_tensor(ip, x)))))
TABLE["tf.log"] = TABLE["K.log"]


def _c_log10(x):
  return math.log10(x)


SQRT = z3.Function("sqrt", z3.RealSort(), z3.RealSort())
LOG10 = z3.Function("log10", z3.RealSort(), z3.RealSort())


def _sym_sqrt(ip, x):
  e = R(ip.num(x))
  r = SQRT(e)
  ip.assume(z3.Implies(e >= 0, r >= 0))   # r*r == e is added by contracts that need it
  return SNum(r, "tensor" if tensor_like(x) else "float")


TABLE["np.sqrt"] = Builtin("np.sqrt", _unary_real("np.sqrt", math.sqrt, _sym_sqrt))
TABLE["math.sqrt"] = TABLE["np.sqrt"]
TABLE["K.sqrt"] = TABLE["np.sqrt"]
TABLE["tf.sqrt"] = TABLE["np.sqrt"]
TABLE["np.log10"] = Builtin("np.log10", _unary_real("np.log10", _c_log10, lambda ip, x: SNum(LOG10(R(ip.num(x))), "float")))


@model("np.prod")
def _np_prod(ip, v, *a, **k):
  if isinstance(v, Term):
    return Term("np.prod", (v,))
  acc = 1
  for x in ip.iterate(v):
    acc = ip.binop(ast.Mult(), acc, x)
  return acc


@model("np.zeros")
def _np_zeros(ip, shape, *a, **k):
  if isinstance(shape, (tuple, list)) and len(shape) == 1 and isinstance(shape[0], int):
    return NDList([0.0] * shape[0])
  if isinstance(shape, int):
    return NDList([0.0] * shape)
  raise Unsupported("np.zeros of shape %r" % (shape,))


@model("np.sum")
def _np_sum(ip, v, *a, **k):
  if isinstance(v, Term):
    return Term("np.sum", (v,), k)
  if isinstance(v, Obj) and ip.hasattr(v, "sum"):
    return ip.call(ip.getattr(v, "sum"), [], {})
  return _sum(ip, v)


@model("np.abs", "np.absolute", "np.fabs")
def _np_abs(ip, v):
  return _abs(ip, v)


@model("np.round", "np.rint", "np.around")
def _np_round(ip, v, decimals=0):
  if conc(v):
    import numpy as np
    return float(np.round(v, decimals))
  if decimals != 0:
    raise Unsupported("np.round with decimals")
  return SNum(rnd_of(ip, ip.num(v)), "float")


@model("np.maximum", "np.max", "np.amax")
def _np_max(ip, *a, **k):
  if len(a) == 1:
    return _minmax(ip, True, a, {})
  return _minmax(ip, True, a, {})


@model("np.minimum", "np.min", "np.amin")
def _np_min(ip, *a, **k):
  return _minmax(ip, False, a, {})


POWR = z3.Function("powr", z3.RealSort(), z3.RealSort(), z3.RealSort())


@model("np.power")
def _np_power(ip, a, b):
  if conc(a) and conc(b):
    return float(a) ** float(b) if not (isinstance(a, int) and isinstance(b, int)) else a ** b
  if conc(a) and a == 2:
    return ip.binop(ast.Pow(), a, b)
  if conc(b) and isinstance(b, int) and 0 <= b <= 4:
    return ip.binop(ast.Pow(), a, b)
  # v ** e for real v, e: uninterpreted with instantiated monotonicity/endpoint axioms (vc.powr_axioms)
  return SNum(POWR(R(ip.num(a)), R(ip.num(b))), "float")


@model("np.array", "np.asarray")
def _np_array(ip, v, dtype=None, **k):
  import numpy as _np
  if isinstance(v, _np.ndarray):
    return _np.array(v)
  if isinstance(v, (list, tuple)) and v and all(isinstance(x, (list, tuple)) for x in v) and I._all_plain(v):
    return _np.array(v)                 # a concrete nested list (e.g. a mask read back from a config) is a real array
  if isinstance(v, (list, tuple)):
    if all(isinstance(x, (int, SNum)) and not isinstance(x, bool) for x in v) and dtype is None:
      return NDList(v)
    return [_np_array(ip, x) for x in v]
  if isinstance(v, SNum):
    tag = dict(v.tag) if isinstance(v.tag, dict) else {}
    tag.pop("pylist", None)
    tag["ndarray"] = True
    return SNum(v.e, v.pytype if v.pytype == "tensor" else "float", v.grad, tag)
  if isinstance(v, (int, float)):
    return float(v) if dtype is None or "float" in str(dtype) else v
  if isinstance(v, Term):
    return Term("np.array", (v,))
  if isinstance(v, range):
    return [float(x) for x in v]
  if isinstance(v, SymRange):
    return generic_array(ip, v.lo, v.hi)
  raise Unsupported("np.array of %r" % (v,))


@model("np.mod", "np.fmod")
def _np_mod(ip, a, b):
  if conc(a) and conc(b):
    import numpy as np
    return float(np.mod(a, b))
  raise Unsupported("np.mod on symbolic values")


class NDList(list):
  """1-d numpy array stand-in: element-wise comparisons (handled in Interp.compare)."""


def _poly1d(ip, coeffs, *a, **k):
  cs = list(ip.iterate(coeffs))

  def ev(ip_, self_, x):
    acc = 0
    for c in cs:
      acc = ip_.binop(ast.Add(), ip_.binop(ast.Mult(), acc, x), c)
    return acc
  o = Obj(ExtClass("np.poly1d"), {"coeffs": cs, "__call__": lambda ip_, self_, args, kwargs: ev(ip_, self_, args[0])},
          label="poly1d")
  return o


TABLE["np.poly1d"] = Builtin("np.poly1d", _poly1d)


@model("np.all")
def _np_all(ip, v, *a, **k):
  if isinstance(v, (SBool, bool)):
    return v
  return _all(ip, v)


@model("np.any")
def _np_any(ip, v, *a, **k):
  if isinstance(v, (SBool, bool)):
    return v
  return _any(ip, v)


@model("np.squeeze")
def _np_squeeze(ip, v, axis=None):
  import numpy as _np
  if isinstance(v, _np.ndarray):
    return _np.squeeze(v) if axis is None else _np.squeeze(v, axis)
  if isinstance(v, SNum) and isinstance(v.tag, dict) and "shape" in v.tag:
    tag = dict(v.tag)
    tag["shape"] = tuple(d for d in v.tag["shape"] if d != 1)
    return SNum(v.e, v.pytype, v.grad, tag)
  if isinstance(v, Term):
    return Term("np.squeeze", (v,))
  return v


@model("np.isscalar")
def _np_isscalar(ip, v):
  return isinstance(v, (int, float)) or (isinstance(v, SNum) and v.pytype != "tensor")


@model("np.sign")
def _np_sign(ip, v):
  return _tf_sign(ip, v)


# ------------------------------------------------- TF / Keras element-wise
def T(ip, v):
  return as_tensor(ip, v)


@model("K.cast_to_floatx", "tf.identity", "K.identity", "tf.convert_to_tensor", "K.constant", "tf.constant",
       "K.variable", "tf.squeeze", "K.flatten", "K.eval", "K.get_value", "tf.stop_gradient_passthrough")
def _tf_identity(ip, x, *a, **k):
  if isinstance(x, Term):
    return x
  if isinstance(x, (list, tuple)):
    return x
  if isinstance(x, Obj):
    return x
  return T(ip, x)


@model("K.cast", "tf.cast")
def _tf_cast(ip, x, dtype=None, **k):
  if isinstance(x, bool) and (dtype is bool or str(dtype) in ("bool", "<extclass bool>") or getattr(dtype, "name", "") == "bool"):
    return x
  if isinstance(x, Term):
    return Term("cast", (x, dtype))
  if isinstance(x, SBool):
    return SNum(z3.If(x.e, z3.RealVal(1), z3.RealVal(0)) if "float" in str(dtype) else z3.If(x.e, z3.IntVal(1), z3.IntVal(0)), "tensor",
                None)
  if "int" in str(dtype):
    if isinstance(x, SNum) and not x.is_int_sort:
      t = trunc_int(ip, SNum(x.e, "float"))
      return SNum(t.e, "tensor", z3.RealVal(0) if x.grad is not None else None)
  return T(ip, x)


@model("tf.stop_gradient", "K.stop_gradient")
def _tf_stop_gradient(ip, x):
  if isinstance(x, Term):
    return Term("stop_gradient", (x,))
  x = T(ip, x)
  if isinstance(x, SNum):
    return SNum(x.e, "tensor", z3.RealVal(0) if ip_tracks_grad(ip) else None, x.tag)
  return x


def ip_tracks_grad(ip):
  return bool(getattr(ip, "track_grad", False))


@model("tf.round", "K.round")
def _tf_round(ip, x):
  if isinstance(x, Term):
    return Term("round", (x,))
  x = T(ip, x)
  e = rnd_of(ip, x.e)
  return SNum(e, "tensor", z3.RealVal(0) if ip_tracks_grad(ip) else None)


@model("tf.floor")
def _tf_floor(ip, x):
  if isinstance(x, Term):
    return Term("floor", (x,))
  x = T(ip, x)
  return SNum(fresh_floor(ip, x.e), "tensor", z3.RealVal(0) if ip_tracks_grad(ip) else None)


@model("tf.ceil")
def _tf_ceil(ip, x):
  if isinstance(x, Term):
    return Term("ceil", (x,))
  x = T(ip, x)
  return SNum(fresh_ceil(ip, x.e), "tensor", z3.RealVal(0) if ip_tracks_grad(ip) else None)


@model("tf.sign", "K.sign")
def _tf_sign(ip, x):
  if isinstance(x, Term):
    return Term("sign", (x,))
  if conc(x):
    return (x > 0) - (x < 0)
  keep = x.pytype
  e = x.e
  one, zero = (z3.IntVal(1), z3.IntVal(0))
  r = z3.If(e > 0, one, z3.If(e < 0, -one, zero))
  return SNum(z3.simplify(r), keep, z3.RealVal(0) if ip_tracks_grad(ip) else None)


@model("tf.abs", "K.abs")
def _tf_abs(ip, x):
  if isinstance(x, Term):
    return Term("abs", (x,))
  return _abs(ip, T(ip, x))


@model("tf.where", "K.switch", "np.where")
def _tf_where(ip, c, a=None, b=None):
  if a is None:
    raise Unsupported("single-argument where")
  if isinstance(c, Term) or isinstance(a, Term) or isinstance(b, Term):
    return Term("where", (c, a, b))
  if isinstance(c, bool):
    return T(ip, a) if c else T(ip, b)
  ce = ip.as_bool(c)
  ea, eb = ip.num(a), ip.num(b)
  if ea.sort() != eb.sort():
    ea, eb = R(ea), R(eb)
  g = None
  if grad0(a) is not None or grad0(b) is not None or ip_tracks_grad(ip):
    ga = grad0(a) if grad0(a) is not None else z3.RealVal(0)
    gb = grad0(b) if grad0(b) is not None else z3.RealVal(0)
    g = z3.simplify(z3.If(ce, ga, gb))
  return SNum(z3.simplify(z3.If(ce, ea, eb)), "tensor", g)


@model("tf.logical_or")
def _tf_or(ip, a, b):
  if isinstance(a, Term) or isinstance(b, Term):
    return Term("logical_or", (a, b))
  if isinstance(a, bool) and isinstance(b, bool):
    return a or b
  return SBool(z3.simplify(z3.Or(ip.as_bool(a), ip.as_bool(b))), "tensor")


@model("tf.logical_and")
def _tf_and(ip, a, b):
  if isinstance(a, Term) or isinstance(b, Term):
    return Term("logical_and", (a, b))
  if isinstance(a, bool) and isinstance(b, bool):
    return a and b
  return SBool(z3.simplify(z3.And(ip.as_bool(a), ip.as_bool(b))), "tensor")


@model("tf.logical_not")
def _tf_not(ip, a):
  if isinstance(a, Term):
    return Term("logical_not", (a,))
  if isinstance(a, bool):
    return not a
  return SBool(z3.simplify(z3.Not(ip.as_bool(a))), "tensor")


def _clip(ip, x, lo, hi):
  if isinstance(x, Term) or isinstance(lo, Term) or isinstance(hi, Term):
    return Term("clip", (x, lo, hi))
  x = T(ip, x)
  ex, el, eh = ip.num(x), ip.num(lo), ip.num(hi)
  if not (ex.sort() == el.sort() == eh.sort()):
    ex, el, eh = R(ex), R(el), R(eh)
  # tf.clip_by_value(x, lo, hi) = minimum(maximum(x, lo), hi)
  r = z3.If(z3.If(ex < el, el, ex) > eh, eh, z3.If(ex < el, el, ex))
  g = None
  if x.grad is not None or ip_tracks_grad(ip):
    gx = x.grad if x.grad is not None else z3.RealVal(0)
    glo = grad0(lo) if grad0(lo) is not None else z3.RealVal(0)
    ghi = grad0(hi) if grad0(hi) is not None else z3.RealVal(0)
    # TF's clip_by_value gradient: passes x's gradient where lo <= x <= hi
    g = z3.If(z3.And(ex >= el, ex <= eh), gx, z3.If(ex < el, glo, ghi))
  return SNum(z3.simplify(r), "tensor", None if g is None else z3.simplify(g))


@model("K.clip", "tf.clip_by_value")
def _k_clip(ip, x, min_value=None, max_value=None, clip_value_min=None, clip_value_max=None):
  lo = min_value if min_value is not None else clip_value_min
  hi = max_value if max_value is not None else clip_value_max
  if lo is None and hi is None:
    return T(ip, x) if not isinstance(x, Term) else x
  if lo is None:
    return _k_minimum(ip, T(ip, x) if not isinstance(x, Term) else x, T(ip, hi))
  if hi is None:
    return _k_maximum(ip, T(ip, x) if not isinstance(x, Term) else x, T(ip, lo))
  return _clip(ip, x, lo, hi)


_ANY_FUNS = {}


@model("tf.math.reduce_any", "tf.reduce_any", "K.any")
def _reduce_any(ip, b, axis=None, **k):
  if isinstance(b, bool):
    return b
  if isinstance(b, Term):
    return Term("reduce_any", (b,))
  be = ip.as_bool(b)
  f = _ANY_FUNS.get("any")
  if f is None:
    f = _ANY_FUNS["any"] = z3.Function("reduce_any", z3.BoolSort(), z3.BoolSort())
  g = f(be)
  ip.assume(z3.Implies(be, g))       # the element under consideration belongs to the reduced set
  return SBool(g, "bool")


@model("tf.not_equal", "tf.math.not_equal")
def _tf_not_equal(ip, a, b):
  r = ip.equals(T(ip, a), T(ip, b))
  return ip.logical_not(r)


@model("tf.equal", "tf.math.equal")
def _tf_equal(ip, a, b):
  return ip.equals(T(ip, a), T(ip, b))


@model("tf.while_loop")
def _tf_while_loop(ip, cond, body, loop_vars, maximum_iterations=None, **k):
  """tf.while_loop with a literal maximum_iterations: unrolled exactly (the trip count is a path split)."""
  if maximum_iterations is None or is_sym(maximum_iterations):
    raise Unsupported("tf.while_loop without a concrete maximum_iterations (needs an invariant)")
  state = tuple(loop_vars)
  for _ in range(int(maximum_iterations)):
    if not ip.truth(ip.call(cond, list(state), {})):
      break
    state = tuple(ip.iterate(ip.call(body, list(state), {})))
  return state


@model("K.maximum", "tf.maximum", "tf.math.maximum_")
def _k_maximum(ip, a, b):
  if isinstance(a, Term) or isinstance(b, Term):
    return Term("maximum", (a, b))
  if conc(a) and conc(b):
    return max(a, b)
  a, b = T(ip, a), T(ip, b)
  ea, eb = a.e, b.e
  if ea.sort() != eb.sort():
    ea, eb = R(ea), R(eb)
  g = None
  if grad0(a) is not None or grad0(b) is not None or ip_tracks_grad(ip):
    ga = grad0(a) if grad0(a) is not None else z3.RealVal(0)
    gb = grad0(b) if grad0(b) is not None else z3.RealVal(0)
    g = z3.simplify(z3.If(ea >= eb, ga, gb))
  return SNum(z3.simplify(z3.If(ea >= eb, ea, eb)), "tensor", g)


@model("K.minimum", "tf.minimum")
def _k_minimum(ip, a, b):
  if isinstance(a, Term) or isinstance(b, Term):
    return Term("minimum", (a, b))
  if conc(a) and conc(b):
    return min(a, b)
  a, b = T(ip, a), T(ip, b)
  ea, eb = a.e, b.e
  if ea.sort() != eb.sort():
    ea, eb = R(ea), R(eb)
  g = None
  if grad0(a) is not None or grad0(b) is not None or ip_tracks_grad(ip):
    ga = grad0(a) if grad0(a) is not None else z3.RealVal(0)
    gb = grad0(b) if grad0(b) is not None else z3.RealVal(0)
    g = z3.simplify(z3.If(ea <= eb, ga, gb))
  return SNum(z3.simplify(z3.If(ea <= eb, ea, eb)), "tensor", g)


@model("K.relu", "tfnn.relu", "tf.keras.activations.relu")
def _k_relu(ip, x, alpha=0.0, max_value=None, threshold=0.0):
  if isinstance(x, Term):
    return Term("relu", (x,), {"alpha": alpha, "max_value": max_value})
  if threshold != 0.0:
    raise Unsupported("relu threshold")
  x = T(ip, x)
  ex = R(x.e)
  ea = R(ip.num(alpha))
  pos = ex
  if max_value is not None:
    em = R(ip.num(max_value))
    pos = z3.If(ex > em, em, ex)
  r = z3.If(ex >= 0, pos, ea * ex)
  g = None
  if x.grad is not None or ip_tracks_grad(ip):
    gx = x.grad if x.grad is not None else z3.RealVal(0)
    if max_value is not None:
      g = z3.If(ex >= 0, z3.If(ex > em, z3.RealVal(0), gx), ea * gx)
    else:
      g = z3.If(ex >= 0, gx, ea * gx)
  return SNum(z3.simplify(r), "tensor", None if g is None else z3.simplify(g))


@model("tf.ones_like", "K.ones_like")
def _ones_like(ip, x, *a, **k):
  if isinstance(x, Term):
    return Term("ones_like", (x,))
  return SNum(z3.RealVal(1), "tensor", z3.RealVal(0) if ip_tracks_grad(ip) else None)


@model("tf.zeros_like", "K.zeros_like")
def _zeros_like(ip, x, *a, **k):
  if isinstance(x, Term):
    return Term("zeros_like", (x,))
  return SNum(z3.RealVal(0), "tensor", z3.RealVal(0) if ip_tracks_grad(ip) else None)


@model("K.pow", "tf.pow")
def _k_pow(ip, a, b):
  if isinstance(a, Term) or isinstance(b, Term):
    return Term("pow", (a, b))
  r = ip.binop(ast.Pow(), a, b)
  return T(ip, r)


@model("K.get_uid")
def _k_get_uid(ip, prefix=""):
  return 1


@model("K.epsilon")
def _k_epsilon(ip):
  return 1e-07


@model("K.floatx")
def _k_floatx(ip):
  return "float32"


@model("K.image_data_format")
def _k_idf(ip):
  return getattr(ip, "image_data_format", "channels_last")


@model("K.learning_phase")
def _k_learning_phase(ip):
  if ip.learning_phase is None:
    raise Unsupported("K.learning_phase() without a phase case")
  return ip.learning_phase


@model("smart_cond.smart_cond", "tf.cond", "K.in_train_phase_cond")
def _smart_cond(ip, pred, true_fn=None, false_fn=None, name=None):
  if ip.truth(pred):
    return ip.call(true_fn, [], {})
  return ip.call(false_fn, [], {})


@model("K.in_train_phase")
def _in_train_phase(ip, x, alt, training=None):
  ph = training if training is not None else _k_learning_phase(ip)
  v = x if ip.truth(ph) else alt
  if isinstance(v, (FuncVal, BoundMethod)):
    return ip.call(v, [], {})
  return v


TANH = z3.Function("tanh", z3.RealSort(), z3.RealSort())
SIGMOID = z3.Function("sigmoid", z3.RealSort(), z3.RealSort())


@model("K.tanh", "tf.tanh", "tf.keras.activations.tanh")
def _k_tanh(ip, x):
  if isinstance(x, Term):
    return Term("tanh", (x,))
  x = T(ip, x)
  t = TANH(R(x.e))
  ip.assume(z3.And(t > -1, t < 1))
  g = None
  if x.grad is not None:
    g = (1 - t * t) * x.grad
  return SNum(t, "tensor", g)


@model("K.sigmoid", "tf.sigmoid", "tf.keras.activations.sigmoid", "tfnn.sigmoid")
def _k_sigmoid(ip, x):
  if isinstance(x, Term):
    return Term("sigmoid", (x,))
  x = T(ip, x)
  t = SIGMOID(R(x.e))
  ip.assume(z3.And(t > 0, t < 1))
  g = None
  if x.grad is not None:
    g = t * (1 - t) * x.grad
  return SNum(t, "tensor", g)


class ShapeList(list):
  """TensorShape stand-in: a list with as_list()."""

  def as_list(self):
    return list(self)


def shape_of(v):
  if isinstance(v, SNum) and isinstance(v.tag, dict) and "shape" in v.tag:
    return ShapeList(v.tag["shape"])
  return ShapeList([])


def with_shape(v, shape, extra=None):
  tag = dict(v.tag) if isinstance(v.tag, dict) else {}
  tag["shape"] = tuple(shape)
  if extra:
    tag.update(extra)
  return SNum(v.e, "tensor", v.grad, tag)


_AGG_FUNS = {}


_AGG_GRADS = [0]


def _aggregate(ip, kind, v, axis=None, keepdims=False, **k):
  """Group reduction over the scaling group G of the element under consideration.
  Modelled as an uninterpreted function, one per (kind, tensor shape, reduction axes), applied to the
  element expression: the same expression reduced over the same group gives the same aggregate
  (functional consistency across runs); different grouping -> unrelated symbols.
  max additionally satisfies max_G(v) >= v for the member element; std >= 0."""
  if isinstance(v, Term):
    return Term(kind, (v,), {"axis": axis, "keepdims": keepdims})
  v = T(ip, v)
  shape = tuple(shape_of(v))
  if isinstance(axis, (list, tuple)):
    ax = tuple(int(a) if not is_sym(a) else repr(a) for a in axis)
  elif axis is None:
    ax = None
  elif is_sym(axis) or isinstance(axis, Term):
    raise Unsupported("reduction over a symbolic axis")
  else:
    ax = (int(axis),)
  key = (kind, shape, ax)
  f = _AGG_FUNS.get(key)
  if f is None:
    f = z3.Function("%s#%d" % (kind.replace(".", "_"), len(_AGG_FUNS)), z3.RealSort(), z3.RealSort())
    _AGG_FUNS[key] = f
  g = f(R(v.e))
  if kind.endswith("max"):
    ip.assume(g >= R(v.e))
  if kind.endswith("std"):
    ip.assume(g >= 0)
  aggs = getattr(ip, "aggs", None)
  if aggs is None:
    aggs = ip.aggs = []
  aggs.append((kind, R(v.e), g, key))
  if keepdims and ax is not None:
    new_shape = tuple(1 if i in ax or (i - len(shape)) in ax else d for i, d in enumerate(shape))
  elif keepdims:
    new_shape = tuple(1 for _ in shape)
  else:
    new_shape = ()
  grad = None
  if ip_tracks_grad(ip):
    # derivative of a group reduction w.r.t. the tracked element: unknown (1 or -1 on the arg-max, 1/N for a mean,
    # ...) unless the reduced expression does not depend on it; a fresh unconstrained real keeps the claim honest:
    # the gradient of the result is independent of it only if the program stops it (stop_gradient, round, ...)
    vg = getattr(v, "grad", None)
    zero = vg is None or (z3.is_rational_value(z3.simplify(vg)) and z3.simplify(vg).numerator_as_long() == 0)
    if zero:
      grad = z3.RealVal(0)
    else:
      _AGG_GRADS[0] += 1
      grad = z3.Real("dagg#%d" % _AGG_GRADS[0])
  return SNum(g, "tensor", grad, {"group": True, "shape": new_shape})


@model("tf.reshape", "K.reshape")
def _tf_reshape(ip, x, shape):
  if isinstance(x, Term):
    return Term("reshape", (x, tuple(shape) if isinstance(shape, (list, tuple)) else shape))
  x = T(ip, x)
  return with_shape(x, tuple(shape))


@model("tf.repeat")
def _tf_repeat(ip, x, repeats=None, axis=None):
  if isinstance(x, Term):
    return Term("repeat", (x,), {"repeats": repeats, "axis": axis})
  x = T(ip, x)
  shp = list(shape_of(x))
  if axis is not None and not is_sym(axis) and 0 <= int(axis) < len(shp) and not is_sym(repeats):
    shp[int(axis)] = shp[int(axis)] * int(repeats)
  return with_shape(x, tuple(shp))


@model("K.max", "tf.reduce_max")
def _k_max(ip, v, axis=None, keepdims=False, **k):
  return _aggregate(ip, "K.max", v, axis, keepdims)


@model("K.mean", "tf.reduce_mean")
def _k_mean(ip, v, axis=None, keepdims=False, **k):
  return _aggregate(ip, "K.mean", v, axis, keepdims)


@model("K.std")
def _k_std(ip, v, axis=None, keepdims=False, **k):
  return _aggregate(ip, "K.std", v, axis, keepdims)


@model("K.sum", "tf.reduce_sum")
def _k_sum(ip, v, axis=None, keepdims=False, **k):
  return _aggregate(ip, "K.sum", v, axis, keepdims)


@model("tf.math.multiply", "tf.multiply")
def _tf_multiply(ip, a, b):
  return ip.binop(ast.Mult(), T(ip, a) if not isinstance(a, Term) else a, b)


@model("tf.range")
def _tf_range(ip, *a, **k):
  if all(conc(x) for x in a):
    return list(range(*[int(x) for x in a]))
  if len(a) == 1:
    return generic_array(ip, 0, a[0], lazy=True)
  if len(a) == 2:
    return generic_array(ip, a[0], a[1], lazy=True)
  raise Unsupported("tf.range with symbolic step")


@model("tf.concat")
def _tf_concat(ip, vals, axis=0):
  if all(isinstance(v, list) for v in vals):
    out = []
    for v in vals:
      out.extend(v)
    return out
  if any(isinstance(v, Term) for v in vals):
    return Term("concat", tuple(vals), {"axis": axis})
  if len(vals) >= 1 and all(v is vals[0] for v in vals) and isinstance(vals[0], SNum) and not is_sym(axis):
    # the same tensor tiled n times: the generic element is unchanged, the extent of the axis grows n-fold
    sh = shape_of(vals[0])
    if sh is not None and -len(sh) <= int(axis) < len(sh):
      sh = list(sh)
      sh[int(axis)] = sh[int(axis)] * len(vals) if not is_sym(sh[int(axis)]) else sh[int(axis)]
      return with_shape(vals[0], tuple(sh))
  if all(isinstance(v, SNum) for v in vals) and getattr(ip, "generic_indexes", None):
    # generic-element arrays: the element under consideration lies in exactly one of the pieces (path split)
    parts = getattr(ip, "concat_parts", None)
    if parts is None:
      parts = ip.concat_parts = []
    def pick(i):
      v = vals[i]
      from z3 import z3util
      names = {str(x) for x in z3util.get_vars(v.e)}
      for n_, (idx, lo_e, hi_e) in enumerate(ip.generic_indexes):
        if str(idx) in names:
          ip.assume(z3.And(lo_e <= idx, idx < hi_e))      # the chosen piece is non-empty and idx ranges over it
          parts.append(n_)
          return v
      parts.append(i)
      return v
    for i in range(len(vals) - 1):
      if ip.truth(SBool(ip.fresh("concat_piece", "bool"))):
        return pick(i)
    return pick(len(vals) - 1)
  raise Unsupported("tf.concat")


@model("tf.rank")
def _tf_rank(ip, x):
  if isinstance(x, SNum) and isinstance(x.tag, dict) and "shape" in x.tag:
    return len(x.tag["shape"])
  if isinstance(x, Term):
    return Term("rank", (x,))
  return 0


@model("tf.shape", "K.shape", "K.int_shape")
def _tf_shape(ip, x):
  if isinstance(x, Term):
    return Term("shape", (x,))
  return shape_of(x) if isinstance(x, SNum) else ShapeList([])


@model("tf.random.uniform", "K.random_uniform")
def _tf_random_uniform(ip, shape=None, minval=0, maxval=None, **k):
  if maxval is None:
    maxval = 1
  cnt = getattr(ip, "draw_counter", None)
  if cnt is None:
    u = ip.fresh("u", "real")
  else:
    # deterministic naming: the i-th draw of a run (lets two runs share their random draws)
    u = z3.Real("udraw_%d" % cnt)
    ip.draw_counter = cnt + 1
  lo, hi = R(ip.num(minval)), R(ip.num(maxval))
  ip.assume(z3.And(lo <= u, u < hi))
  draws = getattr(ip, "draws", None)
  if draws is not None:
    draws.append((u, lo, hi))
  return SNum(u, "tensor", z3.RealVal(0) if ip_tracks_grad(ip) else None)


_LIN_FUNS = {}


def linear_op(kind, key):
  """Uninterpreted convolution-like operator of ONE kernel element / output channel, for fixed inputs and
  hyper-parameters: a function Real -> Real.  Linearity in the kernel (K1) is supplied by contracts as
  explicit instances f(s*k) == s*f(k)."""
  k = (kind, key)
  if k not in _LIN_FUNS:
    _LIN_FUNS[k] = z3.Function("%s#%d" % (kind, len(_LIN_FUNS)), z3.RealSort(), z3.RealSort())
  return _LIN_FUNS[k]


def _conv_like(kind):
  def fn(ip, inputs, kernel, *a, **k):
    if isinstance(kernel, SNum):
      key = repr((repr(inputs), tuple(repr(x) for x in a), tuple(sorted((kk, repr(vv)) for kk, vv in k.items()))))
      f = linear_op(kind, key)
      return SNum(f(R(kernel.e)), "tensor", None, {"shape": (2, 3, 3, 4), "linear_op": (kind, key)})
    return Term("K." + kind, (inputs, kernel) + tuple(a), k)
  return fn


for _k in ("conv2d", "depthwise_conv2d", "conv1d"):
  TABLE["K." + _k] = Builtin("K." + _k, _conv_like(_k))


@model("K.bias_add")
def _k_bias_add(ip, x, b, **k):
  if isinstance(x, SNum) or isinstance(b, SNum):
    return ip.binop(ast.Add(), T(ip, x), b)
  return Term("K.bias_add", (x, b), k)


RSQRT = z3.Function("rsqrt", z3.RealSort(), z3.RealSort())


@model("math_ops.rsqrt", "tf.math.rsqrt", "tf.rsqrt")
def _rsqrt(ip, x):
  if isinstance(x, Term):
    return Term("rsqrt", (x,))
  x = T(ip, x)
  r = RSQRT(R(x.e))
  ip.assume(z3.Implies(R(x.e) > 0, r > 0))
  return SNum(r, "tensor")


@model("math_ops.sqrt")
def _mo_sqrt(ip, x):
  if isinstance(x, Term):
    return Term("sqrt", (x,))
  return _sym_sqrt(ip, T(ip, x))


@model("math_ops.mul", "math_ops.multiply")
def _mo_mul(ip, a, b):
  return ip.binop(ast.Mult(), a, b)


@model("math_ops.cast")
def _mo_cast(ip, x, dtype=None, **k):
  return x


@model("array_ops.reshape")
def _ao_reshape(ip, x, shape):
  return x if not isinstance(x, Term) else Term("reshape", (x, tuple(shape) if isinstance(shape, (list, tuple)) else shape))


@model("tf.nest.is_nested", "tf.python.util.nest.is_nested", "tf.nest.is_sequence")
def _is_nested(ip, v):
  return isinstance(v, (list, tuple, dict))


@model("tf.name_scope", "tf.init_scope", "tf.control_dependencies")
def _noop_ctx(ip, *a, **k):
  return None


@model("tf.debugging.assert_greater", "tf.debugging.assert_equal", "tf.debugging.assert_positive",
       "tf.debugging.assert_greater_equal", "tf.debugging.assert_less_equal", "tf.debugging.assert_less")
def _tf_assert(ip, *a, **k):
  ip.notes.append("tf.debugging assertion not interpreted")
  return None


@model("tf.keras.utils.deserialize_keras_object", "tensorflow.keras.utils.deserialize_keras_object")
def _deserialize_keras_object(ip, identifier, module_objects=None, custom_objects=None, printable_module_name="object"):
  """Assumed contract (K2) of keras deserialize_keras_object for a {'class_name', 'config'} dict:
  look class_name up in custom_objects, then module_objects, and call cls.from_config(config)."""
  if isinstance(identifier, dict) and "class_name" in identifier and "config" in identifier:
    name = identifier["class_name"]
    cls = None
    for table in (custom_objects, module_objects):
      if table is None:
        continue
      if isinstance(table, dict) and name in table:
        cls = table[name]
        break
      if isinstance(table, I.Env) or hasattr(table, "vars"):
        pass
    if cls is None:
      raise PyRaise("ValueError", ("Unknown %s: %s" % (printable_module_name, name),))
    fc = ip.getattr(cls, "from_config") if ip.hasattr(cls, "from_config") else None
    if fc is not None:
      return ip.call(fc, [identifier["config"]], {})
    return ip.call(cls, [], dict(identifier["config"]))
  raise Unsupported("deserialize_keras_object of %r" % (identifier,))


class JsonText(object):
  """json.dumps result: an opaque text carrying its document (json.loads returns an equal fresh copy)."""

  def __init__(self, doc):
    self.doc = doc


@model("json.dumps")
def _json_dumps(ip, obj, *a, **k):
  return JsonText(ip.deepcopy(obj))


@model("json.loads")
def _json_loads(ip, text, *a, **k):
  if isinstance(text, JsonText):
    return ip.deepcopy(text.doc)
  if isinstance(text, str):
    import json
    return json.loads(text)
  raise Unsupported("json.loads of %r" % (text,))


const("types.FunctionType", ExtClass("types.FunctionType", check=lambda v: isinstance(v, (FuncVal, Builtin))))


@model("re.sub")
def _re_sub(ip, pat, repl, s, *a, **k):
  if isinstance(s, str) and isinstance(repl, str):
    import re
    return re.sub(pat, repl, s, *a, **k)
  if isinstance(s, SStr):
    return SStr([("re.sub", pat, repl, s)])
  raise Unsupported("re.sub on %r" % (s,))


@model("re.match")
def _re_match(ip, pat, s, *a):
  if isinstance(s, str) and isinstance(pat, str):
    import re
    m = re.match(pat, s, *a)
    return None if m is None else _MatchObj(m)
  raise Unsupported("re.match symbolic")


@model("re.search")
def _re_search(ip, pat, s, *a):
  if isinstance(s, str) and isinstance(pat, str):
    import re
    m = re.search(pat, s, *a)
    return None if m is None else _MatchObj(m)
  raise Unsupported("re.search symbolic")


@model("re.fullmatch")
def _re_fullmatch(ip, pat, s, *a):
  if isinstance(s, str) and isinstance(pat, str):
    import re
    m = re.fullmatch(pat, s, *a)
    return None if m is None else _MatchObj(m)
  raise Unsupported("re.fullmatch symbolic")


@model("re.compile")
def _re_compile(ip, pat, *a):
  import re
  return _RegexObj(re.compile(pat, *a))


class _MatchObj(object):

  def __init__(self, m):
    self.m = m


class _RegexObj(object):

  def __init__(self, r):
    self.r = r
