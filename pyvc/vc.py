"""Verification conditions: axiom-schema instantiation, solving, concretisation."""
import itertools
import os
import subprocess
import tempfile
import time

import z3

from . import interp as I


def subterms(e, seen=None, out=None):
  if seen is None:
    seen, out = set(), []
  stack = [e]
  while stack:
    t = stack.pop()
    k = t.get_id()
    if k in seen:
      continue
    seen.add(k)
    out.append(t)
    if z3.is_app(t):
      stack.extend(t.children())
    elif z3.is_quantifier(t):
      stack.append(t.body())
  return out


def apps_of(formulas, name):
  seen, out = set(), []
  res = []
  for f in formulas:
    subterms(f, seen, out)
  for t in out:
    if z3.is_app(t) and t.decl().name() == name and t.num_args() > 0:
      res.append(t)
  return res


def pow2_axioms(formulas, hints=()):
  """Ground instances of valid schemata about pow2 over the exponent terms present.

  Every instance is a true statement about 2^n on the integers, so adding them
  can only help a proof; it can never make a false clause provable.
  """
  exps = {}
  for t in apps_of(formulas, "pow2") + apps_of(formulas, "ipow2"):
    a = z3.simplify(t.arg(0))
    exps[a.sexpr()] = a
  for h in hints:
    a = z3.simplify(h)
    exps[a.sexpr()] = a
  ax = []
  two = z3.RealVal(2)
  es = list(exps.values())
  for n in es:
    p = I.POW2(n)
    ax.append(p > 0)
    if z3.is_int_value(n):
      k = n.as_long()
      if -512 <= k <= 512:
        ax.append(p == (z3.RealVal(2 ** k) if k >= 0 else z3.RealVal("1/%d" % (2 ** -k))))
      continue
    ax.append(z3.Implies(n >= 0, z3.And(p == z3.ToReal(I.IPOW2(n)), I.IPOW2(n) >= 1,
                                        p >= z3.ToReal(n) + 1)))
    ax.append(z3.Implies(n <= 0, p <= 1))
    ax.append(z3.Implies(n == 0, p == 1))
    ax.append(z3.Implies(n == 1, p == 2))
    ax.append(z3.Implies(n == -1, p * 2 == 1))
    ax.append(z3.Implies(n >= 2, p >= 4))
    ax.append(z3.Implies(n >= 3, p >= 8))
  for a, b in itertools.combinations(es, 2):
    pa, pb = I.POW2(a), I.POW2(b)
    d = z3.simplify(a - b)
    if z3.is_int_value(d):
      k = d.as_long()
      if -64 <= k <= 64:
        if k >= 0:
          ax.append(pa == z3.RealVal(2 ** k) * pb)
        else:
          ax.append(pb == z3.RealVal(2 ** -k) * pa)
        continue
    ax.append(z3.Implies(a < b, two * pa <= pb))
    ax.append(z3.Implies(b < a, two * pb <= pa))
    ax.append(z3.Implies(a == b, pa == pb))
  # additive instances: pow2(a) * pow2(b) = pow2(a + b) when a + b is present
  if len(es) <= 48:
    for a, b in itertools.combinations_with_replacement(es, 2):
      s = z3.simplify(a + b)
      if z3.is_int_value(s) and -64 <= s.as_long() <= 64:
        k = s.as_long()
        ax.append(I.POW2(a) * I.POW2(b) == (z3.RealVal(2 ** k) if k >= 0 else z3.RealVal("1/%d" % (2 ** -k))))
      elif s.sexpr() in exps:
        ax.append(I.POW2(a) * I.POW2(b) == I.POW2(exps[s.sexpr()]))
  return ax


def log2_axioms(formulas):
  ax = []
  ts = {}
  for t in apps_of(formulas, "log2"):
    ts[t.arg(0).sexpr()] = t.arg(0)
  ts = list(ts.values())
  for x in ts:
    if z3.is_app(x) and x.decl().name() == "pow2":
      ax.append(I.LOG2(x) == z3.ToReal(x.arg(0)))
    s = z3.simplify(x)
    if z3.is_rational_value(s) and s.numerator_as_long() > 0:
      # numeric bracket of log2 of a positive rational constant, to half-integer precision:
      # 2^k <= v < 2^(k+1), and v^2 compared with 2^(2k+1) decides which half
      from fractions import Fraction
      v = Fraction(s.numerator_as_long(), s.denominator_as_long())
      k = 0
      while Fraction(2) ** k > v:
        k -= 1
      while Fraction(2) ** (k + 1) <= v:
        k += 1
      if Fraction(2) ** k == v:
        ax.append(I.LOG2(x) == k)
      else:
        ax.append(z3.And(I.LOG2(x) > k, I.LOG2(x) < k + 1))
        if v * v > Fraction(2) ** (2 * k + 1):
          ax.append(I.LOG2(x) > z3.RealVal(k) + z3.RealVal("1/2"))
        else:
          ax.append(I.LOG2(x) < z3.RealVal(k) + z3.RealVal("1/2"))
    ax.append(z3.Implies(x >= 1, I.LOG2(x) >= 0))
    ax.append(z3.Implies(z3.And(x > 0, x <= 1), I.LOG2(x) <= 0))
    ax.append(z3.Implies(x >= 2, I.LOG2(x) >= 1))
    ax.append(z3.Implies(x == 1, I.LOG2(x) == 0))
    ax.append(z3.Implies(x > 1, I.LOG2(x) > 0))
    ax.append(z3.Implies(z3.And(x > 0, x < 1), I.LOG2(x) < 0))
  for a, b in itertools.combinations(ts, 2):
    ax.append(z3.Implies(z3.And(a > 0, a <= b), I.LOG2(a) <= I.LOG2(b)))
    ax.append(z3.Implies(z3.And(b > 0, b <= a), I.LOG2(b) <= I.LOG2(a)))
    ax.append(z3.Implies(z3.And(a > 0, a < b), I.LOG2(a) < I.LOG2(b)))
    ax.append(z3.Implies(z3.And(b > 0, b < a), I.LOG2(b) < I.LOG2(a)))
  return ax


def monotone_fn_axioms(formulas):
  """tanh and sigmoid: strictly increasing, bounded (ground instances over the terms present)."""
  ax = []
  for name, lo, hi in (("tanh", -1, 1), ("sigmoid", 0, 1)):
    ts = {}
    for t in apps_of(formulas, name):
      ts[t.arg(0).sexpr()] = t
    ts = list(ts.values())
    for t in ts:
      ax.append(z3.And(t > lo, t < hi))
      if name == "tanh":
        ax.append(z3.Implies(t.arg(0) >= 0, t >= 0))
        ax.append(z3.Implies(t.arg(0) <= 0, t <= 0))
      else:
        ax.append(z3.Implies(t.arg(0) >= 0, t * 2 >= 1))
        ax.append(z3.Implies(t.arg(0) <= 0, t * 2 <= 1))
    for a, b in itertools.combinations(ts, 2):
      ax.append(z3.Implies(a.arg(0) < b.arg(0), a < b))
      ax.append(z3.Implies(b.arg(0) < a.arg(0), b < a))
      ax.append(z3.Implies(a.arg(0) == b.arg(0), a == b))
  return ax


def powr_axioms(formulas):
  """v ** e on 0 <= v, e > 0: endpoints, range and monotonicity in v (ground instances).
  (x |-> x^e is increasing on [0, inf) for e > 0: Mathlib Real.rpow_le_rpow.)"""
  ax = []
  ts = {}
  for t in apps_of(formulas, "powr"):
    ts[t.sexpr()] = t
  ts = list(ts.values())
  for t in ts:
    v, e = t.arg(0), t.arg(1)
    ax.append(z3.Implies(z3.And(v >= 0, e > 0), t >= 0))
    ax.append(z3.Implies(z3.And(v >= 0, v <= 1, e > 0), t <= 1))
    ax.append(z3.Implies(z3.And(v == 0, e > 0), t == 0))
    ax.append(z3.Implies(v == 1, t == 1))
  for a, b in itertools.combinations(ts, 2):
    same_e = a.arg(1) == b.arg(1)
    ax.append(z3.Implies(z3.And(same_e, a.arg(1) > 0, a.arg(0) >= 0, a.arg(0) <= b.arg(0)), a <= b))
    ax.append(z3.Implies(z3.And(same_e, a.arg(1) > 0, b.arg(0) >= 0, b.arg(0) <= a.arg(0)), b <= a))
  return ax


def all_axioms(formulas, hints=()):
  ax = pow2_axioms(formulas, hints)
  ax += log2_axioms(formulas + ax)
  ax += monotone_fn_axioms(formulas)
  ax += powr_axioms(formulas)
  return ax


class Outcome(object):

  def __init__(self, status, solver="", seconds=0.0, model=None, reason=""):
    self.status = status       # 'unsat' | 'sat' | 'unknown'
    self.solver = solver
    self.seconds = seconds
    self.model = model
    self.reason = reason


def check_sat(constraints, timeout_ms=10000, use_external=True):
  """-> Outcome.  z3 (API) first; cvc5 and /usr/bin/z3 on unknown."""
  t0 = time.time()
  s = z3.Solver()
  s.set("timeout", int(timeout_ms))
  for c in constraints:
    s.add(c)
  r = s.check()
  dt = time.time() - t0
  if r == z3.unsat:
    return Outcome("unsat", "z3-%s" % z3.get_version_string(), dt)
  if r == z3.sat:
    return Outcome("sat", "z3-%s" % z3.get_version_string(), dt, s.model())
  reason = s.reason_unknown()
  if not use_external:
    return Outcome("unknown", "z3", dt, reason=reason)
  smt2 = "(set-logic ALL)\n" + s.to_smt2().replace("(set-info :status unknown)", "")
  for name, cmd in (("cvc5", ["/usr/bin/cvc5", "--lang=smt2", "--nl-ext-tplanes",
                              "--tlimit=%d" % int(timeout_ms)]),
                    ("z3-4.8", ["/usr/bin/z3", "-smt2", "-T:%d" % max(1, int(timeout_ms / 1000))])):
    t1 = time.time()
    res = run_external(cmd, smt2, timeout_ms / 1000.0 + 5)
    dt += time.time() - t1
    if res == "unsat":
      return Outcome("unsat", name, dt)
  return Outcome("unknown", "z3+cvc5+z3-4.8", dt, reason=reason)


def run_external(cmd, smt2, timeout_s):
  d = os.environ.get("PYVC_WORK", os.path.join(os.path.dirname(os.path.dirname(os.path.abspath(__file__))), ".work"))
  os.makedirs(d, exist_ok=True)
  fd, path = tempfile.mkstemp(suffix=".smt2", dir=d)
  try:
    with os.fdopen(fd, "w") as f:
      f.write(smt2)
      if "(check-sat)" not in smt2:
        f.write("\n(check-sat)\n")
    try:
      p = subprocess.run(cmd + [path], capture_output=True, text=True, timeout=timeout_s)
    except subprocess.TimeoutExpired:
      return "unknown"
    out = p.stdout.strip().splitlines()
    return out[0].strip() if out else "unknown"
  finally:
    try:
      os.unlink(path)
    except OSError:
      pass


def concretise_constraints(formulas, lo=-40, hi=40):
  """Define pow2 as a table on [lo, hi] for every exponent term present, so that
  a model is a genuine integer/rational assignment rather than an artefact of
  the uninterpreted symbol."""
  cs = []
  seen = {}
  for t in apps_of(formulas, "pow2"):
    n = t.arg(0)
    if n.sexpr() in seen or z3.is_int_value(z3.simplify(n)):
      continue
    seen[n.sexpr()] = n
    alts = []
    for j in range(lo, hi + 1):
      val = z3.RealVal(2 ** j) if j >= 0 else z3.RealVal("1/%d" % (2 ** -j))
      alts.append(z3.And(n == j, I.POW2(n) == val))
    cs.append(z3.Or(*alts))
  from . import lib as L
  for t in apps_of(formulas, "rnd"):
    a = t.arg(0)
    d = z3.ToReal(t) - a
    if L.PRECISE_TIES[0]:
      # round-half-even on every application term (the library semantics of tf.round/np.round)
      cs.append(z3.And(d <= z3.RealVal("1/2"), -d <= z3.RealVal("1/2"),
                       z3.Implies(z3.Or(d == z3.RealVal("1/2"), -d == z3.RealVal("1/2")), t % 2 == 0)))
    else:
      # ties are "allowed either way": a genuine witness must not depend on how a tie is broken
      cs.append(z3.And(d < z3.RealVal("1/2"), -d < z3.RealVal("1/2")))
  for t in apps_of(formulas, "ipow2"):
    n = t.arg(0)
    alts = [z3.And(n == j, I.IPOW2(n) == 2 ** j) for j in range(0, hi + 1)]
    cs.append(z3.Or(z3.Or(*alts), n < 0))
  return cs


def model_value(model, e):
  v = model.eval(e, model_completion=True)
  if z3.is_int_value(v):
    return v.as_long()
  if z3.is_rational_value(v):
    n, d = v.numerator_as_long(), v.denominator_as_long()
    return n if d == 1 else "%d/%d" % (n, d)
  if z3.is_true(v):
    return True
  if z3.is_false(v):
    return False
  if z3.is_algebraic_value(v):
    return str(v.approx(20))
  return str(v)
