"""Value domain of the PyVC symbolic executor.

Concrete Python values (int, float, Fraction, bool, str, None, tuple, list,
dict, set) are used as they are.  Everything here is what can *additionally*
flow through the interpreter.
"""
from fractions import Fraction
import z3


class Unsupported(Exception):
  """Construct outside the supported fragment: obligation becomes undecided."""


class PathAbort(Exception):
  """The current path condition is infeasible."""


class PyRaise(Exception):
  """A Python exception raised by the interpreted program."""

  def __init__(self, name, args=(), node=None):
    Exception.__init__(self, name)
    self.name = name
    self.eargs = args
    self.node = node

  def __str__(self):
    return "%s%r" % (self.name, tuple(self.eargs))


class Sym(object):
  pass


class SNum(Sym):
  """Symbolic number.  e is a z3 Int or Real term.

  pytype: 'int' | 'float' | 'tensor'.  'tensor' means one element of a TF
  tensor (division by zero does not raise, truthiness is unsupported).
  grad: optional z3 Real term, d(value)/d(designated input) (C06).
  """
  __slots__ = ("e", "pytype", "grad", "tag")

  def __init__(self, e, pytype=None, grad=None, tag=None):
    self.e = e
    if pytype is None:
      pytype = "int" if e.sort() == z3.IntSort() else "float"
    self.pytype = pytype
    self.grad = grad
    self.tag = tag

  @property
  def is_int_sort(self):
    return self.e.sort() == z3.IntSort()

  def real(self):
    return z3.ToReal(self.e) if self.is_int_sort else self.e

  def __repr__(self):
    return "SNum(%s:%s)" % (self.e, self.pytype)


class SBool(Sym):
  __slots__ = ("e", "pytype")

  def __init__(self, e, pytype="bool"):
    self.e = e
    self.pytype = pytype

  def __repr__(self):
    return "SBool(%s)" % (self.e,)


class SStr(Sym):
  """Symbolic string described structurally: a list of pieces.

  A piece is a concrete str or a tuple ('str', value) meaning Python's
  str(value) of a symbolic/opaque value.  Used by the C10 printing
  obligations; no solver-level string reasoning happens on these.
  """
  __slots__ = ("pieces",)

  def __init__(self, pieces):
    out = []
    for p in pieces:
      if isinstance(p, str) and out and isinstance(out[-1], str):
        out[-1] += p
      elif isinstance(p, str) and p == "":
        continue
      else:
        out.append(p)
    self.pieces = out

  def __repr__(self):
    return "SStr(%r)" % (self.pieces,)


class Term(object):
  """Uninterpreted application (term mode).  Structural equality."""
  __slots__ = ("op", "args", "kw", "_h")

  def __init__(self, op, args=(), kw=()):
    self.op = op
    self.args = tuple(args)
    self.kw = tuple(sorted(kw.items())) if isinstance(kw, dict) else tuple(kw)
    self._h = None

  def key(self):
    return (self.op, tuple(_key(a) for a in self.args),
            tuple((k, _key(v)) for k, v in self.kw))

  def __eq__(self, other):
    return isinstance(other, Term) and self.key() == other.key()

  def __ne__(self, other):
    return not self.__eq__(other)

  def __hash__(self):
    if self._h is None:
      self._h = hash(self.key())
    return self._h

  def __repr__(self):
    parts = [show(a) for a in self.args] + [
        "%s=%s" % (k, show(v)) for k, v in self.kw]
    return "%s(%s)" % (self.op, ", ".join(parts))


def _key(v):
  if isinstance(v, Term):
    return v.key()
  if isinstance(v, (list, tuple)):
    return (type(v).__name__,) + tuple(_key(x) for x in v)
  if isinstance(v, dict):
    return ("dict",) + tuple((k, _key(x)) for k, x in sorted(
        v.items(), key=lambda kv: repr(kv[0])))
  if isinstance(v, SNum) or isinstance(v, SBool):
    return ("sym", v.e.sexpr())
  if isinstance(v, Obj):
    return ("obj", id(v))
  if isinstance(v, (ClassVal, FuncVal, Builtin, ExtAttr)):
    return ("named", repr(v))
  if isinstance(v, float) and v == int(v):
    return ("num", int(v))
  if isinstance(v, bool):
    return ("bool", v)
  if isinstance(v, int):
    return ("num", v)
  try:
    hash(v)
    return v
  except TypeError:
    return ("repr", repr(v))


def show(v):
  if isinstance(v, Term):
    return repr(v)
  if isinstance(v, Obj):
    return v.label or "<%s>" % v.cls.name
  return repr(v)


class Obj(object):
  """Heap object: instance of a repo class (or of an opaque external one)."""

  def __init__(self, cls, attrs=None, label=None):
    self.cls = cls
    self.attrs = dict(attrs or {})
    self.label = label

  def __repr__(self):
    return "<%s %s>" % (self.cls.name, self.label or hex(id(self))[-5:])


class ClassVal(object):

  def __init__(self, name, bases, ns, module, node=None):
    self.name = name
    self.bases = bases
    self.ns = ns
    self.module = module
    self.node = node
    self.decorators = []
    self._mro = None

  def mro(self):
    if self._mro is None:
      out = [self]
      for b in self.bases:
        if isinstance(b, ClassVal):
          for c in b.mro():
            if c not in out:
              out.append(c)
        else:
          if b not in out:
            out.append(b)
      self._mro = out
    return self._mro

  def lookup(self, name, after=None):
    seen = after is None
    for c in self.mro():
      if not seen:
        if c is after:
          seen = True
        continue
      if isinstance(c, ClassVal):
        if name in c.ns:
          return c.ns[name], c
      elif isinstance(c, ExtClass):
        if name in c.ns:
          return c.ns[name], c
    return None, None

  def is_subclass(self, other):
    return other in self.mro()

  def __repr__(self):
    return "<class %s>" % self.name


class ExtClass(object):
  """External (library) class used as a base or as an isinstance target."""

  def __init__(self, name, ns=None, check=None):
    self.name = name
    self.ns = ns or {}
    self.check = check   # callable(value) -> bool for isinstance

  def mro(self):
    return [self]

  def __repr__(self):
    return "<extclass %s>" % self.name


class FuncVal(object):

  def __init__(self, node, env, module, name=None, defclass=None):
    self.node = node
    self.env = env
    self.module = module
    self.name = name or getattr(node, "name", "<lambda>")
    self.defclass = defclass
    self.defaults = None
    self.kw_defaults = None
    self.decorators = []
    self.kind = "function"   # 'function' | 'staticmethod' | 'classmethod' | 'property'

  def __repr__(self):
    return "<function %s.%s>" % (self.module.name if self.module else "?",
                                 self.qualname())

  def qualname(self):
    if self.defclass is not None:
      return "%s.%s" % (self.defclass.name, self.name)
    return self.name


class BoundMethod(object):

  def __init__(self, self_val, func):
    self.self_val = self_val
    self.func = func

  def __repr__(self):
    return "<bound %r of %r>" % (self.func, self.self_val)


class Builtin(object):
  """Library function modelled in Python: fn(interp, *args, **kwargs)."""

  def __init__(self, name, fn):
    self.name = name
    self.fn = fn

  def __repr__(self):
    return "<builtin %s>" % self.name


class ModuleVal(object):

  def __init__(self, name, path=None):
    self.name = name
    self.path = path
    self.env = {}
    self.loaded = False
    self.tree = None
    self.source = None

  def __repr__(self):
    return "<module %s>" % self.name


class ExtModule(object):
  """External library namespace; attributes resolved through the axiom table."""

  def __init__(self, name):
    self.name = name

  def __repr__(self):
    return "<extmodule %s>" % self.name


class ExtAttr(object):
  """Unmodelled external attribute.  Using it is Unsupported unless the
  interpreter is in term mode, where calling it builds a Term."""

  def __init__(self, path):
    self.path = path

  def __repr__(self):
    return "<ext %s>" % self.path


class ExcClass(object):
  """Exception class (builtin)."""

  def __init__(self, name, parents=()):
    self.name = name
    self.parents = tuple(parents)

  def __repr__(self):
    return "<exc %s>" % self.name


class ExcVal(object):

  def __init__(self, cls, args):
    self.cls = cls
    self.args = args

  def __repr__(self):
    return "%s%r" % (self.cls.name, tuple(self.args))


def is_sym(v):
  return isinstance(v, Sym)


def to_frac(v):
  if isinstance(v, bool):
    return Fraction(int(v))
  if isinstance(v, int):
    return Fraction(v)
  if isinstance(v, float):
    return Fraction(v)
  if isinstance(v, Fraction):
    return v
  raise Unsupported("not a number: %r" % (v,))


def zint(v):
  return z3.IntVal(int(v))


def zreal(v):
  f = to_frac(v)
  return z3.RealVal(str(f.numerator) + "/" + str(f.denominator)) if f.denominator != 1 else z3.RealVal(f.numerator)


def _shape_tag(v):
  t = getattr(v, "tag", None)
  if isinstance(v, SNum) and isinstance(t, dict) and "shape" in t:
    return tuple(t["shape"])
  return None


# opt-in (set by a scenario whose tensors carry their real extents, reset for every case): several library models
# abstract a convolution / matrix product by element-wise arithmetic on operands of different shapes, where the
# check would be wrong
STRICT_SHAPES = [False]


def broadcast_shape(vals):
  """numpy-style broadcast of the extents recorded on symbolic tensor elements (None when none carries extents)."""
  shapes = [sh for sh in (_shape_tag(v) for v in vals) if sh is not None]
  if not shapes:
    return None
  rank = max(len(sh) for sh in shapes)
  out = []
  for i in range(rank):
    d = 1
    for sh in shapes:
      j = i - (rank - len(sh))
      if j >= 0:
        x = sh[j]
        if not (isinstance(x, int) and x == 1):
          if STRICT_SHAPES[0] and isinstance(x, int) and isinstance(d, int) and d != 1 and d != x:
            # two concrete extents that do not broadcast: TensorFlow / numpy raise here
            raise PyRaise("InvalidArgumentError", ("Incompatible shapes: %r" % (shapes,),))
          d = x
    out.append(d)
  return tuple(out)


def inherit_shape(out, vals):
  """Element-wise operations keep the (broadcast) extents of their tensor operands."""
  if isinstance(out, SNum) and _shape_tag(out) is None and out.pytype == "tensor":
    sh = broadcast_shape(vals)
    if sh is not None:
      tag = dict(out.tag) if isinstance(out.tag, dict) else {}
      tag["shape"] = sh
      return SNum(out.e, out.pytype, out.grad, tag)
  return out
