"""Dev tool: verify a seeded change independently.
usage: dev_seed_verify.py <seed-id> <worktree> <patch> <demo> <PROP>
 - demo must exit 0 on the unchanged tree and non-zero with the patch
 - the 90 baseline tests must still pass with the patch
Writes /verif/seeded/<seed-id>/{patch.diff,demo.py,meta.json(partial)}.
"""
import json, os, shutil, subprocess, sys, xml.etree.ElementTree as ET
sid, wt, patch, demo, prop = sys.argv[1:6]
out = "/verif/seeded/" + sid
os.makedirs(out, exist_ok=True)
shutil.copy(patch, out + "/patch.diff")
shutil.copy(demo, out + "/demo.py")
env = dict(os.environ, PYTHONPATH=wt, TF_CPP_MIN_LOG_LEVEL="3", CUDA_VISIBLE_DEVICES="")
def run(cmd, **kw):
  return subprocess.run(cmd, cwd=wt, env=env, capture_output=True, text=True, **kw)
run(["git", "checkout", "--", "qkeras"])
r0 = run(["/venv/bin/python", out + "/demo.py"])
a = run(["git", "apply", out + "/patch.diff"])
assert a.returncode == 0, a.stderr
r1 = run(["/venv/bin/python", out + "/demo.py"])
junit = "/tmp/seed_%s.xml" % sid
t = run(["/venv/bin/python", "-m", "pytest", "-q", "-p", "no:cacheprovider", "--timeout=900",
         "--continue-on-collection-errors", "--junitxml=" + junit])
passed = set()
for tc in ET.parse(junit).getroot().iter("testcase"):
  if not any(ch.tag in ("failure", "error", "skipped") for ch in tc):
    passed.add(tc.get("classname") + "::" + tc.get("name"))
base = set(json.load(open("/root/.vp/BASELINE.json"))["stable_pass"])
missing = sorted(base - passed)
meta = {"seed": sid, "property": prop, "demo_exit_unchanged": r0.returncode, "demo_exit_patched": r1.returncode,
        "demo_patched_tail": (r1.stdout + r1.stderr)[-400:], "baseline_tests_passing_with_patch": len(base & passed),
        "baseline_missing_with_patch": missing}
json.dump(meta, open(out + "/verify.json", "w"), indent=1)
print(json.dumps(meta, indent=1))
