"""Dev tool: regenerate MANIFEST.json from the table below."""
import json
CLAIMED = {
 "C01": ("proof", "Unbounded proof (all bits/integer, real-valued inputs) that quantized_bits/relu/linear/tanh/sigmoid __call__ equals scale*step*clip(rnd(p)) of the declared format (so every output is an in-range integer code) and that min()/max() enclose it; known defects carved out as regions.", "A1 reals for float32 (exact under the 2^24 premise), rnd ties unspecified, CPython semantics of pyvc.interp, TF op models in pyvc/lib.py; range() enumeration and ulp-level behaviour not covered."),
 "C02": ("proof", "Same spec equality plus nearest/saturation facts of the code, monotonicity (two-run VC) and idempotence (function run on its own symbolic output) for all configurations.", "As C01; leaky-ReLU sat_lo clause not claimed (solver timeout)."),
 "C03": ("proof", "quantized_po2/quantized_relu_po2 output = sign*2^e with e the rounded/floored log2 of the clamped magnitude clipped to the documented exponent interval; sign, max_value, monotone, idempotent, min/max clauses.", "log2/pow2 axiom schemata, real arithmetic (breakpoint ulps not covered), max_value a power of two >= 2^-23, quadratic_approximation and stochastic po2 rounding not covered."),
 "C06": ("proof", "Dual-number interpretation of the same ASTs: d ret/dx equals the documented surrogate derivative for every class/option case, away from kinks.", "Derivative rules of TF ops in pyvc/lib.py are assumed (GradientTape replay confirms counter-models); auto-scaled quantizers not covered."),
 "C07": ("proof", "Three-run mixing identity, f=0 surrogate and f=1 code clauses for every knob-bearing quantizer; update API equivalence in float and tf.Variable modes; schedule clauses and the inductive step of the never-decreasing history invariant; collector.", "tf.Variable as an assign/read cell; np.power monotone on [0,1]; get_quantizers checked on a concrete 6-layer pattern model (loop body per pattern)."),
 "C08": ("proof", "Random draw universally quantified: adjacency/threshold/fixed-point clauses of stochastic_round and of the fixed-point quantizers in phase 1, closed-form unbiasedness, phase-0 equality with the round-to-nearest configuration.", "A4 uniformity only for `unbiased`; stochastic po2 rounding and stochastic_binary/ternary phase 1 not covered."),
 "C09": ("proof", "For each of the 14 registered classes and each option variant: from_config(get_config()) and get_quantizer(dict) do not raise and restore every attribute read by __call__/max/min (read set computed from the AST), hence the same function; where an attribute differs the outputs of both quantizers are compared symbolically (native probe as a labelled bounded fallback). Registry lookup for all 14 decorated classes.", "K2 contract of deserialize_keras_object; non-numeric options varied one at a time; frame argument (equal read state => equal output); reduction ops as uninterpreted group aggregates."),
 "C10": ("proof", "Printing: __str__ of every registered class x option variant executed symbolically; the text is tokenised per the GetParams contract, items bound to constructor parameters, literal text converted by the real GetArg; clauses no_raise / parses / slot_<param> / omitted_<param>. Parsing: GetParams args/kwargs/order-check for every positional/keyword pattern up to 5 items with opaque tokens; safe_eval dispatch and a syntactic no-exec frame clause.", "pyparsing tokenisation assumed (K); str(number) free of separators and GetArg(str(v)) == v assumed; literal-level GetArg behaviour on arbitrary text is NOT proved here (strings are outside the engine's solver fragment)."),
 "C19": ("proof", "get_operation_count per layer-class branch equals the closed-form MAC count for all symbolic geometries (polynomial identities); memory_read/write_energy non-negative and zero for fixed placement; extract_energy_sum/profile equal the sum of the selected entries.", "Keras compute_output_shape / kernel shapes assumed (K4); energy_estimate's per-layer op_cost formulas and the model-level total are not covered; closed-form MAC counts taken as the definition of the loop-nest count."),
 "C20": ("proof", "ForgivingFactor.delta: zero at equal sizes, sign, strictly decreasing (two-run VC over symbolic reals); ForgivingFactorBits size model per layer/activation case with symbolic shapes and bit widths; AutoQKHyperModel._get_quantizer for ALL tuner choices (hp.Choice forks over every member): membership, within-limit, none-iff-unlimited, one shared choice per pattern group; _adjust_limit.", "keras-tuner hp contract assumed; log axioms; quantize_model's loop over layers and its composition with model_quantize are not covered (only the limit filter it calls)."),
 "C16": ("proof", "Unbounded proof (all bit widths, integer bits, power-of-two max values) that every product of two operand values fits the output type reported by MultiplierFactory.make_multiplier, per table cell, with implementation kind and frame clauses; known defects carved out as explicit input regions and re-confirmed natively each run.", "CPython semantics of pyvc.interp, copy.deepcopy as structural copy, pow2/log2 axiom schemata (ground instances); max_value restricted to powers of two."),
 "C17": ("proof", "Unbounded proof (all widths, all N) of accumulator fits_sum_N/frac_keep, adder fits_sum/frac_keep/mono_widen per table cell, merge Add/Maximum/Concatenate for 2 and 3 inputs; known defects carved out as regions.", "Sum lemma (sum of N bounded grid values lies in [N*min, N*max] on the grid), merge layers only for 2-3 inputs, same trusted base as C16."),
}
NA = {}
ORDER = ["C%02d" % i for i in range(1, 21)]
checks = []
for pid in ORDER:
  if pid in CLAIMED:
    cat, text, note = CLAIMED[pid]
    checks.append({"property_id": pid, "quick_cmd": "./check %s quick" % pid, "thorough_cmd": "./check %s thorough" % pid,
                   "evidence_file": "/verif/evidence/%s.json" % pid, "replay_cmd_template": "./check %s quick --replay {path}" % pid,
                   "engine": "pyvc", "level_claimed": {"category": cat, "text": text, "design_ref": "DESIGN.md section 4 " + pid},
                   "level_note": note, "technique": "contract-based deductive verification (AST-level VC generation + SMT)"})
import os
m = json.load(open("/verif/MANIFEST.json"))
m["checks"] = checks
m["engines"][0]["serves_properties"] = sorted(CLAIMED)
na_path = "/verif/dev_not_applicable.json"
na = json.load(open(na_path)) if os.path.exists(na_path) else {}
m["not_applicable"] = [{"property_id": p, "reason": na.get(p, "contract-level obligations for this property are not built yet in this round (engine: pyvc); not claimed rather than claimed at a level it does not have")} for p in ORDER if p not in CLAIMED]
json.dump(m, open("/verif/MANIFEST.json", "w"), indent=1)
print(len(checks), "claimed;", len(m["not_applicable"]), "not claimed")
