"""C13 - saving, cloning or reloading a quantized model preserves its predictions.

Decomposition (each part is a contract on the real code; Keras' own (de)serialisation is the assumed contract K2:
a model is rebuilt layer by layer as  custom_objects[class_name].from_config(config)  and given the same weights):

  table      utils._add_supported_quantized_objects: after the call, for EVERY serialisable class C that the library
             defines in the anchored modules (enumerated from the ASTs on every run: top-level classes that define or
             inherit a library get_config), table[C.__name__] is C           -> "no user-supplied custom objects"
  routes     utils.clone_model / quantized_model_from_json / load_qmodel pass a table that contains the library table
             AND the caller's objects to Keras, do not mutate the caller's dict, and clone_model copies the weights
  config     for every quantized layer class: from_config(get_config()) restores every constructor argument
             (constructor run with a distinct opaque value for every parameter; Keras base constructor / get_config
             replaced by contract K1: it stores and reports its keyword arguments)
             -> same quantizers (C09: same function), same hyper-parameters; with the same weights (routes) and C11
                (call is a function of those attributes and the weights) the predictions are identical.
  wrappers   Clip / QInitializer config round trip on symbolic values.
"""
import ast

import z3

from pyvc.contract import Case, Scen, run_call
from pyvc.values import *  # noqa
from pyvc import interp as I

PROP = "C13"
MODULES = ["qkeras.qlayers", "qkeras.qconvolutional", "qkeras.qnormalization", "qkeras.qpooling", "qkeras.qrecurrent",
           "qkeras.qmac", "qkeras.qconv2d_batchnorm", "qkeras.qdepthwiseconv2d_batchnorm",
           "qkeras.qdepthwise_conv2d_transpose", "qkeras.qseparable_conv2d_transpose", "qkeras.quantizers"]
ABSTRACT = {"BaseQuantizer", "PrunableLayer"}
ASSUME = ["K2: Keras rebuilds a model as custom_objects[class_name].from_config(config) per layer and assigns the saved weights",
          "K1: a Keras base-class constructor stores its keyword arguments; its get_config reports them",
          "deserialize(serialize(x)) behaves as x (C09 for quantizers)"]


def library_classes(ip):
  """[(module, class name)] of serialisable library classes, from the ASTs."""
  out = []
  for m in MODULES:
    mod = ip.get_module(m)
    for node in mod.tree.body:
      if isinstance(node, ast.ClassDef) and not node.name.startswith("_") and node.name not in ABSTRACT:
        cv = mod.env.vars.get(node.name)
        if isinstance(cv, ClassVal):
          f, owner = cv.lookup("get_config")
          if f is not None:
            out.append((m, node.name))
  return out


def table_scenario(modname, clsname):
  def scenario(ip):
    s = Scen()
    utils = ip.get_module("qkeras.utils")
    table = {}
    r = run_call(ip, utils.env.vars["_add_supported_quantized_objects"], [table])
    s.claim("no_raise", r[0] == "return")
    if r[0] != "return":
      s.info["raised"] = str(r[1])
      return s
    cls = ip.get_module(modname).env.vars[clsname]
    s.replay = {"class": clsname, "module": modname}
    s.claim("in_table", table.get(clsname) is cls)
    return s
  return scenario


def routes_scenario(route):
  def scenario(ip):
    s = Scen()
    utils = ip.get_module("qkeras.utils")
    user_obj = Term("user_object")
    user = {"MyLayer": user_obj}
    lib = {}
    ip.call(utils.env.vars["_add_supported_quantized_objects"], [lib], {})
    seen = {}

    # three layers: trainable weights, weights that are all NON-trainable (frozen layer / moving statistics only), none.
    # The contract is stated on what each rebuilt layer ends up holding, so a whole-model set_weights and a correct
    # layer-by-layer copy both satisfy it (seed c13-8 guarded the copy by trainable_weights)
    W = [[Term("w_dense")], [Term("w_frozen_a"), Term("w_frozen_b")], []]
    TW = [[Term("w_dense")], [], []]
    got = [None, None, None]

    def mk_layers(dst):
      out_ = []
      for i_ in range(3):
        a_ = {"name": "l%d" % i_, "trainable_weights": list(TW[i_]), "weights": list(W[i_]),
              "get_weights": Builtin("get_weights", lambda ip__, i_=i_: list(W[i_]))}
        if dst:
          a_["set_weights"] = Builtin("set_weights", lambda ip__, w, i_=i_: got.__setitem__(i_, list(w)))
        out_.append(Obj(ExtClass("Layer"), a_))
      return out_

    def model_set_weights(ip__, w):
      w = list(w)
      pos = 0
      for i_ in range(3):
        got[i_] = w[pos:pos + len(W[i_])]
        pos += len(W[i_])
      seen["weights"] = w

    def fake_from_json(ip_, js, custom_objects=None):
      seen["co"] = custom_objects
      seen["json"] = js
      return Obj(ExtClass("Model"), {"set_weights": Builtin("set_weights", model_set_weights), "layers": mk_layers(True)},
                 label="rebuilt")

    def fake_load(ip_, path, custom_objects=None, compile=True):   # pylint: disable=redefined-builtin
      seen["co"] = custom_objects
      seen["path"] = path
      seen["compile"] = compile
      return Term("loaded")
    ip.setattr(utils, "model_from_json", Builtin("model_from_json", fake_from_json))
    ip.lib.TABLE["tf.keras.models.load_model"] = Builtin("load_model", fake_load)
    model = Obj(ExtClass("Model"), {"to_json": Builtin("to_json", lambda ip_: "JSON"), "layers": mk_layers(False),
                                   "get_weights": Builtin("get_weights", lambda ip_: [x for ws in W for x in ws])},
                label="model")
    if route == "clone":
      r = run_call(ip, utils.env.vars["clone_model"], [model, user])
    elif route == "json":
      r = run_call(ip, utils.env.vars["quantized_model_from_json"], ["JSON", user])
    else:
      r = run_call(ip, utils.env.vars["load_qmodel"], ["file.h5", user], {"compile": False})
    s.claim("no_raise", r[0] == "return")
    if r[0] != "return":
      s.info["raised"] = str(r[1])
      return s
    co = seen.get("co")
    ok = isinstance(co, dict) and all(co.get(k) is v for k, v in lib.items()) and co.get("MyLayer") == user_obj
    s.claim("table_passed", ok)
    s.claim("caller_dict_untouched", user == {"MyLayer": user_obj} and co is not user)
    if route == "clone":
      s.claim("same_document", seen.get("json") == "JSON")
      s.claim("weights_copied", all((got[i_] or []) == W[i_] for i_ in range(3)))
    elif route == "json":
      s.claim("same_document", seen.get("json") == "JSON")
    else:
      s.claim("same_file", seen.get("path") == "file.h5" and seen.get("compile") is False)
    return s
  return scenario


def cases(tier):
  out = []
  from pyvc import contract as C
  ip = C.new_interp()
  for m, c in library_classes(ip):
    out.append(Case(PROP, "qkeras/utils.py::_add_supported_quantized_objects", "class_" + c, table_scenario(m, c),
                    replay_kind="c13_table", assumptions=ASSUME))
  for m, c in LAYER_CLASSES:
    for vname, variant in (("bias", {}), ("nobias", {"use_bias": False}), ("act", {"activation": "ACT"}),
                           ("noquant", {"__all_quantizers__": None}), ("mask31", {"mask": "MASK31"}), ("mask13", {"mask": "MASK13"}),
                           ("mask33", {"mask": "MASK33"})):
      if vname.startswith("mask") and c != "QConv2D":
        continue
      if vname == "noquant" and c in ("QActivation", "QAdaptiveActivation"):
        continue
      if vname == "act" and c in ("QActivation", "QAdaptiveActivation", "QAveragePooling2D", "QGlobalAveragePooling2D",
                                  "QScaleShift", "QBatchNormalization"):
        continue
      if c == "QAdaptiveActivation":
        variant = dict(variant, activation="quantized_bits" if vname == "bias" else "quantized_relu", ema_freeze_delay=5,
                       relu_upper_bound=6.0, relu_neg_slope=0.125)
      out.append(Case(PROP, "%s.py::%s.get_config" % (m.replace(".", "/"), c), "roundtrip_" + vname,
                      layer_scenario(m, c, variant), replay_kind=None, assumptions=ASSUME, term_mode=True))
  for c in ("Clip", "QInitializer"):
    out.append(Case(PROP, "qkeras/qlayers.py::%s.get_config" % c, "roundtrip", wrapper_scenario(c), replay_kind=None,
                    assumptions=ASSUME, term_mode=True))
  for route in ("clone", "json", "load"):
    target = {"clone": "clone_model", "json": "quantized_model_from_json", "load": "load_qmodel"}[route]
    out.append(Case(PROP, "qkeras/utils.py::" + target, "route", routes_scenario(route), replay_kind=None,
                    assumptions=ASSUME, term_mode=True))
  return out


# ------------------------------------------------------------------ layer config round trip
def norm(v):
  """K2: deserialize(serialize(x)) behaves as x."""
  if isinstance(v, Term):
    if v.op.endswith("serialize") or v.op.endswith("serialize_keras_object") or v.op.endswith(".get"):
      return norm(v.args[0]) if v.args else v
    return Term(v.op, tuple(norm(a) for a in v.args), tuple((k, norm(x)) for k, x in v.kw))
  if isinstance(v, (list, tuple)):
    return type(v)(norm(x) for x in v)
  if isinstance(v, dict):
    return {k: norm(x) for k, x in v.items()}
  return v


def same_val(a, b, depth=0):
  import numpy as _np
  a, b = norm(a), norm(b)
  if isinstance(a, _np.ndarray) or isinstance(b, _np.ndarray):
    return isinstance(a, _np.ndarray) and isinstance(b, _np.ndarray) and a.shape == b.shape and bool(_np.array_equal(a, b))
  if isinstance(a, Obj) or isinstance(b, Obj):
    if a is b:
      return True
    # two objects of the same library class with equal state behave alike
    if isinstance(a, Obj) and isinstance(b, Obj) and a.cls is b.cls and isinstance(a.cls, ClassVal) and depth < 3:
      ka = {k for k, v in a.attrs.items() if not isinstance(v, (Builtin, FuncVal, BoundMethod))}
      kb = {k for k, v in b.attrs.items() if not isinstance(v, (Builtin, FuncVal, BoundMethod))}
      return ka == kb and all(same_val(a.attrs[k], b.attrs[k], depth + 1) for k in ka)
    if isinstance(a, Obj) and isinstance(b, Obj) and a.attrs.get("__var__") and b.attrs.get("__var__"):
      return same_val(a.attrs.get("value"), b.attrs.get("value"), depth + 1)
    return False
  if is_sym(a) or is_sym(b):
    try:
      return bool(z3.is_true(z3.simplify(a.e == b.e)))
    except Exception:  # pylint: disable=broad-except
      return False
  if isinstance(a, (list, tuple)) and isinstance(b, (list, tuple)):
    return len(a) == len(b) and all(same_val(x, y) for x, y in zip(a, b))
  try:
    return bool(a == b)
  except Exception:  # pylint: disable=broad-except
    return a is b


def gq_contract(ip, fv, a, k):
  """contract of quantizers.get_quantizer: None -> None, an object -> itself, serialised form -> the object (C09),
  a string -> the quantizer it denotes (C10)."""
  x = a[0] if a else k.get("identifier")
  x = norm(x)
  if x is None or isinstance(x, (Obj, Builtin, Term)):
    return x
  if isinstance(x, str):
    if x in ("quantized_bits", "quantized_relu"):
      # a bare class name denotes the default-constructed quantizer (QAdaptiveActivation)
      return ip.call(ip.getattr(ip.get_module("qkeras.quantizers"), x), [], {})
    return Term("quantizer-of", (x,))
  return x


SKIP_ATTRS = {"__base_kwargs__", "__base_args__"}
# optimizer-step bookkeeping of QAdaptiveActivation: training-time state, outside the statement (predictions)
TRAINING_ONLY = {"step", "is_estimating_step_count"}
# concrete values for parameters that steer control flow in the constructors
CONCRETE = {"use_bias": True, "activation": None, "return_sequences": False, "return_state": False,
            "go_backwards": False, "stateful": False, "unroll": False, "time_major": False, "reset_after": False,
            "center": True, "scale": True, "renorm": False, "virtual_batch_size": None, "adjustment": None,
            "fused": None, "dropout": 0.0, "recurrent_dropout": 0.0, "implementation": 1, "unit_forget_bias": True,
            "mask": None, "total_bits": 5, "data_format": "channels_last", "padding": "valid",
            "ema_freeze_delay": None, "folding_mode": "ema_stats_folding", "symmetric": True,
            "po2_rounding": False, "relu_neg_slope": 0, "relu_upper_bound": None, "current_step": None,
            "ema_decay": 0.9999, "quantization_delay": 0, "per_channel": False, "axis": -1, "groups": 1,
            "kernel_size": (3, 3), "strides": (1, 1), "dilation_rate": (1, 1), "output_padding": None,
            "depth_multiplier": 1, "pool_size": (2, 2), "keepdims": False, "momentum": 0.99, "epsilon": 0.001,
            "inverse_quantizer": None, "beta_range": None, "gamma_range": None, "renorm_clipping": None,
            "renorm_momentum": 0.99, "trainable": True, "activity_regularizer": None}


def layer_scenario(modname, clsname, variant):
  def scenario(ip):
    s = Scen()
    mod = ip.get_module(modname)
    cls = mod.env.vars[clsname]
    ip.overrides["qkeras.quantizers::get_quantizer"] = gq_contract
    ip.overrides["qkeras.qlayers::get_auto_range_constraint_initializer"] = lambda ip_, fv, a, k: (a[1], a[2])
    init, _ = cls.lookup("__init__")
    params = [a.arg for a in init.node.args.args[1:]] + [a.arg for a in init.node.args.kwonlyargs]
    kw = {}
    for p in params:
      if p in variant:
        kw[p] = variant[p]
        if isinstance(kw[p], str) and kw[p].startswith("MASK"):
          import numpy as _np
          kw[p] = {"MASK31": _np.array([[1.0], [0.0], [1.0]]), "MASK13": _np.array([[1.0, 0.0, 1.0]]),
                   "MASK33": _np.array([[1.0, 0.0, 1.0], [0.0, 1.0, 0.0], [1.0, 1.0, 0.0]])}[kw[p]]
        if isinstance(kw[p], str) and kw[p] == "ACT":
          kw[p] = Obj(ExtClass("quantizer"), {"name": "q_activation"}, label="q_activation")
      elif p in CONCRETE:
        kw[p] = CONCRETE[p]
      elif p.endswith("_quantizer") or p == "quantizer":
        if "__all_quantizers__" in variant:
          kw[p] = None                  # a quantizer explicitly switched off must stay off (some defaults are not None)
        else:
          kw[p] = Obj(ExtClass("quantizer"), {"name": "q_" + p}, label="q_" + p)
      else:
        kw[p] = Term("v:" + p)
    if init.node.args.kwarg is not None:
      kw["name"] = Term("v:name")
    s.replay = {"class": clsname, "module": modname}
    # K1 for a Keras layer object built inside a constructor (term): it reports its keyword arguments
    ip.term_hooks = {"get_config": lambda ip_, recv, a, k: dict(recv.kw) if isinstance(recv, Term) else {}}
    r = run_call(ip, cls, [], kw)
    s.claim("constructs", r[0] == "return")
    if r[0] != "return":
      s.info["raised"] = "constructor: %s" % (r[1],)
      return s
    l1 = r[1]
    rc = run_call(ip, ip.getattr(l1, "get_config"), [])
    s.claim("get_config_no_raise", rc[0] == "return")
    if rc[0] != "return":
      s.info["raised"] = "get_config: %s" % (rc[1],)
      return s
    cfg = rc[1]
    if not isinstance(cfg, dict):
      s.claim("config_is_dict", False)
      return s
    fc, _ = cls.lookup("from_config")
    if fc is not None:
      r2 = run_call(ip, ip.getattr(cls, "from_config"), [dict(cfg)])
    else:
      r2 = run_call(ip, cls, [], dict(cfg))       # K2: Layer.from_config(config) = cls(**config)
    s.claim("from_config_no_raise", r2[0] == "return")
    if r2[0] != "return":
      s.info["raised"] = "from_config: %s" % (r2[1],)
      return s
    l2 = r2[1]
    bad = []
    from . import c09
    reads = c09.read_set(ip, cls, roots=("call", "build", "get_quantizers", "compute_output_shape"))
    s.info["read_set"] = sorted(reads)
    for a, v1 in sorted(l1.attrs.items()):
      if a in SKIP_ATTRS or isinstance(v1, (Builtin, FuncVal, BoundMethod)):
        continue
      if a not in reads and a != "quantizers":
        continue                    # never read by call/build/get_quantizers: cannot change predictions
      if a in TRAINING_ONLY:
        continue
      ok = a in l2.attrs and same_val(l2.attrs[a], v1)
      if not ok:
        bad.append(a)
      s.claim("restores_" + a, ok)
    if bad:
      def show(a):
        v1, v2 = l1.attrs.get(a), l2.attrs.get(a)
        if isinstance(v1, Obj) and isinstance(v2, Obj):
          d = [k for k in v1.attrs if not same_val(v1.attrs.get(k), v2.attrs.get(k))]
          return "%s: differs in %s" % (a, ", ".join("%s (%r -> %r)" % (k, v1.attrs.get(k), v2.attrs.get(k)) for k in d))
        return "%s: %r -> %r" % (a, v1, v2)
      s.info["raised"] = "attributes not restored: %s" % "; ".join(show(a) for a in bad)
    return s
  return scenario


def wrapper_scenario(clsname):
  def scenario(ip):
    s = Scen()
    ip.overrides["qkeras.quantizers::get_quantizer"] = gq_contract
    cls = ip.get_module("qkeras.qlayers").env.vars[clsname]
    if clsname == "Clip":
      kw = {"min_value": Term("v:min"), "max_value": Term("v:max")}
      keep = ("min_value", "max_value")
    else:
      kw = {"initializer": Term("v:initializer"), "use_scale": Term("v:use_scale"),
            "quantizer": Obj(ExtClass("quantizer"), {"name": "q"}, label="q")}
      keep = ("initializer", "use_scale", "quantizer")
      ip.setattr(ip.get_module("qkeras.qlayers"), "get_initializer", Builtin("get_initializer", lambda ip_, x: x))
    r = run_call(ip, cls, [], kw)
    s.claim("constructs", r[0] == "return")
    if r[0] != "return":
      s.info["raised"] = str(r[1])
      return s
    o1 = r[1]
    rc = run_call(ip, ip.getattr(o1, "get_config"), [])
    r2 = run_call(ip, ip.getattr(cls, "from_config"), [dict(rc[1])]) if rc[0] == "return" else rc
    s.claim("roundtrip_no_raise", rc[0] == "return" and r2[0] == "return")
    if r2[0] != "return":
      s.info["raised"] = str(r2[1])
      return s
    for a in keep:
      s.claim("restores_" + a, same_val(r2[1].attrs.get(a), o1.attrs.get(a)))
    return s
  return scenario


LAYER_CLASSES = [
    ("qkeras.qlayers", "QDense"), ("qkeras.qlayers", "QActivation"), ("qkeras.qlayers", "QAdaptiveActivation"),
    ("qkeras.qconvolutional", "QConv1D"), ("qkeras.qconvolutional", "QConv2D"),
    ("qkeras.qconvolutional", "QConv2DTranspose"), ("qkeras.qconvolutional", "QSeparableConv1D"),
    ("qkeras.qconvolutional", "QSeparableConv2D"), ("qkeras.qconvolutional", "QDepthwiseConv2D"),
    ("qkeras.qnormalization", "QBatchNormalization"), ("qkeras.qpooling", "QAveragePooling2D"),
    ("qkeras.qpooling", "QGlobalAveragePooling2D"), ("qkeras.qrecurrent", "QSimpleRNNCell"),
    ("qkeras.qrecurrent", "QLSTMCell"), ("qkeras.qrecurrent", "QGRUCell"), ("qkeras.qmac", "QScaleShift"),
    ("qkeras.qrecurrent", "QSimpleRNN"), ("qkeras.qrecurrent", "QLSTM"), ("qkeras.qrecurrent", "QGRU"),
    ("qkeras.qconv2d_batchnorm", "QConv2DBatchnorm"), ("qkeras.qdepthwiseconv2d_batchnorm", "QDepthwiseConv2DBatchnorm"),
    ("qkeras.qdepthwise_conv2d_transpose", "QDepthwiseConv2DTranspose"),
    ("qkeras.qseparable_conv2d_transpose", "QSeparableConv2DTranspose"),
]
