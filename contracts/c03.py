"""C03 - power-of-two quantizers emit signed powers of two with in-range exponents.

Functions under contract (qkeras/quantizers.py):
  quantized_po2.__init__/__call__/max/min, quantized_relu_po2.__init__/__call__/max/min,
  _clip_power_of_two, _need_exponent_sign_bit_check, _get_min_max_exponents, _round_through,
  _floor_through (inlined)

Spec (class documentation): exponent field of bits - signed bits, one of them the exponent sign unless
max_value <= 1; e = clip(R(log2(xhat)), emin, emax), xhat = min(max(|x|, eps), max_value), R = round/floor;
|x| < eps maps to emin.

Clauses: value (ret = sign * 2^e_spec), exp_range, sign, le_max, nearest (rnd: 2^(e-1/2) <= xhat <= 2^(e+1/2)
inside the interval; floor: 2^e <= xhat < 2^(e+1)), mono_pos/mono_neg (two runs), idem, enclosed
"""
import z3

from pyvc.contract import Case, Scen, run_call
from pyvc.values import *  # noqa
from pyvc import interp as I
from . import quant as Q
from .quant import P, RND, R, clipz

PROP = "C03"
EPS = zreal(1e-07)
ASSUME = ["A1 real arithmetic; behaviour within an ulp of an exponent breakpoint is outside the proof",
          "log2 axiomatised: monotone, log2(2^n) = n, rnd/floor of log2 bracketed by powers of two (sqrt2 bounds)",
          "max_value restricted to None or a power of two 2^c"]


def setup(ip, s, relu, mv_kind, mode, slope=0):
  bits = z3.Int("bits")
  s.vars["bits"] = bits
  sg = 0 if relu else 1
  c = None
  mvv = None
  if mv_kind != "none":
    c = z3.Int("mvexp")
    s.vars["mvexp"] = c
    # requires: max_value is not below the epsilon floor (2^-23 > eps = 1e-7 > 2^-24)
    ip.assume(z3.And(c <= 0, c >= -23) if mv_kind == "le1" else c >= 1)
    mvv = SNum(P(c), "float")
  need = 0 if mv_kind == "le1" else 1
  ip.assume(bits - sg - need >= 0)
  eff = bits - sg - need
  if relu:
    q = ip.call(Q.qcls(ip, "quantized_relu_po2"), [SNum(bits), mvv, slope], {"log2_rounding": mode})
  else:
    q = ip.call(Q.qcls(ip, "quantized_po2"), [SNum(bits), mvv], {"log2_rounding": mode})
  emin, emax = -I.IPOW2(eff), I.IPOW2(eff) - 1
  s.vars["emin"], s.vars["emax"] = emin, emax
  s.hints.extend([eff, z3.IntVal(-23), z3.IntVal(-24)])
  s.seeds.append(I.LOG2(EPS))
  if c is not None:
    s.hints.extend([c, c - 1])
  s.replay = {"class": "quantized_relu_po2" if relu else "quantized_po2",
              "kwargs": {"bits": bits, "max_value": (None if c is None else P(c)), "log2_rounding": mode}}
  if relu:
    s.replay["kwargs"]["negative_slope"] = slope
  return q, bits, c, emin, emax


def spec_exp(ip, xabs, c, emin, emax, mode):
  """exponent of the spec for magnitude xabs >= 0."""
  xf = z3.If(xabs < EPS, EPS, xabs)
  if c is not None:
    xf = z3.If(xf >= P(c), P(c), xf)
  lg = I.LOG2(xf)
  if mode == "rnd":
    r = RND(lg)
    from pyvc import lib as L
    ip.assume(L.rnd_axiom_formula(lg))
  else:
    r = I.FLR(lg)
    ip.assume(z3.And(z3.ToReal(r) <= lg, lg < z3.ToReal(r) + 1))
  e = z3.If(xabs < EPS, emin, clipz(r, emin, emax))
  return e, xf, r


def po2_scenario(mv_kind, mode):
  def scenario(ip):
    s = Scen()
    q, bits, c, emin, emax = setup(ip, s, False, mv_kind, mode)
    x = Q.tensor("x")
    s.vars["x"] = x.e
    r = Q.call(ip, q, x)
    s.claim("no_raise", r[0] == "return")
    if r[0] != "return":
      s.info["raised"] = str(r[1])
      return s
    ret = Q.value(r)
    xabs = z3.If(x.e >= 0, x.e, -x.e)
    e, xf, rr = spec_exp(ip, xabs, c, emin, emax, mode)
    s.vars["e"] = e
    sgn = z3.If(x.e >= 0, z3.RealVal(1), z3.RealVal(-1))
    s.claim("value", ret == sgn * P(e))
    s.claim("exp_range", z3.And(emin <= e, e <= emax))
    s.claim("sign", z3.If(x.e >= 0, ret > 0, ret < 0))
    if c is not None:
      s.claim("le_max", z3.And(e <= c, z3.If(ret >= 0, ret, -ret) <= P(c)))
    s2 = z3.Real("SQRT2")
    if mode == "rnd":
      s.claim("nearest", z3.Implies(z3.And(emin <= rr, rr <= emax, xabs >= EPS),
                                    z3.And(P(e) <= xf * s2, xf <= P(e) * s2)))
    else:
      s.claim("nearest", z3.Implies(z3.And(emin <= rr, rr <= emax, xabs >= EPS),
                                    z3.And(P(e) <= xf, xf < 2 * P(e))))
    # enclosed
    mx, mn = Q.method(ip, q, "max"), Q.method(ip, q, "min")
    if mx[0] == "return" and mn[0] == "return":
      s.claim("enclosed", z3.And(Q.num_value(mn[1]) <= ret, ret <= Q.num_value(mx[1])))
    else:
      s.info["raised"] = "%s %s" % (mx[1], mn[1])
      s.claim("enclosed", False)
    # monotone on each sign
    x2 = Q.tensor("x2")
    s.vars["x2"] = x2.e
    r2 = Q.call(ip, q, x2)
    if r2[0] == "return":
      ret2 = Q.value(r2)
      s.claim("mono_pos", z3.Implies(z3.And(0 <= x.e, x.e <= x2.e), ret <= ret2))
      s.claim("mono_neg", z3.Implies(z3.And(x.e <= x2.e, x2.e < 0), ret <= ret2))
    # idempotent
    r3 = Q.call(ip, q, SNum(ret, "tensor", None, {"shape": (1,)}))
    s.claim("idem", r3[0] == "return" and Q.value(r3) == ret)
    return s
  return scenario


def relu_po2_scenario(mv_kind, mode, slope):
  def scenario(ip):
    s = Scen()
    q, bits, c, emin, emax = setup(ip, s, True, mv_kind, mode, slope)
    x = Q.tensor("x")
    s.vars["x"] = x.e
    r = Q.call(ip, q, x)
    s.claim("no_raise", r[0] == "return")
    if r[0] != "return":
      s.info["raised"] = str(r[1])
      return s
    ret = Q.value(r)
    pos = z3.If(x.e >= 0, x.e, z3.RealVal(0))
    epos, xf, rr = spec_exp(ip, pos, c, emin, emax, mode)
    if slope:
      neg = z3.If(x.e <= 0, -x.e, z3.RealVal(0)) * zreal(slope)
      eneg, _, _ = spec_exp(ip, neg, c, emin, emax, mode)
      spec = z3.If(x.e >= 0, P(epos), -P(eneg))
      e = z3.If(x.e >= 0, epos, eneg)
    else:
      spec = P(epos)
      e = epos
    s.vars["e"] = e
    s.claim("value", ret == spec)
    s.claim("exp_range", z3.And(emin <= e, e <= emax))
    if slope:
      s.claim("sign", z3.If(x.e >= 0, ret > 0, ret < 0))
    else:
      s.claim("sign", z3.And(ret > 0, z3.Implies(x.e < 0, ret == P(emin))))     # negatives -> smallest code
    if c is not None:
      s.claim("le_max", z3.If(ret >= 0, ret, -ret) <= P(c))
    mx, mn = Q.method(ip, q, "max"), Q.method(ip, q, "min")
    if mx[0] == "return" and mn[0] == "return":
      s.claim("enclosed", z3.And(Q.num_value(mn[1]) <= ret, ret <= Q.num_value(mx[1])))
    else:
      s.info["raised"] = "%s %s" % (mx[1], mn[1])
      s.claim("enclosed", False)
    x2 = Q.tensor("x2")
    s.vars["x2"] = x2.e
    r2 = Q.call(ip, q, x2)
    if r2[0] == "return":
      s.claim("mono_pos", z3.Implies(z3.And(0 <= x.e, x.e <= x2.e), ret <= Q.value(r2)))
    if not slope:
      r3 = Q.call(ip, q, SNum(ret, "tensor", None, {"shape": (1,)}))
      s.claim("idem", r3[0] == "return" and Q.value(r3) == ret)
    return s
  return scenario


def bounds(vars_):
  cs = []
  for k, v in vars_.items():
    if k == "bits":
      cs.append(v <= 8)
    elif k == "mvexp":
      cs.append(z3.And(v >= -30, v <= 6))
  return cs


def cases(tier):
  out = []
  for mv in ("none", "le1", "gt1"):
    for mode in ("rnd", "floor"):
      out.append(Case(PROP, Q.QF + "quantized_po2.__call__", "mv%s_%s" % (mv, mode), po2_scenario(mv, mode),
                      bounds=bounds, replay_kind="q_po2", assumptions=ASSUME, lo=-130, hi=130))
      for slope in (0, 0.25):
        out.append(Case(PROP, Q.QF + "quantized_relu_po2.__call__", "mv%s_%s_slope%s" % (mv, mode, str(slope).replace(".", "p")),
                        relu_po2_scenario(mv, mode, slope), bounds=bounds, replay_kind="q_po2",
                        assumptions=ASSUME, lo=-130, hi=130))
  return out
