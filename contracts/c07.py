"""C07 - qnoise_factor interpolates exactly between unquantized and quantized outputs.

Functions under contract:
  quantized_bits/quantized_relu/quantized_linear/quantized_po2/quantized_relu_po2 .__call__ (mixing return)
  base_quantizer.BaseQuantizer.build / update_qnoise_factor
  callbacks.QNoiseScheduler.__init__/calculate_qnoise_factor/update_qnoise_factor/set_qnoise_factor/
            set_quantizers/get_quantizers/on_train_begin/on_epoch_begin/on_train_batch_begin

Clauses:
  mix        q_f(x) = q_0(x) + f*(q_1(x) - q_0(x))  for symbolic f in [0,1]   (three runs of the real code)
  f0         q_0(x) = the unquantized surrogate of the class (identity / clipped leaky ReLU)
  update     after update_qnoise_factor(f) the quantizer returns what a quantizer constructed with f returns,
             in float mode and in tf.Variable mode, for both orders of build()/update()
  before/after/range/mono   schedule value (mono: two runs)
  step       one scheduler step: counter +1, every quantizer gets the schedule value, factor never decreases
             (inductive step of the history invariant: factor = schedule(some earlier freq))
  collect    get_quantizers returns exactly the knob-bearing quantizers, in order
"""
import z3

from pyvc.contract import Case, Scen, run_call
from pyvc.values import *  # noqa
from pyvc import interp as I
from . import quant as Q
from .quant import P, R

PROP = "C07"
CB = "qkeras/callbacks.py::QNoiseScheduler."
ASSUME = ["A1 real arithmetic", "tf.Variable modelled as a cell with assign/read",
          "np.power(v, e) monotone in v on [0,1] for e > 0 (Mathlib Real.rpow_le_rpow), 0^e = 0, 1^e = 1"]


def make_q(ip, cls, f, use_ste, symvals):
  bits, integer = symvals
  kw = {"qnoise_factor": f, "use_ste": use_ste}
  if cls == "quantized_bits":
    return ip.call(Q.qcls(ip, cls), [SNum(bits), SNum(integer)], kw)
  if cls == "quantized_relu":
    return ip.call(Q.qcls(ip, cls), [SNum(bits), SNum(integer)], kw)
  if cls == "quantized_relu_leaky":
    return ip.call(Q.qcls(ip, "quantized_relu"), [SNum(bits), SNum(integer), 0, 0.25], kw)
  if cls == "quantized_linear":
    kw.pop("use_ste")
    return ip.call(Q.qcls(ip, cls), [SNum(bits), SNum(integer)], kw)
  if cls == "quantized_po2":
    return ip.call(Q.qcls(ip, cls), [SNum(bits)], kw)
  if cls == "quantized_relu_po2":
    return ip.call(Q.qcls(ip, cls), [SNum(bits)], kw)
  raise ValueError(cls)


def mix_scenario(cls, use_ste):
  def scenario(ip):
    s = Scen()
    bits, integer = z3.Int("bits"), z3.Int("integer")
    f = z3.Real("f")
    s.vars.update({"bits": bits, "integer": integer, "f": f})
    ip.assume(z3.And(bits >= 2, integer >= 0, f >= 0, f <= 1))
    x = Q.tensor("x")
    s.vars["x"] = x.e
    qf = make_q(ip, cls, SNum(f, "float"), use_ste, (bits, integer))
    q0 = make_q(ip, cls, 0.0, use_ste, (bits, integer))
    q1 = make_q(ip, cls, 1.0, use_ste, (bits, integer))
    rf, r0, r1 = Q.call(ip, qf, x), Q.call(ip, q0, x), Q.call(ip, q1, x)
    ok = rf[0] == r0[0] == r1[0] == "return"
    s.claim("no_raise", ok)
    if not ok:
      s.info["raised"] = "%s %s %s" % (rf[1], r0[1], r1[1])
      return s
    vf, v0, v1 = Q.value(rf), Q.value(r0), Q.value(r1)
    s.claim("mix", vf == v0 + f * (v1 - v0))
    # f = 0 returns the unquantized activation
    xe = x.e
    if cls in ("quantized_bits", "quantized_linear", "quantized_po2"):
      sur = xe
    elif cls == "quantized_relu_po2":
      sur = z3.If(xe >= 0, xe, z3.RealVal(0))     # relu surrogate (no slope, no max_value in this case)
    else:
      n = bits - (1 if cls.endswith("leaky") else 0)
      top = P(integer) - P(integer - n)
      sl = z3.RealVal("1/4") if cls.endswith("leaky") else z3.RealVal(0)
      sur = z3.If(xe <= top, z3.If(xe >= 0, xe, sl * xe), top)
      s.hints.extend([integer, integer - n])
    if sur is not None:
      s.claim("f0", v0 == sur)
    # f = 1 returns the fully quantized value: the code of the class format (spec of C01/C02)
    from . import c01
    spec_builder = {"quantized_bits": None, "quantized_relu": c01.qrelu_build(0.0, True),
                    "quantized_relu_leaky": c01.qrelu_build(0.25, True),
                    "quantized_linear": c01.qlinear_build(True, 1, "none")}.get(cls, False)
    if spec_builder is None:
      n = bits - 1
      k, p, lo, hi, val = c01.qbits_spec(xe, n, integer, True, 0, z3.RealVal(1))
      c01.rnd_axiom(ip, p)
      s.hints.extend([n, integer, n - integer, integer - n])
      s.claim("f1", v1 == val)
    elif cls in ("quantized_po2", "quantized_relu_po2"):
      from . import c03
      relu = cls == "quantized_relu_po2"
      eff = bits - (0 if relu else 1) - 1
      emin, emax = -I.IPOW2(eff), I.IPOW2(eff) - 1
      mag = z3.If(xe >= 0, xe, z3.RealVal(0) if relu else -xe)
      e, _, _ = c03.spec_exp(ip, mag, None, emin, emax, "rnd")
      sgn = z3.RealVal(1) if relu else z3.If(xe >= 0, z3.RealVal(1), z3.RealVal(-1))
      s.hints.extend([eff])
      s.seeds.append(I.LOG2(c03.EPS))
      s.claim("f1", v1 == sgn * P(e))
    elif spec_builder:
      _, spec = spec_builder(ip, Scen())
      sp = spec(ip, xe)
      s.hints.extend(sp.get("hints", []))
      s.cong.extend(sp.get("cong", []))
      s.claim("f1", v1 == sp["value"])
    s.replay = {"class": cls.replace("_leaky", ""), "f": f, "use_ste": use_ste, "bits": bits, "integer": integer,
                "leaky": cls.endswith("leaky")}
    return s
  return scenario


def auto_mix_scenario(alpha, use_ste):
  """quantized_bits with a data-dependent scale: the same mixing law, f = 0 returns the input itself.  The three runs
  (f, 0, 1) reduce the same tensor over the same groups, so their scales are the same terms (functional consistency of
  the group aggregates)."""
  def scenario(ip):
    s = Scen()
    bits, integer = z3.Int("bits"), z3.Int("integer")
    f = z3.Real("f")
    s.vars.update({"bits": bits, "integer": integer, "f": f})
    ip.assume(z3.And(bits >= 2, integer >= 0, f >= 0, f <= 1))
    x = Q.tensor("x", shape=(3, 4))
    s.vars["x"] = x.e
    mk = lambda fv: ip.call(Q.qcls(ip, "quantized_bits"), [SNum(bits), SNum(integer), 1, 1],
                            {"alpha": alpha, "qnoise_factor": fv, "use_ste": use_ste})
    qf, q0, q1 = mk(SNum(f, "float")), mk(0.0), mk(1.0)
    rf, r0, r1 = Q.call(ip, qf, x), Q.call(ip, q0, x), Q.call(ip, q1, x)
    ok = rf[0] == r0[0] == r1[0] == "return"
    s.claim("no_raise", ok)
    if not ok:
      s.info["raised"] = "%s %s %s" % (rf[1], r0[1], r1[1])
      return s
    vf, v0, v1 = Q.value(rf), Q.value(r0), Q.value(r1)
    s.hints.extend([integer, -integer, bits - 1])
    s.claim("mix", vf == v0 + f * (v1 - v0))
    s.claim("f0", v0 == x.e)
    s.replay = {"class": "quantized_bits", "f": f, "use_ste": use_ste, "bits": bits, "integer": integer, "alpha": alpha,
                "shape": [3, 4]}
    return s
  return scenario


def update_scenario(cls, mode):
  """mode: 'float' | 'float_after_call' | 'float_twice' | 'var_build_then_update' | 'var_update_then_build' | 'var_autobuild'"""
  def scenario(ip):
    s = Scen()
    bits, integer = z3.Int("bits"), z3.Int("integer")
    f, g = z3.Real("f"), z3.Real("g")
    s.vars.update({"bits": bits, "integer": integer, "f": f, "g": g})
    ip.assume(z3.And(bits >= 2, integer >= 0, f >= 0, f <= 1, g >= 0, g <= 1))
    x = Q.tensor("x")
    s.vars["x"] = x.e
    q = make_q(ip, cls, SNum(g, "float"), True, (bits, integer))      # constructed with another factor g
    ref = make_q(ip, cls, SNum(f, "float"), True, (bits, integer))    # reference: constructed with f
    fv = SNum(f, "float")
    if mode == "float":
      steps = [("update", fv)]
    elif mode == "float_after_call":
      # python-float storage, the quantizer has already been used once (so it is built) before the update
      steps = [("call", None), ("update", fv)]
    elif mode == "float_twice":
      steps = [("update", SNum(g, "float")), ("call", None), ("update", fv)]
    elif mode == "var_build_then_update":
      steps = [("build", True), ("update", fv)]
    elif mode == "var_update_then_build":
      steps = [("update", fv), ("build", True)]
    else:
      ip.setattr(q, "use_variables", True)
      steps = [("update", fv)]
    for what, arg in steps:
      if what == "build":
        r = run_call(ip, ip.getattr(q, "build"), [], {"use_variables": arg})
      elif what == "call":
        r = Q.call(ip, q, x)
      else:
        r = run_call(ip, ip.getattr(q, "update_qnoise_factor"), [arg])
      if r[0] != "return":
        s.claim("update", False)
        s.info["raised"] = str(r[1])
        return s
    r1, r2 = Q.call(ip, q, x), Q.call(ip, ref, x)
    if r1[0] != "return" or r2[0] != "return":
      s.claim("update", False)
      s.info["raised"] = "%s %s" % (r1[1], r2[1])
      return s
    s.claim("update", Q.value(r1) == Q.value(r2))
    s.replay = {"class": cls, "mode": mode, "f": f, "g": g, "bits": bits, "integer": integer}
    return s
  return scenario


# ------------------------------------------------------------- scheduler
def mk_sched(ip, s, freq_type="epoch", nq=2):
  start, finish, upd, init = z3.Int("start"), z3.Int("finish"), z3.Int("update_freq"), z3.Int("initial")
  ex = z3.Real("exponent")
  s.vars.update({"start": start, "finish": finish, "update_freq": upd, "initial": init, "exponent": ex})
  ip.assume(z3.And(start <= finish, upd >= 1, ex > 0, init >= 0, start >= 0))
  cls = ip.find("qkeras/callbacks.py::QNoiseScheduler")
  sch = ip.call(cls, [SNum(start), SNum(finish)], {"freq_type": freq_type, "update_freq": SNum(upd),
                                                  "initial_step_or_epoch": SNum(init), "exponent": SNum(ex, "float")})
  return sch, (start, finish, upd, init, ex)


def calc_scenario():
  def scenario(ip):
    s = Scen()
    sch, (start, finish, upd, init, ex) = mk_sched(ip, s)
    a, b = z3.Int("freq"), z3.Int("freq2")
    s.vars.update({"freq": a, "freq2": b})
    ip.assume(z3.And(a >= 0, b >= 0))
    ra = run_call(ip, ip.getattr(sch, "calculate_qnoise_factor"), [SNum(a)])
    rb = run_call(ip, ip.getattr(sch, "calculate_qnoise_factor"), [SNum(b)])
    ok = ra[0] == "return" and rb[0] == "return"
    s.claim("no_raise", ok)
    if not ok:
      s.info["raised"] = "%s %s" % (ra[1], rb[1])
      return s
    va, vb = Q.num_value(ra[1]), Q.num_value(rb[1])
    s.claim("before", z3.Implies(a < start, va == 0))
    s.claim("after", z3.Implies(a >= finish, va == 1))
    s.claim("range", z3.And(va >= 0, va <= 1))
    s.claim("mono", z3.Implies(a <= b, va <= vb))
    s.replay = {"what": "calc", "start": start, "finish": finish, "exponent": ex, "freq": a, "freq2": b}
    return s
  return scenario


def _stub_quantizer(label):
  """Quantizer stub recording update_qnoise_factor calls."""
  o = Obj(ExtClass("StubQuantizer"), {"qnoise_factor": 1.0, "updates": [], "use_ste": True, "use_variables": False,
                                      "built": False}, label=label)

  def upd(ip, self_, f):
    ip.log_container(self_.attrs["updates"])
    self_.attrs["updates"].append(f)
    ip.setattr(self_, "qnoise_factor", f)
  b = Builtin("update_qnoise_factor", upd)
  b.is_method = True
  o.attrs["update_qnoise_factor"] = BoundMethod(o, b)
  o.attrs["build"] = BoundMethod(o, Builtin("build", lambda ip, self_, *a, **k: ip.setattr(self_, "built", True)))
  return o


def step_scenario(freq_type, hook):
  def scenario(ip):
    s = Scen()
    sch, (start, finish, upd, init, ex) = mk_sched(ip, s, freq_type)
    qs = [_stub_quantizer("q0"), _stub_quantizer("q1")]
    ip.setattr(sch, "quantizers", qs)
    # arbitrary reachable state: n calls so far, factor = schedule(fprev) for some earlier fprev (ghost),
    # or 0.0 right after set_quantizers
    n, fprev = z3.Int("n"), z3.Int("fprev")
    s.vars.update({"n": n, "fprev": fprev})
    ip.assume(z3.And(n >= 0, fprev >= 0, fprev <= init + n - 1))
    rp = run_call(ip, ip.getattr(sch, "calculate_qnoise_factor"), [SNum(fprev)])
    if rp[0] != "return":
      s.claim("step", False)
      return s
    fresh0 = ip.truth(SBool(z3.Bool("no_update_yet")))
    g = 0.0 if fresh0 else rp[1]
    ip.setattr(sch, "qnoise_factor", g)
    ip.setattr(sch, "num_iters", SNum(n))
    r = run_call(ip, ip.getattr(sch, hook), [0])
    s.claim("no_raise", r[0] == "return")
    if r[0] != "return":
      s.info["raised"] = str(r[1])
      return s
    n2 = Q.num_value(ip.getattr(sch, "num_iters"))
    g2 = ip.getattr(sch, "qnoise_factor")
    active = (freq_type == "epoch") == (hook == "on_epoch_begin")
    if not active:
      s.claim("step", z3.And(n2 == z3.ToReal(n), len(qs[0].attrs["updates"]) == 0))
      return s
    freq = init + n
    rc = run_call(ip, ip.getattr(sch, "calculate_qnoise_factor"), [SNum(freq)])
    vnew = Q.num_value(rc[1])
    updating = freq % upd == 0
    gv, g2v = Q.num_value(g), Q.num_value(g2)
    applied = [q.attrs["updates"] for q in qs]
    all_applied = all(len(u) == 1 for u in applied)
    none_applied = all(len(u) == 0 for u in applied)
    if all_applied:
      same = z3.And(*[Q.num_value(u[0]) == vnew for u in applied])
      s.claim("step", z3.And(updating, n2 == z3.ToReal(n) + 1, g2v == vnew, same, g2v >= gv))
    elif none_applied:
      s.claim("step", z3.And(z3.Not(updating), n2 == z3.ToReal(n) + 1, g2v == gv))
    else:
      s.claim("step", False)
    s.replay = {"what": "step", "freq_type": freq_type, "hook": hook}
    return s
  return scenario


def collect_scenario():
  def scenario(ip):
    s = Scen()
    sch, _ = mk_sched(ip, s)
    # the knob's current value must not matter: 0.0 (pre-training / left over from an earlier run) and an
    # arbitrary factor in [0, 1] are collected exactly like the default 1.0 (seed c07-3 tested truthiness)
    f = z3.Real("f")
    s.vars["f"] = f
    ip.assume(z3.And(f >= 0, f <= 1))
    knob = [Obj(ExtClass("Q"), {"qnoise_factor": v}, label="k%d" % i)
            for i, v in enumerate([1.0, 0.0, SNum(f, "float"), 0.25])]
    plain = [Obj(ExtClass("Q"), {}, label="p%d" % i) for i in range(2)]
    L = ExtClass("Layer")
    layers = [Obj(L, {"quantizers": [knob[0], plain[0], None, knob[1]]}, label="l0"),
              Obj(L, {}, label="l1"),
              Obj(L, {"quantizer": knob[2]}, label="l2"),
              Obj(L, {"quantizer": plain[1]}, label="l3"),
              Obj(L, {"quantizers": [], "quantizer": knob[3]}, label="l4"),
              Obj(L, {"quantizer": None}, label="l5")]
    model = Obj(ExtClass("Model"), {"layers": layers})
    r = run_call(ip, ip.getattr(sch, "get_quantizers"), [model])
    ok = r[0] == "return" and isinstance(r[1], list) and len(r[1]) == 4 and all(a is b for a, b in zip(r[1], knob))
    s.claim("collect", ok)
    # on_train_begin applies the initial factor 0.0 and the scheduler's use_ste to every collected quantizer
    qs = [_stub_quantizer("q0"), _stub_quantizer("q1"), _stub_quantizer("q2")]
    qs[1].attrs["qnoise_factor"] = 0.0
    qs[2].attrs["qnoise_factor"] = SNum(f, "float")
    model2 = Obj(ExtClass("Model"), {"layers": [Obj(L, {"quantizers": qs[:2]}), Obj(L, {"quantizer": qs[2]})]})
    ip.setattr(sch, "model", model2)
    r2 = run_call(ip, ip.getattr(sch, "on_train_begin"), [])
    ok2 = r2[0] == "return" and all(len(q.attrs["updates"]) == 1 and q.attrs["updates"][0] == 0.0 and
                                    q.attrs["use_variables"] is True for q in qs)
    s.claim("train_begin_applies_to_all", ok2)
    # a second fit() with the same callback (training split over several runs): the schedule goes on from num_iters and
    # the factor must not drop back to the pre-training value in between (monotone schedule; seed c07-7)
    n_before = [len(q.attrs["updates"]) for q in qs]
    r3 = run_call(ip, ip.getattr(sch, "on_train_begin"), [])
    s.claim("second_train_begin_keeps_factors", r3[0] == "return" and
            [len(q.attrs["updates"]) for q in qs] == n_before)
    return s
  return scenario


def bounds(vars_):
  cs = []
  for k, v in vars_.items():
    if k in ("bits",):
      cs.append(z3.And(v <= 5))
    elif k in ("integer",):
      cs.append(v <= 3)
    elif k in ("start", "finish", "freq", "freq2", "n", "initial", "update_freq", "fprev"):
      cs.append(v <= 12)
  return cs


def cases(tier):
  out = []
  for cls in ("quantized_bits", "quantized_relu", "quantized_relu_leaky", "quantized_linear", "quantized_po2",
              "quantized_relu_po2"):
    for ste in (True, False):
      if cls == "quantized_linear" and not ste:
        continue
      out.append(Case(PROP, Q.QF + cls.replace("_leaky", "") + ".__call__", "mix_%s_%s" % (cls, "ste" if ste else "noste"),
                      mix_scenario(cls, ste), bounds=bounds, replay_kind="c07_mix", assumptions=ASSUME,
                      lo=-130 if "po2" in cls else -12, hi=130 if "po2" in cls else 12))
  for cls in ("quantized_bits", "quantized_relu", "quantized_po2"):
    for mode in ("float", "float_after_call", "float_twice", "var_build_then_update", "var_update_then_build", "var_autobuild"):
      out.append(Case(PROP, "qkeras/base_quantizer.py::BaseQuantizer.update_qnoise_factor", "%s_%s" % (cls, mode),
                      update_scenario(cls, mode), bounds=bounds, replay_kind="c07_update", assumptions=ASSUME, lo=-12, hi=12))
  for alpha in ("auto", "auto_po2") if tier == "thorough" else ("auto",):
    for ste in (True, False):
      out.append(Case(PROP, Q.QF + "quantized_bits.__call__", "mix_%s_%s" % (alpha, "ste" if ste else "noste"),
                      auto_mix_scenario(alpha, ste), bounds=bounds, replay_kind="c07_mix", assumptions=ASSUME))
  out.append(Case(PROP, CB + "calculate_qnoise_factor", "schedule", calc_scenario(), bounds=bounds,
                  replay_kind="c07_sched", assumptions=ASSUME))
  for ft in ("epoch", "step"):
    for hook in ("on_epoch_begin", "on_train_batch_begin"):
      out.append(Case(PROP, CB + "update_qnoise_factor", "%s_%s" % (ft, hook), step_scenario(ft, hook), bounds=bounds,
                      replay_kind="c07_sched", assumptions=ASSUME))
  out.append(Case(PROP, CB + "get_quantizers", "collect", collect_scenario(), bounds=bounds, replay_kind="c07_collect",
                  assumptions=ASSUME))
  return out
