"""Symbolic qtools operand types, built by running the real conversion code.

Each operand kind is the image of a qkeras quantizer under
quantizer_impl.<Class>.convert_qkeras_quantizer, with all numeric options
symbolic (every bit width, every integer-bit setting, every max value).
"""
import z3

from pyvc.values import *  # noqa
from pyvc import interp as I
from . import spec as S

QI = "qkeras.qtools.quantized_operators.quantizer_impl"
QZ = "qkeras.quantizers"

KINDS = ["qbits", "qrelu", "po2", "relu_po2", "ternary", "binary", "binary01", "float"]
MODE_OF = {"qbits": 0, "qrelu": 0, "po2": 1, "relu_po2": 1, "ternary": 2, "binary": 3,
           "binary01": 4, "float": 5}


def _cls(ip, mod, name):
  return ip.getattr(ip.get_module(mod), name)


def make_qkeras(ip, s, pfx, kind, mv_kind=None, alpha=None):
  """Returns (qkeras quantizer object, qtools class name, spec lattice of the values the quantizer
  emits).  Adds the kind's requires.  All numeric options are symbolic."""
  V = s.vars
  if kind in ("qbits", "qrelu"):
    bits, integer = z3.Int(pfx + "_bits"), z3.Int(pfx + "_int")
    V[pfx + "_bits"], V[pfx + "_int"] = bits, integer
    ip.assume(z3.And(bits >= 1, integer >= 0))
    if kind == "qbits":
      signed = z3.Int(pfx + "_signed")
      V[pfx + "_signed"] = signed
      ip.assume(z3.And(signed >= 0, signed <= 1, bits - signed >= 0))
      q = ip.call(_cls(ip, QZ, "quantized_bits"),
                  [SNum(bits), SNum(integer), 0, SNum(signed)], {} if alpha is None else {"alpha": alpha})
      tname = "QuantizedBits"
      lat = S.fixed_lattice(bits, integer, signed)
    else:
      q = ip.call(_cls(ip, QZ, "quantized_relu"), [SNum(bits), SNum(integer)], {})
      tname = "QuantizedRelu"
      lat = S.fixed_lattice(bits, integer, 0)
    V[pfx + "_lo"] = lat.lo
    V[pfx + "_hi"] = lat.hi
    return q, tname, lat
  if kind in ("po2", "relu_po2"):
    bits = z3.Int(pfx + "_bits")
    V[pfx + "_bits"] = bits
    sg = 1 if kind == "po2" else 0
    ip.assume(bits - sg >= 1)
    if mv_kind is None or mv_kind == "none":
      mv = None
      mvv = None
      c = None
    elif mv_kind.startswith("v"):
      # a concrete max_value that is NOT a power of two (e.g. "v3", "v6", "v1p5"): the quantizer clips to it and then
      # rounds log2, so the largest emitted exponent is rnd(log2(max_value))
      import math
      mvf = float(mv_kind[1:].replace("p", "."))
      mvv = mvf
      mv = zreal(mvf)
      c = z3.IntVal(int(math.floor(math.log2(mvf) + 0.5)))
    else:
      # max_value is a power of two 2^c (the documented use; C03 quantifies over {None, 2^k})
      c = z3.Int(pfx + "_mvexp")
      V[pfx + "_mvexp"] = c
      mv = I.POW2(c)
      if mv_kind == "le1":
        ip.assume(c <= 0)
      elif mv_kind == "gt1":
        ip.assume(c >= 1)
      mvv = SNum(mv, "float")
    name = "quantized_po2" if kind == "po2" else "quantized_relu_po2"
    q = ip.call(_cls(ip, QZ, name), [SNum(bits), mvv], {})
    need = 0 if (mv_kind == "le1" or (mv_kind or "").startswith("v") and float(mv_kind[1:].replace("p", ".")) <= 1) else 1
    emin, emax, eff = S.po2_exponent_interval(bits, sg, need)
    # value set: exponents the qkeras quantizer can emit; upper limit from max_value
    if mv is not None:
      emax = z3.If(c < emax, c, emax)
      s.hints.extend([c, c - 1])
      s.info.setdefault("mvexps", []).append(c)
    s.hints.extend([eff])
    lat = S.Po2(emin, emax, z3.BoolVal(bool(sg)))
    V[pfx + "_emin"] = emin
    V[pfx + "_emax"] = emax
    V[pfx + "_nsb"] = bits - sg
    return q, ("PowerOfTwo" if kind == "po2" else "ReluPowerOfTwo"), lat
  if kind == "ternary":
    q = ip.call(_cls(ip, QZ, "ternary"), [], {} if alpha is None else {"alpha": alpha})
    return q, "Ternary", S.Finite([-1, 0, 1])
  if kind in ("binary", "binary01"):
    q = ip.call(_cls(ip, QZ, "binary"), [kind == "binary01"], {} if alpha is None else {"alpha": alpha})
    return q, "Binary", S.Finite([0, 1] if kind == "binary01" else [-1, 1])
  raise ValueError(kind)


def make_operand(ip, s, pfx, kind, mv_kind=None):
  """Returns (qtools type object, spec lattice).  Adds the kind's requires."""
  if kind == "float":
    t = ip.call(_cls(ip, QI, "FloatingPoint"), [32], {})
    return t, S.Float()
  q, tname, lat = make_qkeras(ip, s, pfx, kind, mv_kind)
  t = ip.call(_cls(ip, QI, tname), [], {})
  ip.call(ip.getattr(t, "convert_qkeras_quantizer"), [q], {})
  return t, lat


def type_lattice(ip, t, s, mv_sym=None):
  """Spec lattice of a qtools type object, read from its fields after the
  operator code ran ("the values the reported type can hold")."""
  g = lambda n: ip.getattr(t, n)
  if ip.truth(g("is_floating_point")):
    return S.Float()
  mode = g("mode")
  if is_sym(mode):
    raise Unsupported("symbolic mode")
  if mode == 0:
    return S.fixed_lattice(g("bits"), g("int_bits"), g("is_signed"))
  if mode == 1:
    mv = g("max_val_po2")
    signed = S.zi(g("is_signed"))
    if isinstance(mv, (int, float)) and mv == -1:
      mvz = None
    elif is_sym(mv):
      # -1 encodes "no max value"
      if ip.truth(ip.compare(__import__("ast").Eq(), mv, -1)):
        mvz = None
      else:
        mvz = S.zr(mv)
    else:
      mvz = S.zr(mv)
    if mvz is None:
      need = 1
    elif not ip.truth(SBool(mvz > 0)):
      need = 0
    else:
      need = 1 if ip.truth(SBool(mvz > 1)) else 0
    emin, emax, eff = S.po2_exponent_interval(g("bits"), g("is_signed"), need)
    s.hints.append(eff)
    if mvz is not None:
      if not ip.truth(SBool(mvz > 0)):
        # max value <= 0: the type holds nothing but its smallest magnitude
        emax = emin
      else:
        c = ip.fresh("clog2mv")
        ip.assume(z3.And(I.POW2(c - 1) < mvz, mvz <= I.POW2(c)))
        emax = z3.If(c < emax, c, emax)
        s.hints.extend([c, c - 1])
    return S.Po2(emin, emax, signed == 1)
  if mode == 2:
    return S.Finite([-1, 0, 1])
  if mode == 3:
    return S.Finite([-1, 1])
  if mode == 4:
    return S.Finite([0, 1])
  if mode == 5:
    return S.Float()
  raise Unsupported("mode %r" % (mode,))


def snapshot(t):
  return dict(t.attrs)


def unchanged(t, snap):
  if set(t.attrs) != set(snap):
    return False
  return all(t.attrs[k] is snap[k] or (not is_sym(snap[k]) and not isinstance(snap[k], Obj) and t.attrs[k] == snap[k])
             for k in snap)
