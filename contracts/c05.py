"""C05 - auto-scaled fixed-point output = in-range integer codes times the recorded scale.

Functions under contract (qkeras/quantizers.py): quantized_bits.__init__/__call__ (alpha 'auto' / 'auto_po2' /
frozen post-training scale), _get_least_squares_scale, _get_scale_mean, _get_scaling_axis, _clip_po2_scale.

x is the representative element of a tensor of the stated rank (see C04 for the treatment of group reductions).
n = bits - 1 non-sign bits, L = 2^n - 1 the top code of the symmetric format, step = 2^(integer - n).

Clauses (bits, integer symbolic and unbounded)
  form          ret == q.scale * step * sign(x) * c, q.scale being the value the quantizer exposes after the call and c the
                code magnitude the program selects (the value of its last tf.where)
  code_is_integer / code_width   c is an integer and 0 <= c <= L (the declared width)
  scale_pos     q.scale > 0
  scale_group   every reduction is over exactly the expected scaling group (all axes but the channel axis / scale_axis)
  max_to_top    'auto': an element whose magnitude is the group maximum is returned unchanged (top code, no clipping)
  scale_po2     'auto_po2': q.scale == 2^e * 2^n... i.e. q.scale / 2^n is 2^e for an integer e, within min/max_po2_exponent
  frozen        post_training_scale s: q.scale stays s and ret == s * step * z
"""
import z3

from pyvc.contract import Case, Scen, run_call
from pyvc.values import *  # noqa
from pyvc import interp as I
from pyvc import lib as L
from . import quant as Q
from . import c04
from .quant import P, R

PROP = "C05"
EPS = zreal(1e-07)
ASSUME = c04.ASSUME + ["L-max: the maximum over a group is >= every member (library model) and >= 0 for non-negative members",
                       "division by the scale is only reasoned about where the scale is proved positive"]


def scenario_for(alpha_kind, shape, scale_axis=None, bounds_po2=False, eps=None):
  def scenario(ip):
    s = Scen()
    ip.aggs = []
    bits, integer = z3.Int("bits"), z3.Int("integer")
    s.vars["bits"], s.vars["integer"] = bits, integer
    ip.assume(z3.And(bits >= 2, integer >= 0))
    n = bits - 1
    kw = {"alpha": "auto_po2" if alpha_kind == "frozen" else alpha_kind}
    if scale_axis is not None:
      kw["scale_axis"] = scale_axis
    if eps is not None:
      kw["elements_per_scale"] = eps
    lo = hi = None
    if bounds_po2:
      if bounds_po2 in (True, "both", "min"):
        lo = z3.Int("min_e")
        s.vars["min_e"] = lo
        kw["min_po2_exponent"] = SNum(lo, "int")
        s.hints.append(lo)
      if bounds_po2 in (True, "both", "max"):
        hi = z3.Int("max_e")
        s.vars["max_e"] = hi
        kw["max_po2_exponent"] = SNum(hi, "int")
        s.hints.append(hi)
      if lo is not None and hi is not None:
        ip.assume(lo <= hi)
    pts = None
    if alpha_kind == "frozen":
      c = z3.Int("pts_exp")
      s.vars["pts_exp"] = c
      pts = P(c)
      kw["post_training_scale"] = SNum(pts, "float", None, {"ndarray": True, "shape": ()})
      s.hints.extend([c])
    q = ip.call(Q.qcls(ip, "quantized_bits"), [SNum(bits), SNum(integer), 1, 1], kw)
    x = Q.tensor("x", shape=shape)
    xe = x.e
    s.vars["x"] = xe
    s.replay = {"class": "quantized_bits", "kwargs": {"alpha": kw["alpha"], "scale_axis": scale_axis, "elements_per_scale": eps},
                "shape": list(shape), "bounds_po2": bounds_po2, "frozen": alpha_kind == "frozen"}
    if alpha_kind in ("auto", "auto_po2") and not bounds_po2 and len(shape) > 1:
      # IEEE non-finite values are outside the real-arithmetic VCs: bounded native probe (never counted as proved)
      nk = {"alpha": alpha_kind}
      if scale_axis is not None:
        nk["scale_axis"] = scale_axis
      s.info["native_probes"] = [{"clause": "finite_outputs", "kind": "c05_finite",
                                  "witness": {"class": "quantized_bits", "kwargs": nk, "shape": list(shape)},
                                  "bound": "native run on zeros / an all-zero channel / magnitudes 1e-6..1e6, bits in {2,3,4,8}, integer in {0,1,3}"}]
    # spy on tf.where: the last call in __call__ produces the magnitude of the emitted code
    wheres = []
    orig = L.TABLE["tf.where"]

    def spy(ip_, *a, **k):
      out = orig.fn(ip_, *a, **k)
      wheres.append((out, a))
      return out
    pows = []
    orig_pow = L.TABLE["K.pow"]

    def spy_pow(ip_, *a, **k):
      out = orig_pow.fn(ip_, *a, **k)
      pows.append((out, a))
      return out
    # the clip of the code magnitude may equally be written tf.minimum(v, top): both forms are recorded as (result, (mask, v, top))
    orig_min = L.TABLE["tf.minimum"]

    def spy_min(ip_, *a, **k):
      out = orig_min.fn(ip_, *a, **k)
      if len(a) == 2:
        wheres.append((out, (None, a[0], a[1])))
      return out
    L.TABLE["tf.where"] = Builtin("tf.where", spy)
    L.TABLE["tf.minimum"] = Builtin("tf.minimum", spy_min)
    L.TABLE["K.pow"] = Builtin("K.pow", spy_pow)
    try:
      r = Q.call(ip, q, x)
    finally:
      L.TABLE["tf.where"] = orig
      L.TABLE["tf.minimum"] = orig_min
      L.TABLE["K.pow"] = orig_pow
    s.claim("no_raise", r[0] == "return")
    if r[0] != "return":
      s.info["raised"] = str(r[1])
      return s
    ret = Q.value(r)
    sc = ip.getattr(q, "scale")
    sce = Q.num_value(sc)
    s.vars["scale"] = sce
    step = P(integer - n)
    s.hints.extend([n, integer, integer - n, n - integer, -integer, -n])
    top = z3.ToReal(I.IPOW2(n) - 1)
    c04.apply_mean_lemmas(ip, xe)
    # group maximum of |x| (L-max): recorded by the library model with max_G >= member
    ax = z3.If(xe >= 0, xe, -xe)
    s.claim("scale_pos", sce > 0)
    rank = len(shape)
    if alpha_kind != "frozen":
      axes = c04.expected_axes(rank, scale_axis) if rank > 1 else (0,)
      reds = [k for kind, _, _, k in ip.aggs if kind in ("K.mean", "K.max")]
      if eps is None:
        s.claim("scale_group", bool(reds) and all(k[2] == axes for k in reds))
      else:
        # elements_per_scale: the least-squares refinement works per block of eps consecutive elements along scale_axis
        # (C04.expected_group); the max-based start value stays per channel
        view, vaxes = c04.expected_group(shape, scale_axis, eps)
        means = [k for k in reds if k[0] == "K.mean"]
        maxes = [k for k in reds if k[0] == "K.max"]
        s.claim("scale_group", bool(means) and all(k[2] == vaxes and tuple(k[1]) == view for k in means) and
                all(k[2] == axes for k in maxes))
    # ---- form: the code magnitude is the value the program's last tf.where produced (an integer, clipped to L)
    # value of one code, formed the way the program forms it (scale * m_i / m with power-of-two factors merged by
    # the interpreter's scale normalisation); unit_identity ties it to q.scale * step
    u = z3.simplify(I.mul_norm(I.mul_norm(sce, P(integer)), P(-n)))
    s.lemma("unit_identity", u == sce * step)
    sgn = z3.If(xe > 0, z3.RealVal(1), z3.If(xe < 0, z3.RealVal(-1), z3.RealVal(0)))
    if not wheres or not isinstance(wheres[-1][0], SNum) or len(wheres[-1][1]) != 3:
      s.claim("form", False)
      s.info["raised"] = "no code magnitude produced by tf.where(mask, v, top) / tf.minimum(v, top)"
      return s
    mag = R(wheres[-1][0].e)
    _, vv, tt = wheres[-1][1]
    vv, tt = Q.num_value(vv), Q.num_value(tt)
    s.vars["code_magnitude"] = mag
    s.claim("form", ret == u * sgn * mag)
    # integer code of the declared width: the selected value is floor(.) (an integer) when below the top code,
    # else the top code L itself            (stated where the scale is positive: |x|/scale is meaningful there)
    s.claim("code_is_integer", z3.And(z3.Or(mag == vv, mag == tt), z3.simplify(z3.IsInt(vv)), tt == top))
    s.claim("code_width", z3.Implies(sce > 0, z3.And(mag >= 0, mag <= top)))
    if alpha_kind == "auto":
      gmax = [g for kind, e, g, k in ip.aggs if kind == "K.max"]
      if gmax:
        m = gmax[0] * P(integer)           # the reduction is taken on x / 2^integer
        s.claim("max_to_top", z3.Implies(z3.And(sce > 0, ax == m), ret == xe))
      else:
        s.claim("max_to_top", False)
    if alpha_kind == "auto_po2":
      # the exponent the program raised 2 to in its last K.pow(2.0, e) is an integer; the exposed scale is
      # 2^clip(e, min, max) * 2^n
      cand = [a for out, a in pows if len(a) == 2 and not is_sym(a[0]) and float(a[0]) == 2.0 and is_sym(a[1])]
      if not cand:
        s.claim("scale_po2", False)
        s.info["raised"] = "no K.pow(2.0, e) with a data-dependent exponent"
      else:
        ee = Q.num_value(cand[-1][1])
        if z3.is_app(ee) and ee.decl().kind() == z3.Z3_OP_TO_REAL and ee.arg(0).sort() == z3.IntSort():
          # generalise the (large) integer exponent term rnd(log2(...)) to a fresh integer: the clauses below
          # hold for every integer exponent
          raw = z3.Int("scale_exp_raw")
          s.abstract.append((ee.arg(0), raw))
          s.vars["scale_exp_raw"] = raw
          s.hints.extend([raw, raw + n, -raw])
        e_spec = ee
        if lo is not None:
          e_spec = z3.If(e_spec < z3.ToReal(lo), z3.ToReal(lo), e_spec)
        if hi is not None:
          e_spec = z3.If(e_spec > z3.ToReal(hi), z3.ToReal(hi), e_spec)
        if False:
          pass
        ei = z3.Int("scale_exp")
        s.vars["scale_exp"] = ei
        ip.assume(z3.ToReal(ei) == e_spec)     # names the (integer) exponent; integrality is claimed below
        s.hints.extend([ei, ei + n])
        s.claim("scale_exp_integer", z3.simplify(z3.IsInt(ee)))
        s.claim("scale_po2", sce == P(ei) * P(n))
        if bounds_po2:
          s.claim("scale_po2_bounds", z3.And(lo <= ei if lo is not None else True, ei <= hi if hi is not None else True))
    if alpha_kind == "frozen":
      s.claim("frozen", sce == pts)
    return s
  return scenario


def linear_scenario(shape, scale_axis=None, alpha="auto", kn=1):
  """quantized_linear(alpha='auto', symmetric, signed): output = quantization_scale * integer code with |code| <= 2^n - 1,
  quantization_scale = max(2*max_G|x| / (2*(2^n - 1)), eps) > 0 over the expected group; group-maximal elements unchanged
  when the scale is above the epsilon floor."""
  def scenario(ip):
    s = Scen()
    ip.aggs = []
    bits, integer = z3.Int("bits"), z3.Int("integer")
    s.vars["bits"], s.vars["integer"] = bits, integer
    ip.assume(z3.And(bits >= 2, integer >= 0))
    n = bits - kn
    kw = {"alpha": alpha}
    if scale_axis is not None:
      kw["scale_axis"] = scale_axis
    q = ip.call(Q.qcls(ip, "quantized_linear"), [SNum(bits), SNum(integer), 1 if kn else 0, kn], kw)
    x = Q.tensor("x", shape=shape)
    xe = x.e
    s.vars["x"] = xe
    s.replay = {"class": "quantized_linear", "kwargs": {"alpha": alpha, "scale_axis": scale_axis, "keep_negative": kn}, "shape": list(shape),
                "bounds_po2": False, "frozen": False}
    if len(shape) > 1:
      nk = {"alpha": alpha}
      if scale_axis is not None:
        nk["scale_axis"] = scale_axis
      s.info["native_probes"] = [{"clause": "finite_outputs", "kind": "c05_finite",
                                  "witness": {"class": "quantized_linear", "kwargs": nk, "shape": list(shape)},
                                  "bound": "native run on zeros / an all-zero channel / magnitudes 1e-6..1e6, bits in {2,3,4,8}, integer in {0,1,3}"}]
    r = Q.call(ip, q, x)
    s.claim("no_raise", r[0] == "return")
    if r[0] != "return":
      s.info["raised"] = str(r[1])
      return s
    ret = Q.value(r)
    qs = Q.num_value(ip.getattr(q, "quantization_scale"))
    s.vars["scale"] = qs
    top = z3.ToReal(I.IPOW2(n) - 1)
    s.hints.extend([n, -n, integer])
    s.claim("scale_pos", qs > 0)
    rank = len(shape)
    # rank 1: quantized_linear reduces over no axis at all (every element is its own channel)
    axes = c04.expected_axes(rank, scale_axis) if rank > 1 else ()
    reds = [k for kind, _, _, k in ip.aggs if kind in ("K.mean", "K.max")]
    s.claim("scale_group", bool(reds) and all(tuple(k[2] or ()) == tuple(axes) for k in reds))
    if alpha == "auto_po2":
      # the least-squares refinement loop (tf.while_loop, at most 5 rounds, every trip count is a path): whatever
      # round it stops in, the scale is an integer power of two over the SAME group, and the codes stay in range
      e = I._pow2_exp(z3.simplify(qs))
      s.claim("scale_po2", e is not None)
      s.claim("code_range", z3.And(ret <= top * qs, ret >= -top * qs))
      return s
    gmax = [g for kind, e, g, k in ip.aggs if kind == "K.max"]
    if not gmax:
      s.claim("scale_formula", False)
      return s
    m = gmax[0]
    ax = z3.If(xe >= 0, xe, -xe)
    # what the maximum is taken of: magnitudes for a signed format, the values themselves for an unsigned one (a large
    # negative entry, which the unsigned format maps to 0 anyway, must not coarsen the scale)
    elems = [e for kind, e, g, k in ip.aggs if kind == "K.max"]
    s.claim("max_taken_of", elems[0] == (ax if kn else xe))
    if kn:
      raw = (m * 2) / (2 * top)
    else:
      raw = m / top
    s.claim("scale_formula", qs == z3.If(raw >= EPS, raw, EPS))
    # the emitted value lies within the declared code range times the scale (integrality of ret / scale is not claimed here)
    s.claim("code_range", z3.And(ret <= top * qs, ret >= (-top * qs if kn else 0)))
    s.claim("max_to_top", z3.Implies(z3.And(raw >= EPS, (ax if kn else xe) == m), ret == xe))
    return s
  return scenario


def bounds(vars_):
  cs = []
  for k, v in vars_.items():
    if k == "bits":
      cs.append(v <= 6)
    elif k == "integer":
      cs.append(v <= 3)
    elif k in ("min_e", "max_e", "pts_exp"):
      cs.append(z3.And(v >= -6, v <= 6))
  return cs


def cases(tier):
  out = []
  T = Q.QF + "quantized_bits.__call__"
  for ak in ("auto", "auto_po2"):
    for shape in ((5,), (3, 4), (2, 2, 3, 4)):
      out.append(Case(PROP, T, "alpha-%s_rank%d" % (ak, len(shape)), scenario_for(ak, shape), bounds=bounds,
                      replay_kind="c05", assumptions=ASSUME, timeout_ms=20000, lo=-40, hi=40))
  out.append(Case(PROP, T, "alpha-auto_po2_eps2_scale_axis1_rank2", scenario_for("auto_po2", (3, 4), scale_axis=1, eps=2),
                  bounds=bounds, replay_kind="c05", assumptions=ASSUME, timeout_ms=20000, lo=-40, hi=40))
  out.append(Case(PROP, T, "alpha-auto_scale_axis0_rank2", scenario_for("auto", (3, 4), scale_axis=0), bounds=bounds,
                  replay_kind="c05", assumptions=ASSUME, timeout_ms=20000))
  for bk in ("both", "min", "max"):
    out.append(Case(PROP, T, "alpha-auto_po2_bounded-%s_rank2" % bk, scenario_for("auto_po2", (3, 4), bounds_po2=bk), bounds=bounds,
                    replay_kind="c05", assumptions=ASSUME, timeout_ms=20000))
  TL = Q.QF + "quantized_linear.__call__"
  for shape in ((5,), (3, 4), (2, 2, 3, 4)):
    out.append(Case(PROP, TL, "alpha-auto_rank%d" % len(shape), linear_scenario(shape), bounds=bounds, replay_kind="c05_linear",
                    assumptions=ASSUME, timeout_ms=20000))
  out.append(Case(PROP, TL, "alpha-auto_unsigned_rank2", linear_scenario((3, 4), kn=0), bounds=bounds,
                  replay_kind="c05_linear", assumptions=ASSUME, timeout_ms=20000))
  out.append(Case(PROP, TL, "alpha-auto_scale_axis0_rank2", linear_scenario((3, 4), scale_axis=0), bounds=bounds,
                  replay_kind="c05_linear", assumptions=ASSUME, timeout_ms=20000))
  for shape, sa in (((3, 4), None), ((3, 4), 0), ((2, 3, 4), 1)) + ((((5,), None),) if tier == "thorough" else ()):
    out.append(Case(PROP, TL, "alpha-auto_po2%s_rank%d" % ("" if sa is None else "_scale_axis%d" % sa, len(shape)),
                    linear_scenario(shape, scale_axis=sa, alpha="auto_po2"), bounds=bounds, replay_kind="c05_linear",
                    assumptions=ASSUME, timeout_ms=20000))
  out.append(Case(PROP, T, "frozen_post_training_scale_rank2", scenario_for("frozen", (3, 4)), bounds=bounds,
                  replay_kind="c05", assumptions=ASSUME, timeout_ms=20000))
  return out
