"""C18 - bit widths reported for a concrete model bound the values it really produces.

Functions under contract (real source, re-read every run):
  generate_layer_data_type_map.generate_layer_data_type_map   (whole function, executed on a one-layer graph:
        SOURCE -> layer -> SINK; the dense/conv branch  `node_type in QKERAS_LAYERS or node_type in KERAS_LAYERS`)
  generate_layer_data_type_map.update_output_quantizer_in_graph, qgraph.GraphUpdateEdge
  qtools_util.get_input_quantizers_advanced, is_merge_layers, is_shape_alternation_layers,
              adjust_accumulator_for_auto_po2 (auto_po2 cases)
  quantizer_factory.QuantizerFactory.__init__/make_quantizer/_make_quantizer_util/is_quantizer_supported/
              make_default_quantizer/clone_quantizer, quantizer_impl.*.convert_qkeras_quantizer
  MultiplierFactory.make_multiplier, AccumulatorFactory.make_accumulator, adder_factory.IAdder.make_quantizer
  estimate.analyze_accumulator (see analyze cases)

Clauses (map cases; every numeric option and every kernel dimension symbolic, unbounded):
  no_raise        the map is produced
  weight_fits / bias_fits / input_fits
                  every value the layer's qkeras quantizer can emit (value-set spec of C01/C03/C04) is a member
                  of the value set of the qtools type the map reports for it
  preact_res      the accumulator type's step divides every product's step and the bias step
  preact_fits     sum_{j<N} w_j*x_j (+ b) lies in the range of map[layer]["accumulator"].output for all operand
                  values, N = number of products per output element (dense: inputs; conv: kernel taps * channels in;
                  depthwise: kernel taps)
  out_edge        the type written on the outgoing graph edge is the accumulator type (no activation on the layer)

Assumed lemmas (pure arithmetic, stated in the evidence):
  L-prod  a in [alo, ahi], b in [blo, bhi]  =>  a*b in [min corners, max corners]
  L-sum   N values in [lo, hi], all multiples of 2^r  =>  their sum in [N*lo, N*hi], a multiple of 2^r
networkx.DiGraph is replaced by its contract (a stub with predecessors/successors/nodes/edges written in Python
and executed by the same interpreter); the Keras layer is a stub exposing the attributes the code reads.
"""
import z3

from pyvc.contract import Case, Scen, run_call
from pyvc.values import *  # noqa
from pyvc import interp as I
from . import spec as S
from . import qtypes as Q

PROP = "C18"
GM = "qkeras/qtools/generate_layer_data_type_map.py::generate_layer_data_type_map"

GRAPH_STUB = '''
class EdgeView(object):
  def __init__(self, g):
    self.g = g
  def __call__(self, n):
    return [(n, v) for v in self.g.succ[n]]
  def __getitem__(self, uv):
    return self.g.adj[uv[0]][uv[1]]

class DiGraph(object):
  """contract of networkx.DiGraph as far as qtools uses it"""
  def __init__(self):
    self.nodes = {}
    self.adj = {}
    self.pred = {}
    self.succ = {}
    self.order = []
    self.edges = EdgeView(self)
  def add_node(self, n, **attrs):
    self.nodes[n] = attrs
    self.adj[n] = {}
    self.pred[n] = []
    self.succ[n] = []
    self.order.append(n)
  def add_edge(self, u, v, **attrs):
    self.adj[u][v] = attrs
    self.succ[u].append(v)
    self.pred[v].append(u)
  def predecessors(self, n):
    return iter(list(self.pred[n]))
  def successors(self, n):
    return iter(list(self.succ[n]))
  def __getitem__(self, u):
    return self.adj[u]
  def topological_order(self):
    return list(self.order)
'''

ASSUME = ["A3 CPython semantics as encoded by pyvc.interp",
          "K: networkx.DiGraph behaves as the stub contract (nodes/edges/predecessors/successors, topological order SOURCE, layer, SINK)",
          "K: the layer object exposes name/use_bias/get_quantizers/get_weights/output_shape as a Keras layer does",
          "L-prod/L-sum interval lemmas for products and N-term sums (pure arithmetic) - proved in lean/Lemmas.lean, re-checked by the thorough tier",
          "quantizer value sets are those of C01/C03/C04 (alpha=None); operation counts are outside this property (C19)"]

LAYERS = {
    # node type -> (kernel rank, indices of the kernel dims whose product is N)
    "QDense": (2, (0,)),
    "QConv1D": (3, (0, 1)),
    "QConv2D": (4, (0, 1, 2)),
    "QDepthwiseConv2D": (4, (0, 1)),
}


class PolyB(object):
  """Sum of c_i * 2^e_i (c_i python ints, e_i z3 Int terms): interval end points."""

  def __init__(self, terms):
    self.terms = [(c, z3.simplify(e)) for c, e in terms if c != 0]

  def mul(self, o):
    return PolyB([(c1 * c2, e1 + e2) for c1, e1 in self.terms for c2, e2 in o.terms])

  def expr(self):
    out = z3.RealVal(0)
    for c, e in self.terms:
      out = out + c * I.POW2(e)
    return out

  def shift(self, k):
    return PolyB([(c, e + k) for c, e in self.terms])

  def exps(self):
    return [e for _, e in self.terms]


def ends(lat):
  """(lo, hi) end points of a lattice as PolyB, and its resolution exponent."""
  if lat.kind == "fixed":
    i = lat.n - lat.f
    return [("s", PolyB([(-1, i)])), ("u", PolyB([]))], PolyB([(1, i), (-1, -lat.f)]), -lat.f
  if lat.kind == "po2":
    return [("s", PolyB([(-1, lat.emax)])), ("u", PolyB([(1, lat.emin)]))], PolyB([(1, lat.emax)]), lat.emin
  if lat.kind == "finite":
    return [("c", PolyB([(min(lat.values), z3.IntVal(0))]))], PolyB([(max(lat.values), z3.IntVal(0))]), z3.IntVal(0)
  raise Unsupported("ends of %s" % lat.kind)


def lat_signed(lat):
  if lat.kind == "fixed":
    return lat.s == 1
  if lat.kind == "po2":
    return lat.signed
  return z3.BoolVal(min(lat.values) < 0)


def lo_cases(lat):
  """[(guard, PolyB)] for the lower end point."""
  los, hi, res = ends(lat)
  out = []
  for tag_, p in los:
    if tag_ == "s":
      out.append((lat_signed(lat), p))
    elif tag_ == "u":
      out.append((z3.Not(lat_signed(lat)), p))
    else:
      out.append((z3.BoolVal(True), p))
  return out, hi, res


def build_graph(ip, layer_type, layer, in_q, shape_in):
  gm = ip.load_source("c18_graph_stub", GRAPH_STUB)
  g = ip.call(gm.env.vars["DiGraph"], [], {})
  add_node, add_edge = ip.getattr(g, "add_node"), ip.getattr(g, "add_edge")
  ip.call(add_node, [-1], {"layer": [None], "type": [None], "out_quantizer": None})
  ip.call(add_node, [0], {"layer": [layer], "type": [layer_type], "out_quantizer": None})
  ip.call(add_node, [-2], {"layer": [None], "type": [None], "out_quantizer": None})
  ip.call(add_edge, [-1, 0], {"shape": shape_in, "tensor": "t_in", "quantizer": in_q})
  ip.call(add_edge, [0, -2], {"shape": None, "tensor": "t_out", "quantizer": None})
  return g


def map_scenario(ltype, wk, wmv, xk, bk):
  rank, nidx = LAYERS[ltype]

  def scenario(ip):
    s = Scen()
    wq, _, wl = Q.make_qkeras(ip, s, "w", wk, wmv, alpha=1.0)   # Q* layers turn alpha=None into auto_po2
    xq, _, xl = Q.make_qkeras(ip, s, "x", xk, None)
    if bk is None:
      bq, bl = None, None
    else:
      bq, _, bl = Q.make_qkeras(ip, s, "b", bk, None)
    # requires: at least one non-sign bit (1-bit signed quantized_bits degenerates to a +-1 sign quantizer)
    for pfx_, k_ in (("w", wk), ("x", xk), ("b", bk)):
      if k_ == "qbits":
        ip.assume(s.vars[pfx_ + "_bits"] - s.vars[pfx_ + "_signed"] >= 1)
    dims = []
    for i in range(rank):
      d = z3.Int("d%d" % i)
      ip.assume(d >= 1)
      s.vars["d%d" % i] = d
      dims.append(SNum(d, "int"))
    kernel = Obj(ExtClass("ndarray"), {"shape": tuple(dims)}, label="kernel")
    bias = Obj(ExtClass("ndarray"), {"shape": (dims[-1],)}, label="bias")
    weights = [kernel] + ([bias] if bk is not None else [])
    layer = Obj(ExtClass(ltype), {
        "name": "layer0", "use_bias": bk is not None,
        "get_quantizers": Builtin("get_quantizers", lambda ip_: [wq, bq]),
        "get_weights": Builtin("get_weights", lambda ip_: list(weights)),
        "output_shape": (None, dims[-1]),
    }, label=ltype)
    g = build_graph(ip, ltype, layer, xq, (None, dims[0]))
    mod = ip.get_module("qkeras.qtools.generate_layer_data_type_map")
    ip.setattr(ip.get_module("qkeras.qtools.qtools_util"), "get_operation_count",
               Builtin("get_operation_count", lambda ip_, l, shp: 0))
    captured = []
    key = "qkeras.qtools.quantized_operators.accumulator_factory::AccumulatorFactory.make_accumulator"

    def spy(ip_, fv, a, k):
      del ip_.overrides[key]
      try:
        out = ip_.call_func(fv, a, k)
      finally:
        ip_.overrides[key] = spy
      captured.append(out)
      return out
    ip.overrides[key] = spy
    r = run_call(ip, mod.env.vars["generate_layer_data_type_map"], [g, [], False])
    s.claim("no_raise", r[0] == "return")
    if r[0] != "return":
      s.info["raised"] = str(r[1])
      return s
    res = r[1]
    lmap = res["layer_data_type_map"]
    ok_entry = layer in lmap
    s.claim("entry", ok_entry)
    if not ok_entry:
      return s
    ent = lmap[layer]
    get = (lambda k: ent[k]) if isinstance(ent, dict) else (lambda k: ip.getattr(ent, k))
    wt, xt, bt = get("weight_quantizer"), get("input_quantizer_list")[0], get("bias_quantizer")
    mult, acc = get("multiplier"), get("accumulator")
    s.replay = {"layer": ltype, "wk": wk, "wmv": wmv, "xk": xk, "bk": bk}

    # ---- operand tensors fit the reported types
    def covers(name, lat, t, pfx):
      tl = Q.type_lattice(ip, t, s)
      if tl.kind == "float":
        s.claim(name, True)
        return
      el = S.element(lat, pfx)
      s.vars.update(el.names)
      goal, hints = S.fits(el.mant, el.ex, tl)
      s.hints.extend(hints)
      s.claim(name, z3.Implies(z3.And(*el.cs), goal))
    covers("weight_fits", wl, wt, "cw")
    covers("input_fits", xl, xt, "cx")
    if bk is not None:
      if bt is None:
        s.claim("bias_fits", False)
      else:
        covers("bias_fits", bl, bt, "cb")
    else:
      s.claim("bias_none", bt is None)

    edge_q = ip.getitem(ip.getitem(ip.getattr(g, "adj"), 0), -2)["quantizer"]
    s.claim("out_edge", edge_q is ip.getattr(acc, "output"))

    # ---- pre-activation
    al = Q.type_lattice(ip, ip.getattr(acc, "output"), s)
    if al.kind == "float":
      s.claim("preact_fits", False)
      s.info["raised"] = "floating-point accumulator reported for quantized operands"
      return s
    n = z3.Int("N")
    prod = z3.IntVal(1)
    for i in nidx:
      prod = prod * dims[i].e
    ip.assume(n == prod)
    s.vars["N"] = n
    lg = z3.Int("LGN")        # ceil(log2 N): 2^(lg-1) < N <= 2^lg
    ip.assume(z3.And(lg >= 0, z3.ToReal(n) <= I.POW2(lg), z3.Or(lg == 0, I.POW2(lg - 1) < z3.ToReal(n))))
    s.vars["LGN"] = lg
    s.hints.extend([lg, lg - 1])
    for a in captured:
      if ip.hasattr(a, "log_add_ops") and is_sym(ip.getattr(a, "log_add_ops")):
        L = ip.getattr(a, "log_add_ops").e
        s.hints.extend([L, L - 1])
    full = z3.ToReal(n) == I.POW2(lg)
    wlo, whi, wres = lo_cases(wl)
    xlo, xhi, xres = lo_cases(xl)
    total = z3.Real("sum")
    s.vars["sum"] = total
    # L-sum with N <= K, K = 2^lg when N is that power of two and 2^lg - 1 otherwise; the product range is
    # widened to contain 0 (both bounds are sound over-approximations of the set of N-term sums, and exact
    # when N = 2^lg)
    ups, downs = [total <= 0], [total >= 0]
    for gw, pw in wlo + [(z3.BoolVal(True), whi)]:
      for gx, px in xlo + [(z3.BoolVal(True), xhi)]:
        corner = pw.mul(px)
        kc = corner.shift(lg).expr() - z3.If(full, z3.RealVal(0), corner.expr())
        ups.append(z3.And(gw, gx, total <= kc))
        downs.append(z3.And(gw, gx, total >= kc))
        s.hints.extend(corner.exps() + corner.shift(lg).exps())
    ip.assume(z3.Or(*ups))
    ip.assume(z3.Or(*downs))
    pre = total
    res_terms = [wres + xres]
    if bk is not None:
      blo, bhi, bres = lo_cases(bl)
      b = z3.Real("bias")
      s.vars["bias"] = b
      ip.assume(z3.Or(*[z3.And(gb, b >= pb.expr()) for gb, pb in blo]))
      ip.assume(b <= bhi.expr())
      pre = total + b
      res_terms.append(bres)
      for _, pb in blo:
        s.hints.extend([e for _, e in pb.terms])
      s.hints.extend([e for _, e in bhi.terms])
    goals_res = []
    rng = None
    for rt in res_terms:
      r_ok, rng, hints = S.range_fits(pre, pre, rt, al)
      goals_res.append(r_ok)
      s.hints.extend(hints)
    for l in (wl, xl):
      if l.kind == "fixed":
        s.hints.extend([l.n - l.f, -l.f, l.n])
      elif l.kind == "po2":
        s.hints.extend([l.emax, l.emin])
    s.claim("preact_res", z3.And(*goals_res))
    s.claim("preact_fits", rng)
    return s
  return scenario


def fused_scenario(ltype, xk, bk):
  """Kernel quantizer quantized_bits(alpha='auto_po2') that has been called: q.scale holds one power of two per output
  channel (two channels, exponents t0, t1 symbolic).  Real weights of channel c are q.scale[c] * (code * step); the
  map's fused_accumulator entry must hold every pre-activation of every channel."""
  rank, nidx = LAYERS[ltype]

  def scenario(ip):
    from pyvc import lib as L
    s = Scen()
    bits, integer = z3.Int("w_bits"), z3.Int("w_int")
    s.vars["w_bits"], s.vars["w_int"] = bits, integer
    ip.assume(z3.And(bits >= 2, integer >= 0))
    nw = bits - 1
    qz = ip.get_module("qkeras.quantizers")
    wq = ip.call(ip.getattr(qz, "quantized_bits"), [SNum(bits), SNum(integer), 1, 1], {"alpha": "auto_po2"})
    t0, t1 = z3.Int("t0"), z3.Int("t1")
    s.vars["t0"], s.vars["t1"] = t0, t1
    ip.setattr(wq, "scale", L.NDList([SNum(I.POW2(t0), "float"), SNum(I.POW2(t1), "float")]))
    s.hints.extend([t0, t1, -t0, -t1])
    # symmetric code range of the auto-scaled quantizer: |code| <= 2^n - 1
    wl = S.Fixed(nw - integer, -(I.IPOW2(nw) - 1), I.IPOW2(nw) - 1, nw, z3.IntVal(1))
    wl.symmetric = True
    xq, _, xl = Q.make_qkeras(ip, s, "x", xk, None)
    if bk is None:
      bq, bl = None, None
    else:
      bq, _, bl = Q.make_qkeras(ip, s, "b", bk, None)
    for pfx_, k_ in (("x", xk), ("b", bk)):
      if k_ == "qbits":
        ip.assume(s.vars[pfx_ + "_bits"] - s.vars[pfx_ + "_signed"] >= 1)
    dims = []
    for i in range(rank):
      d = z3.Int("d%d" % i)
      ip.assume(d >= 1)
      s.vars["d%d" % i] = d
      dims.append(SNum(d, "int"))
    kernel = Obj(ExtClass("ndarray"), {"shape": tuple(dims)}, label="kernel")
    bias = Obj(ExtClass("ndarray"), {"shape": (dims[-1],)}, label="bias")
    weights = [kernel] + ([bias] if bk is not None else [])
    layer = Obj(ExtClass(ltype), {
        "name": "layer0", "use_bias": bk is not None,
        "get_quantizers": Builtin("get_quantizers", lambda ip_: [wq, bq]),
        "get_weights": Builtin("get_weights", lambda ip_: list(weights)),
        "output_shape": (None, dims[-1]),
    }, label=ltype)
    g = build_graph(ip, ltype, layer, xq, (None, dims[0]))
    mod = ip.get_module("qkeras.qtools.generate_layer_data_type_map")
    ip.setattr(ip.get_module("qkeras.qtools.qtools_util"), "get_operation_count",
               Builtin("get_operation_count", lambda ip_, l, shp: 0))
    r = run_call(ip, mod.env.vars["generate_layer_data_type_map"], [g, [], False])
    s.claim("no_raise", r[0] == "return")
    if r[0] != "return":
      s.info["raised"] = str(r[1])
      return s
    lmap = r[1]["layer_data_type_map"]
    if layer not in lmap or "fused_accumulator" not in lmap[layer]:
      s.claim("fused_entry", False)
      return s
    ent = lmap[layer]
    fused = ent["fused_accumulator"]
    s.claim("fused_entry", fused is not ent["accumulator"])
    s.replay = {"layer": ltype, "xk": xk, "bk": bk, "fused": True}
    al = Q.type_lattice(ip, ip.getattr(fused, "output"), s)
    if al.kind == "float":
      s.claim("fused_preact_fits", False)
      return s
    n = z3.Int("N")
    prod = z3.IntVal(1)
    for i in nidx:
      prod = prod * dims[i].e
    ip.assume(n == prod)
    s.vars["N"] = n
    lg = z3.Int("LGN")
    ip.assume(z3.And(lg >= 0, z3.ToReal(n) <= I.POW2(lg), z3.Or(lg == 0, I.POW2(lg - 1) < z3.ToReal(n))))
    s.vars["LGN"] = lg
    s.hints.extend([lg, lg - 1])
    full = z3.ToReal(n) == I.POW2(lg)
    xlo, xhi, xres = lo_cases(xl)
    iw = wl.n - wl.f
    wlo = [(z3.BoolVal(True), PolyB([(-1, iw), (1, -wl.f)]))]         # -(2^i - 2^-f)
    whi = PolyB([(1, iw), (-1, -wl.f)])
    res_goals, rng_goals = [], []
    for c, t in ((0, t0), (1, t1)):
      total = z3.Real("sum%d" % c)
      s.vars["sum%d" % c] = total
      ups, downs = [total <= 0], [total >= 0]
      for gw, pw in wlo + [(z3.BoolVal(True), whi)]:
        for gx, px in xlo + [(z3.BoolVal(True), xhi)]:
          corner = pw.mul(px).shift(t)          # scaled by the channel's power-of-two scale
          kc = corner.shift(lg).expr() - z3.If(full, z3.RealVal(0), corner.expr())
          ups.append(z3.And(gw, gx, total <= kc))
          downs.append(z3.And(gw, gx, total >= kc))
          s.hints.extend(corner.exps() + corner.shift(lg).exps())
      ip.assume(z3.Or(*ups))
      ip.assume(z3.Or(*downs))
      pre = total
      res_terms = [-wl.f + xres + t]
      if bk is not None:
        blo, bhi, bres = lo_cases(bl)
        b = z3.Real("bias%d" % c)
        s.vars["bias%d" % c] = b
        ip.assume(z3.Or(*[z3.And(gb, b >= pb.expr()) for gb, pb in blo]))
        ip.assume(b <= bhi.expr())
        pre = total + b
        res_terms.append(bres)
        for _, pb in blo:
          s.hints.extend(pb.exps())
        s.hints.extend(bhi.exps())
      for rt in res_terms:
        r_ok, rng, hints = S.range_fits(pre, pre, rt, al)
        res_goals.append(r_ok)
        s.hints.extend(hints)
      rng_goals.append(rng)
    if xl.kind == "fixed":
      s.hints.extend([xl.n - xl.f, -xl.f, xl.n])
    s.hints.extend([iw, -wl.f, wl.n])
    s.claim("fused_preact_res", z3.And(*res_goals))
    s.claim("fused_preact_fits", z3.And(*rng_goals))
    return s
  return scenario


def bounds(vars_):
  cs = []
  for k, v in vars_.items():
    if k in ("t0", "t1"):
      cs.append(z3.And(v >= -4, v <= 4))
    if k.endswith("_bits") or k.endswith("_int"):
      cs.append(v <= 5)
    elif k.endswith("_mvexp"):
      cs.append(z3.And(v >= -4, v <= 4))
    elif k.startswith("d") and k[1:].isdigit():
      cs.append(v <= 3)
    elif k == "LGN":
      cs.append(v <= 6)
  return cs


def chain_scenario(kind, qk=None, qmv=None):
  """Non-MAC branches of generate_layer_data_type_map on small graphs.
  'activation': SOURCE -> QActivation(q) -> SINK: every value q emits fits the output type reported for the layer, and
                that type is what the outgoing edge carries.
  'passthrough': SOURCE -> Flatten -> SINK: the reported output type holds every input value; edge carries it.
  'merge': SOURCE -> QActivation(qa), QActivation(qb) -> Add -> SINK: the merge operator is built from the two
           incoming edge types in order, its output is the layer's output type and the edge's (the arithmetic of the
           merge operator itself is property C17)."""
  def scenario(ip):
    s = Scen()
    gm = ip.load_source("c18_graph_stub", GRAPH_STUB)
    g = ip.call(gm.env.vars["DiGraph"], [], {})
    add_node, add_edge = ip.getattr(g, "add_node"), ip.getattr(g, "add_edge")
    node = lambda i, layer, t: ip.call(add_node, [i], {"layer": [layer], "type": [t], "out_quantizer": None})
    edge = lambda u, v, shape, q: ip.call(add_edge, [u, v], {"shape": shape, "tensor": "t_%s_%s" % (u, v), "quantizer": q})
    xq, _, xl = Q.make_qkeras(ip, s, "x", "qbits", None)
    ip.assume(s.vars["x_bits"] - s.vars["x_signed"] >= 1)
    shp = (None, 8)
    mk_act = lambda name, q: Obj(ExtClass("QActivation"), {"name": name, "quantizer": q, "output_shape": shp,
                                                           "get_weights": Builtin("get_weights", lambda ip_: [])}, label=name)
    ip.setattr(ip.get_module("qkeras.qtools.qtools_util"), "get_operation_count",
               Builtin("get_operation_count", lambda ip_, l, shp_: 0))
    mod = ip.get_module("qkeras.qtools.generate_layer_data_type_map")
    node(-1, None, None)
    node(-2, None, None)
    lats = {}
    if kind == "activation":
      q, _, lat = Q.make_qkeras(ip, s, "a", qk, qmv)
      if qk == "qbits":
        ip.assume(s.vars["a_bits"] - s.vars["a_signed"] >= 1)
      layer = mk_act("act0", q)
      node(0, layer, "QActivation")
      edge(-1, 0, shp, xq)
      edge(0, -2, None, None)
      last = 0
    elif kind == "passthrough":
      layer = Obj(ExtClass("Flatten"), {"name": "flat0", "output_shape": shp,
                                        "get_weights": Builtin("get_weights", lambda ip_: [])}, label="flat0")
      node(0, layer, "Flatten")
      edge(-1, 0, shp, xq)
      edge(0, -2, None, None)
      last = 0
    else:
      qa, _, la = Q.make_qkeras(ip, s, "a", "qbits", None)
      qb, _, lb = Q.make_qkeras(ip, s, "b", "qrelu", None)
      ip.assume(s.vars["a_bits"] - s.vars["a_signed"] >= 1)
      a0, a1 = mk_act("act_a", qa), mk_act("act_b", qb)
      layer = Obj(ExtClass("Add"), {"name": "add0", "output_shape": shp,
                                    "get_weights": Builtin("get_weights", lambda ip_: [])}, label="add0")
      node(0, a0, "QActivation")
      node(1, a1, "QActivation")
      node(2, layer, "Add")
      edge(-1, 0, shp, xq)
      edge(-1, 1, shp, xq)
      edge(0, 2, shp, None)
      edge(1, 2, shp, None)
      edge(2, -2, None, None)
      last = 2
    spied = []
    key = "qkeras.qtools.quantized_operators.merge_factory::MergeFactory.make_quantizer"

    def spy(ip_, fv, a, k):
      del ip_.overrides[key]
      try:
        out = ip_.call_func(fv, a, k)
      finally:
        ip_.overrides[key] = spy
      spied.append((list(a), out))
      return out
    ip.overrides[key] = spy
    s.replay = {"kind": kind, "qk": qk, "qmv": qmv}
    r = run_call(ip, mod.env.vars["generate_layer_data_type_map"], [g, [], False])
    s.claim("no_raise", r[0] == "return")
    if r[0] != "return":
      s.info["raised"] = str(r[1])
      return s
    lmap = r[1]["layer_data_type_map"]
    s.claim("entry", layer in lmap)
    if layer not in lmap:
      return s
    ent = lmap[layer]
    get = (lambda k: ent[k]) if isinstance(ent, dict) else (lambda k: ip.getattr(ent, k))
    outq = get("output_quantizer")
    edge_q = ip.getitem(ip.getitem(ip.getattr(g, "adj"), last), -2)["quantizer"]
    # the edge carries what the branch hands to update_output_quantizer_in_graph (the layer's own quantizer / the input
    # type / the merge operator's output); the successor converts it with the same factory
    if kind == "activation":
      s.claim("out_edge", edge_q is q)
    elif kind == "passthrough":
      s.claim("out_edge", edge_q is get("input_quantizer_list")[0])

    def covers(name, lat, t, pfx):
      tl = Q.type_lattice(ip, t, s)
      if tl.kind == "float":
        s.claim(name, False)
        return
      el = S.element(lat, pfx)
      s.vars.update(el.names)
      goal, hints = S.fits(el.mant, el.ex, tl)
      s.hints.extend(hints)
      s.claim(name, z3.Implies(z3.And(*el.cs), goal))
    if kind == "activation":
      covers("activation_fits", lat, outq, "ca")
      covers("input_fits", xl, get("input_quantizer_list")[0], "cx")
    elif kind == "passthrough":
      covers("output_holds_input", xl, outq, "cx")
    else:
      ea, eb = lmap[a0], lmap[a1]
      ga = (lambda e, k: e[k]) if isinstance(ea, dict) else (lambda e, k: ip.getattr(e, k))
      oa, ob = ga(ea, "output_quantizer"), ga(eb, "output_quantizer")
      covers("operand_a_fits", la, oa, "ca")
      covers("operand_b_fits", lb, ob, "cb")
      ok = len(spied) == 1
      if ok:
        args, out = spied[0]
        ins = [x[0] if isinstance(x, (tuple, list)) else x for x in args[1]]
        mo = ip.getattr(out, "output")
        zi = lambda v: v.e if isinstance(v, SNum) else z3.IntVal(int(v))
        same = lambda t1, t2: z3.And(*[zi(ip.getattr(t1, f_)) == zi(ip.getattr(t2, f_)) for f_ in ("bits", "int_bits", "is_signed")])
        # the two operands are of the types reported for the two producers; the layer's output type is the operator's
        if len(ins) == 2 and args[2] == "Add" and get("multiplier") is out and edge_q is mo:
          ok = z3.And(z3.Or(z3.And(same(ins[0], oa), same(ins[1], ob)), z3.And(same(ins[0], ob), same(ins[1], oa))),
                      same(outq, mo))
        else:
          ok = False
      s.claim("merge_built_from_edges", ok)
      s.claim("merge_inputs_listed", len(get("input_quantizer_list")) == 2)
    return s
  return scenario


def cases(tier):
  out = []
  combos = []
  for wk, wmv in (("qbits", None), ("binary", None), ("ternary", None), ("po2", "none"), ("po2", "le1"), ("po2", "v3"), ("po2", "v6")):
    for xk in ("qbits", "qrelu"):
      for bk in ("qbits", None):
        combos.append((wk, wmv, xk, bk))
  for lt in LAYERS:
    for wk, wmv, xk, bk in combos:
      full = ("QDense", "QConv2D") if tier == "thorough" else ("QDense",)
      if lt not in full and (wk not in ("qbits", "binary") or xk != "qbits"):
        continue
      if (wmv or "").startswith("v") and (lt != "QDense" or xk != "qbits"):
        continue                       # concrete non-power-of-two max_value: dense layer, fixed-point input only
      if tier != "thorough" and (wmv == "v6" or (wk == "po2" and xk != "qbits")):
        continue                       # quick tier: one non-po2 cap, po2 weights with fixed-point inputs only
      name = "%s_%s%s_x_%s_bias-%s" % (lt, wk, "" if wmv is None else "-mv" + wmv, xk, bk or "none")
      out.append(Case(PROP, GM, name, map_scenario(lt, wk, wmv, xk, bk), bounds=bounds,
                      replay_kind="c18_map", assumptions=ASSUME))
  for lt in ("QDense", "QConv2D"):
    for xk in ("qbits", "qrelu"):
      for bk in ("qbits", None):
        if tier != "thorough" and (lt, xk) != ("QDense", "qbits"):
          continue
        out.append(Case(PROP, GM, "%s_auto-po2-kernel_x_%s_bias-%s" % (lt, xk, bk or "none"), fused_scenario(lt, xk, bk),
                        bounds=bounds, replay_kind="c18_fused", assumptions=ASSUME))
  for qk, qmv in (("qbits", None), ("qrelu", None), ("po2", "none"), ("relu_po2", "none"), ("binary", None),
                  ("ternary", None)):
    out.append(Case(PROP, GM, "QActivation_%s" % qk, chain_scenario("activation", qk, qmv), bounds=bounds,
                    replay_kind="c18_chain", assumptions=ASSUME))
  out.append(Case(PROP, GM, "Flatten_passthrough", chain_scenario("passthrough"), bounds=bounds, replay_kind="c18_chain",
                  assumptions=ASSUME))
  out.append(Case(PROP, GM, "Add_of_two_activations", chain_scenario("merge"), bounds=bounds, replay_kind="c18_chain",
                  assumptions=ASSUME + ["the merge operator's own arithmetic is property C17"]))
  out.extend(analyze_cases(tier))
  return out


# ------------------------------------------------------------------ analyze_accumulator
ND_STUB = '''
ELL = ...

def _map2(f, a, b):
  if isinstance(a, list):
    if isinstance(b, list):
      return [_map2(f, x, y) for x, y in zip(a, b)]
    return [_map2(f, x, b) for x in a]
  if isinstance(b, list):
    return [_map2(f, a, y) for y in b]
  return f(a, b)

def _last(d, i):
  if isinstance(d[0], list):
    return [_last(x, i) for x in d]
  return d[i]

def _flat(d):
  if isinstance(d, list):
    out = []
    for x in d:
      out.extend(_flat(x))
    return out
  return [d]

def _shape(d):
  if isinstance(d, list):
    return (len(d),) + _shape(d[0])
  return ()

class NDArray(object):
  """contract of numpy.ndarray as far as analyze_accumulator uses it"""
  def __init__(self, data):
    self.data = data
    self.shape = _shape(data)
  def __getitem__(self, idx):
    if isinstance(idx, tuple):
      if len(idx) == 2 and idx[0] is ELL:
        r = _last(self.data, idx[1])
      else:
        raise NotImplementedError("index")
    else:
      r = self.data[idx]
    if isinstance(r, list):
      return NDArray(r)
    return r
  def __mul__(self, o):
    return NDArray(_map2(lambda x, y: x * y, self.data, o.data if isinstance(o, NDArray) else o))
  def __rmul__(self, o):
    return NDArray(_map2(lambda x, y: y * x, self.data, o))
  def __gt__(self, o):
    return NDArray(_map2(lambda x, y: x > y, self.data, o))
  def __lt__(self, o):
    return NDArray(_map2(lambda x, y: x < y, self.data, o))
  def sum(self):
    total = 0
    for v in _flat(self.data):
      total = total + v
    return total
'''

ASSUME_AN = ["A3 CPython semantics as encoded by pyvc.interp; A1 real arithmetic for float32 numpy values",
             "K: numpy.ndarray behaves as the NDArray stub contract (shape, [..., i], element-wise * > <, np.sum)",
             "K: unfold_model returns the model unchanged when it has no folded layers",
             "the layer computes out[c] = sum_j q(k)[j, c] * x_j + q(b)[c]; weights are already on the quantizer lattice (q(k) = k)",
             "L-vertex: a linear function on the box [x_min, x_max]^N attains its extrema at vertices - proved in lean/Lemmas.lean, re-checked by the thorough tier",
             "BOUNDED in the kernel shape and the input range: those listed in the case names; all weight and bias values symbolic (unbounded reals)"]


def nested(shape, name, s, ip):
  if len(shape) == 1:
    out = []
    for i in range(shape[0]):
      v = z3.Real("%s_%d" % (name, i))
      s.vars["%s_%d" % (name, i)] = v
      out.append(SNum(v, "float"))
    return out
  return [nested(shape[1:], "%s_%d" % (name, i), s, ip) for i in range(shape[0])]


def flat_channel(data, c):
  if isinstance(data[0], list):
    out = []
    for x in data:
      out.extend(flat_channel(x, c))
    return out
  return [data[c]]


def analyze_scenario(ltype, shape, use_bias, rng):
  from fractions import Fraction

  def scenario(ip):
    s = Scen()
    nd = ip.load_source("c18_nd_stub", ND_STUB)
    NDA = nd.env.vars["NDArray"]
    kd = nested(shape, "k", s, ip)
    k = ip.call(NDA, [kd], {})
    cout = shape[-1]
    weights = [k]
    bd = None
    dw = ltype == "QDepthwiseConv2D"
    nbias = shape[-2] * shape[-1] if dw else cout
    if use_bias:
      bd = nested((nbias,), "b", s, ip)
      weights.append(ip.call(NDA, [bd], {}))
    est = ip.get_module("qkeras.estimate")
    cls = ip.getattr(est, ltype)
    layer = Obj(cls, {"name": "layer0", "use_bias": use_bias,
                      "get_weights": Builtin("get_weights", lambda ip_: list(weights))}, label=ltype)
    model = Obj(ExtClass("Model"), {"layers": [layer]}, label="model")
    ip.overrides["qkeras.bn_folding_utils::unfold_model"] = lambda ip_, fv, a, kw: a[0]
    xmin, xmax = float(rng[0]), float(rng[1])
    r = run_call(ip, ip.getattr(est, "analyze_accumulator"), [model, {"layer0": (xmin, xmax)}])
    s.replay = {"layer": ltype, "shape": list(shape), "use_bias": use_bias, "range": [xmin, xmax]}
    s.claim("no_raise", r[0] == "return")
    if r[0] != "return":
      s.info["raised"] = str(r[1])
      return s
    size = r[1]["layer0"]
    sz = size.e if isinstance(size, SNum) else z3.IntVal(int(size))
    s.vars["size"] = sz
    s.hints.extend([sz, sz - 1])
    # every output channel; inputs at the vertices of [x_min, x_max]^N (L-vertex)
    goals = []
    if dw:
      # output channel ci*mult + m of a depthwise convolution sees input channel ci only
      chans = [([tap[ci][m] for row in kd for tap in row], ci * shape[-1] + m)
               for ci in range(shape[-2]) for m in range(shape[-1])]
    else:
      chans = [(flat_channel(kd, c), c) for c in range(cout)]
    for c, (ws, bi) in enumerate(chans):
      # L-vertex in closed form: the extreme of sum_j w_j*x_j over the box takes, per term, the larger
      # (smaller) of w_j*x_max and w_j*x_min
      hi, lo = z3.RealVal(0), z3.RealVal(0)
      for w in ws:
        a, b_ = w.e * zreal(xmax), w.e * zreal(xmin)
        hi = hi + z3.If(a >= b_, a, b_)
        lo = lo + z3.If(a >= b_, b_, a)
      if use_bias:
        hi, lo = hi + bd[bi].e, lo + bd[bi].e
      goals.append(z3.And(hi <= I.POW2(sz), -lo <= I.POW2(sz)))
    s.claim("bound_all_channels", z3.And(*goals))
    return s
  return scenario


AN = "qkeras/estimate.py::analyze_accumulator"


def an_bounds(vars_):
  cs = []
  for k, v in vars_.items():
    if k.startswith("k_") or k.startswith("b_"):
      cs.append(z3.And(v >= -64, v <= 64, z3.IsInt(v * 8)))
  return cs


RANGES = [(0, 1), (-1, 1), (-2, 6), (0, 0.5), (-0.25, 0.5), (-1, 0)]


def analyze_cases(tier):
  out = []
  shapes = [("QDense", (2, 2)), ("QConv2D", (1, 2, 1, 3)), ("QConv1D", (2, 1, 2)), ("QDepthwiseConv2D", (1, 2, 2, 1))]
  ranges = [(-1, 1), (0, 0.5), (-1, 0)]
  if tier == "thorough":
    shapes += [("QDense", (3, 1)), ("QConv2D", (1, 1, 2, 2)), ("QConv2D", (2, 2, 1, 2))]
    ranges = RANGES
  for lt, shp in shapes:
    for ub in (True, False):
      for rg in ranges:
        name = "%s_%s_%s_range_%s_%s" % (lt, "x".join(map(str, shp)), "bias" if ub else "nobias",
                                           str(rg[0]).replace("-", "m").replace(".", "p"),
                                           str(rg[1]).replace("-", "m").replace(".", "p"))
        out.append(Case(PROP, AN, name, analyze_scenario(lt, shp, ub, rg), replay_kind="c18_analyze", bounds=an_bounds,
                        assumptions=ASSUME_AN, timeout_ms=60000,
                        bounded="kernel shape %s and input range %s fixed; weights and bias unbounded reals" % (shp, rg)))
  return out
