"""C12 - model_quantize converts exactly what the configuration names and nothing else.

The JSON configuration handed to Keras is the observable: model.to_json()/json.loads give the layer list,
quantized_model_from_json receives the rewritten document (K2: Keras rebuilds what the JSON says, so topology,
names, shapes and every key the function does not write are preserved by construction of the frame clause).

model_quantize is executed on the real AST for one layer entry at a time (plus a two-entry document for the
"every other entry untouched" clause) over the pattern lattice
   class_name x selection {by name, by class, both (different strings), none} x use_bias x activation kind
with opaque quantizer strings.  The oracle is written from the property statement / docstring.
Clauses: selected_iff, class_renamed, quantizers_set (name entry wins over class entry; bias None without bias),
activation_rule, untouched (entry not selected is identical), others_untouched, no_mutation (source JSON,
quantizer_config and custom_objects unchanged), weights_transferred.
"""
import copy as pycopy

from pyvc.contract import Case, Scen, run_call
from pyvc.values import *  # noqa
from pyvc import lib as L

PROP = "C12"
MQ = "qkeras/utils.py::model_quantize"
ASSUME = ["K2: model.to_json / json round trip / quantized_model_from_json rebuild exactly the document",
          "quantizer strings are opaque to model_quantize (only activation names are inspected)"]

WEIGHT = ["Dense", "Conv1D", "Conv2D", "Conv2DTranspose", "SeparableConv1D", "SeparableConv2D"]


def entry(cls, name, use_bias=True, activation="relu", extra=None):
  cfg = {"name": name, "trainable": True, "dtype": "float32"}
  if cls in WEIGHT + ["DepthwiseConv2D"]:
    cfg.update({"use_bias": use_bias, "activation": activation, "kernel_size": [3, 3], "strides": [1, 1]})
  if cls in ("SimpleRNN", "LSTM", "GRU"):
    cfg.update({"use_bias": use_bias, "activation": activation, "units": 4, "recurrent_activation": "sigmoid"})
  if cls == "Activation":
    cfg.update({"activation": activation})
  if cls == "Bidirectional":
    inner = lambda n: {"class_name": "LSTM", "config": {"name": n, "trainable": True, "use_bias": use_bias, "units": 4,
                                                        "activation": activation, "recurrent_activation": "sigmoid"}}
    cfg.update({"merge_mode": "concat", "layer": inner("fwd_lstm"), "backward_layer": inner("bwd_lstm")})
  if cls in ("AveragePooling2D", "GlobalAveragePooling2D"):
    cfg.update({"pool_size": [2, 2]})
  if cls == "BatchNormalization":
    cfg.update({"axis": [3], "momentum": 0.99})
  if cls == "ReLU":
    cfg.update({"max_value": None, "negative_slope": 0.0, "threshold": 0.0})
  if cls == "ReLU_leaky":            # the same Keras ReLU layer with a positive slope
    cls = "ReLU"
    cfg.update({"max_value": None, "negative_slope": 0.25, "threshold": 0.0})
  if cls == "LeakyReLU":
    cfg.update({"alpha": 0.3})
  cfg.update(extra or {})
  return {"class_name": cls, "name": name, "config": cfg, "inbound_nodes": [[["prev", 0, 0, {}]]]}


def qact(act, bits):
  return {"relu": "quantized_relu(%d)" % bits, "tanh": "quantized_tanh(%d)" % bits,
          "sigmoid": "quantized_sigmoid(%d)" % bits}.get(act, act)


def lookup(qc, name, qclass, param=None):
  q = qc.get(name, qc.get(qclass, None))
  if q is not None and param is not None:
    q = q.get(param, None)
  return q


def oracle(e, qc, bits):
  """Expected rewritten entry (property statement + model_quantize docstring)."""
  e = pycopy.deepcopy(e)
  cls, cfg, name = e["class_name"], e["config"], e["config"]["name"]
  if cls in WEIGHT or cls == "DepthwiseConv2D":
    qcls = "Q" + cls
    wkey = "depthwise_quantizer" if cls == "DepthwiseConv2D" else "kernel_quantizer"
    kq = lookup(qc, name, qcls, wkey)
    if kq is None:
      return e
    e["class_name"] = qcls
    cfg[wkey] = kq
    cfg["bias_quantizer"] = lookup(qc, name, qcls, "bias_quantizer") if cfg["use_bias"] else None
    aq = lookup(qc, name, qcls, "activation_quantizer")
    cfg["activation"] = aq if aq else qact(cfg["activation"], bits)
    return e
  if cls in ("SimpleRNN", "LSTM", "GRU"):
    qcls = "Q" + cls
    kq = lookup(qc, name, qcls, "kernel_quantizer")
    if kq is None:
      return e
    e["class_name"] = qcls
    cfg["kernel_quantizer"] = kq
    cfg["recurrent_quantizer"] = lookup(qc, name, qcls, "recurrent_quantizer")
    cfg["bias_quantizer"] = lookup(qc, name, qcls, "bias_quantizer") if cfg["use_bias"] else None
    cfg["state_quantizer"] = lookup(qc, name, qcls, "state_quantizer")
    aq = lookup(qc, name, qcls, "activation_quantizer")
    cfg["activation"] = aq if aq else qact(cfg["activation"], bits)
    if cls in ("LSTM", "GRU"):
      ra = lookup(qc, name, qcls, "recurrent_activation_quantizer")
      if ra:
        cfg["recurrent_activation"] = ra
    return e
  if cls == "Bidirectional":
    # selected by the wrapper's name or the QBidirectional class entry; the entry configures both wrapped layers, each
    # becoming its quantized counterpart; not selected -> left as it was
    q = lookup(qc, name, "QBidirectional")
    if q is None or q.get("kernel_quantizer") is None:
      return e
    for key in ("layer", "backward_layer"):
      if key in cfg:
        sub = cfg[key]
        cfg[key] = oracle(sub, {sub["config"]["name"]: q}, bits)
    e["class_name"] = "QBidirectional"
    return e
  if cls == "Activation":
    q = lookup(qc, name, "QActivation")
    kind = "QActivation"
    if q is None:
      q = lookup(qc, name, "QAdaptiveActivation")
      kind = "QAdaptiveActivation"
    if q is None:
      return e
    if isinstance(q, dict) and not q.get(cfg["activation"], None):
      return e
    if isinstance(q, dict):
      q = q[cfg["activation"]]
    e["class_name"] = kind
    cfg["activation"] = q if q else qact(cfg["activation"], bits)
    return e
  if cls in ("ReLU", "LeakyReLU"):
    # a ReLU-family layer becomes QActivation when a QActivation entry applies: a plain string is the activation;
    # a map is looked up with "relu" (slope 0) or "leakyrelu" (positive slope); the ReLU-specific keys go away
    q = lookup(qc, name, "QActivation")
    if q is None:
      return e
    slope = cfg["alpha"] if cls == "LeakyReLU" else cfg["negative_slope"]
    qn = "leakyrelu" if slope > 0 else "relu"
    if isinstance(q, dict) and not q.get(qn, None):
      return e
    e["class_name"] = "QActivation"
    for k in (("alpha",) if cls == "LeakyReLU" else ("max_value", "negative_slope", "threshold")):
      del cfg[k]
    if isinstance(q, dict):
      q = q[qn]
    cfg["activation"] = q
    return e
  if cls == "BatchNormalization":
    if name not in qc and "QBatchNormalization" not in qc:
      return e
    e["class_name"] = "QBatchNormalization"
    for k in ("gamma_quantizer", "beta_quantizer", "mean_quantizer", "variance_quantizer"):
      cfg[k] = lookup(qc, name, "QBatchNormalization", k)
    return e
  if cls in ("AveragePooling2D", "GlobalAveragePooling2D"):
    qcls = "Q" + cls
    aq = lookup(qc, name, qcls, "average_quantizer")
    if aq is None:
      return e
    e["class_name"] = qcls
    cfg["average_quantizer"] = aq
    act = lookup(qc, name, qcls, "activation_quantizer")
    if act:
      cfg["activation"] = act
    elif cfg.get("activation") is not None:
      cfg["activation"] = qact(cfg["activation"], bits)
    return e
  return e


def qconfig(cls, name, sel):
  """quantizer dictionary for a selection pattern."""
  qcls = {"Activation": "QActivation", "BatchNormalization": "QBatchNormalization", "ReLU": "QActivation",
          "ReLU_leaky": "QActivation", "LeakyReLU": "QActivation"}.get(cls, "Q" + cls)
  def body(tag):
    if cls == "Activation":
      return "quantized_relu(3)#" + tag
    if cls in ("ReLU", "ReLU_leaky", "LeakyReLU"):
      if tag == "name":
        return "quantized_relu(3)#name"
      return {"relu": "quantized_relu(4)#map", "leakyrelu": "quantized_relu(4,negative_slope=0.25)#map"}
    if cls == "BatchNormalization":
      return {"gamma_quantizer": "G#" + tag, "beta_quantizer": "B#" + tag}
    if cls in ("AveragePooling2D", "GlobalAveragePooling2D"):
      return {"average_quantizer": "AVG#" + tag, "activation_quantizer": "ACT#" + tag}
    d = {"kernel_quantizer": "K#" + tag, "bias_quantizer": "Bq#" + tag, "depthwise_quantizer": "D#" + tag,
         "recurrent_quantizer": "R#" + tag, "state_quantizer": "S#" + tag,
         "recurrent_activation_quantizer": "RA#" + tag, "pointwise_quantizer": "P#" + tag}
    if tag == "name":
      d["activation_quantizer"] = "ACT#name"
    return d
  qc = {"other_layer": {"kernel_quantizer": "X"}, "QUnrelated": {"kernel_quantizer": "Y"}}
  if sel in ("name", "both"):
    qc[name] = body("name")
  if sel in ("class", "both"):
    qc[qcls] = body("class")
  if sel == "partial_name_plus_class":
    # the name entry configures only the weight quantizer; the class entry is complete: the name entry wins as
    # a whole, so the layer gets NO bias / activation quantizer from the class entry
    wkey = "depthwise_quantizer" if cls == "DepthwiseConv2D" else ("average_quantizer" if "Pooling" in cls else "kernel_quantizer")
    qc[name] = {wkey: "ONLY#name"} if cls not in ("Activation", "BatchNormalization", "ReLU", "ReLU_leaky", "LeakyReLU") else body("name")
    qc[qcls] = body("class")
  if sel == "partial_class":
    qc[qcls] = {"bias_quantizer": "only-bias"} if cls not in ("Activation", "BatchNormalization", "ReLU", "ReLU_leaky", "LeakyReLU") else {}
  return qc


def mq_scenario(cls, sel, use_bias, act, transfer):
  def scenario(ip):
    s = Scen()
    name = "lay_1"
    target = entry(cls, name, use_bias, act)
    other = entry("Flatten", "flat_0")
    other2 = entry("Dense", "dense_unselected", True, "softmax")
    # Keras 3 documents carry "registered_name": None for built-in classes, "<package>><class>" for registered custom ones;
    # a custom layer AFTER the target must come through untouched whatever happened to the layers before it
    custom_layer = {"class_name": "Scale2", "name": "scale2", "registered_name": "MyPkg>Scale2",
                    "config": {"name": "scale2", "trainable": True}, "inbound_nodes": [[["prev", 0, 0, {}]]]}
    for e_ in (other, target, other2):
      e_["registered_name"] = None
    doc = {"class_name": "Functional", "config": {"name": "m", "layers": [other, target, other2, custom_layer],
                                                  "input_layers": [["in", 0, 0]], "output_layers": [["out", 0, 0]]}}
    qc = qconfig(cls, name, sel)
    snap_doc, snap_qc = pycopy.deepcopy(doc), pycopy.deepcopy(qc)
    custom = {"my_obj": "user-object"}
    snap_custom = dict(custom)
    captured = {}
    src_w = [["w0"], [], ["w2", "b2"], []]
    set_calls = []

    def mk_layers(kind):
      out = []
      for i in range(4):
        o = Obj(ExtClass("Layer"), {"get_weights": Builtin("get_weights", lambda ip_, _i=i: list(src_w[_i]))})
        if kind == "q":
          o.attrs["set_weights"] = Builtin("set_weights", lambda ip_, w, _i=i: set_calls.append((_i, list(w))))
        out.append(o)
      return out
    model = Obj(ExtClass("Model"), {"to_json": Builtin("to_json", lambda ip_: L.JsonText(doc)), "layers": mk_layers("src")})
    qmodel = Obj(ExtClass("Model"), {"layers": mk_layers("q")})

    def fake_from_json(ip_, fv, a, k):
      captured["doc"] = ip_.deepcopy(a[0].doc) if isinstance(a[0], L.JsonText) else a[0]
      captured["custom"] = a[1] if len(a) > 1 else k.get("custom_objects")
      return qmodel
    ip.overrides["qkeras.utils::quantized_model_from_json"] = fake_from_json
    f = ip.find(MQ)
    r = run_call(ip, f, [model, qc, 4], {"custom_objects": custom, "transfer_weights": transfer})
    s.claim("no_raise", r[0] == "return")
    if r[0] != "return":
      s.info["raised"] = str(r[1])
      return s
    got = captured.get("doc")
    if got is None:
      s.claim("rebuilt_from_json", False)
      return s
    layers = got["config"]["layers"]
    for e_ in layers:
      # model_quantize pops "registered_name" and re-inserts it only when set: an absent key and None are the same to Keras
      if isinstance(e_, dict):
        e_.setdefault("registered_name", None)
    exp = oracle(target, snap_qc, 4)
    cls_json = target["class_name"]
    selected = exp["class_name"] != cls_json
    s.claim("selected_iff", (layers[1]["class_name"] != cls_json) == selected)
    if layers[1] != exp:
      s.info["raised"] = "entry mismatch: got %r expected %r" % (layers[1], exp)
    s.claim("entry_as_specified", layers[1] == exp)
    s.claim("others_untouched", layers[0] == other and layers[2] == oracle(other2, snap_qc, 4) and
            {k: v for k, v in got["config"].items() if k != "layers"} ==
            {k: v for k, v in snap_doc["config"].items() if k != "layers"} and len(layers) == 4)
    if layers[3] != custom_layer:
      s.info["raised"] = "custom layer entry changed: %r" % (layers[3],)
    s.claim("later_custom_layer_untouched", layers[3] == custom_layer)
    s.claim("no_mutation", doc == snap_doc and qc == snap_qc and custom == snap_custom and
            captured.get("custom") is not custom)
    if transfer:
      s.claim("weights_transferred", sorted(set_calls) == [(0, ["w0"]), (2, ["w2", "b2"])])
    else:
      s.claim("weights_not_touched", set_calls == [])
    return s
  return scenario


def cases(tier):
  out = []
  classes = WEIGHT + ["DepthwiseConv2D", "SimpleRNN", "LSTM", "GRU", "Bidirectional", "Activation", "BatchNormalization",
                      "AveragePooling2D", "GlobalAveragePooling2D", "Flatten", "ReLU", "ReLU_leaky", "LeakyReLU"]
  for cls in classes:
    for sel in ("none", "name", "class", "both", "partial_class", "partial_name_plus_class"):
      for ub in (True, False):
        if cls in ("Activation", "BatchNormalization", "AveragePooling2D", "GlobalAveragePooling2D", "Flatten", "ReLU", "ReLU_leaky", "LeakyReLU") and not ub:
          continue
        # "elu": contains the letters of "relu" without being it (seed c12-7: a substring test in quantize_activation);
        # tanh / sigmoid: the other two names quantize_activation rewrites
        for act in ("relu", "linear", "softmax", "elu", "tanh", "sigmoid"):
          if cls in ("BatchNormalization", "AveragePooling2D", "GlobalAveragePooling2D", "Flatten", "ReLU", "ReLU_leaky", "LeakyReLU") and act != "relu":
            continue
          out.append(Case(PROP, MQ, "%s_%s_bias%d_%s" % (cls, sel, ub, act), mq_scenario(cls, sel, ub, act, False),
                          replay_kind=None, assumptions=ASSUME, term_mode=True))
    out.append(Case(PROP, MQ, "%s_transfer" % cls, mq_scenario(cls, "class", True, "relu", True), replay_kind=None,
                    assumptions=ASSUME, term_mode=True))
  return out
