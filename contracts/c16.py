"""C16 - qtools multiplier output types represent every product of their operand types.

Functions under contract (real source, re-read every run):
  multiplier_factory.MultiplierFactory.__init__ / make_multiplier
  multiplier_impl.{IMultiplier,FixedPointMultiplier,Shifter,Mux,AndGate,XorGate,Adder,
                   FloatingPointMultiplier}.__init__ / implemented_as
  quantizer_impl.get_exp, *.convert_qkeras_quantizer, *.__init__
  (and the qkeras quantizer constructors the operand types are converted from)

Clauses per table cell (weight kind x input kind [x max_value kind]):
  fits_prod  (claim)  every product of two operand values is a member of the output type's
                      value set, except the product of two most negative two's-complement codes
  impl_kind  (claim)  implemented_as() is the kind the operand kinds call for
  frame      (claim)  the caller's operand objects and the factory's table are not modified
  no_raise   (claim)  the factory does not raise on supported operand kinds
"""
import z3

from pyvc.contract import Case, Scen, run_call
from pyvc.values import *  # noqa
from pyvc import interp as I
from . import spec as S
from . import qtypes as Q

PROP = "C16"
MF = "qkeras/qtools/quantized_operators/multiplier_factory.py::MultiplierFactory.make_multiplier"

# the implementation kind "the operand kinds call for" (property statement + class docs)
def expected_kind(wmode, xmode):
  """wmode/xmode: the kind a qtools type declares (0 fixed point, 1 power of two, 2 ternary,
  3 binary +-1, 4 binary 0/1, 5 floating point).  quantized_relu(1,1) is a 0/1 type."""
  fam = {0: "fx", 1: "po2", 2: "ter", 3: "bin", 4: "b01", 5: "fp"}
  a, b = fam[wmode], fam[xmode]
  if "fp" in (a, b):
    return "mul"
  if "b01" in (a, b):
    return "and"
  if a == "bin" and b == "bin":
    return "xor"
  if a in ("ter", "bin") or b in ("ter", "bin"):
    return "mux"
  if a == "fx" and b == "fx":
    return "mul"
  if a == "po2" and b == "po2":
    return "add"
  return "shifter"


def make_scenario(wk, xk, wmv, xmv):
  def scenario(ip):
    s = Scen()
    w, wl = Q.make_operand(ip, s, "w", wk, wmv)
    x, xl = Q.make_operand(ip, s, "x", xk, xmv)
    fac_cls = ip.find("qkeras/qtools/quantized_operators/multiplier_factory.py::MultiplierFactory")
    fac = ip.call(fac_cls, [], {})
    table_objs = [cell[1] for row in fac.attrs["multiplier_impl_table"] for cell in row]
    snaps = [(o, Q.snapshot(o)) for o in [w, x] + table_objs]
    mark = len(ip.writes)
    r = run_call(ip, ip.getattr(fac, "make_multiplier"), [w, x])
    s.claim("no_raise", r[0] == "return")
    if r[0] != "return":
      s.info["raised"] = str(r[1])
      return s
    mult = r[1]
    out = ip.getattr(mult, "output")
    # frame: nothing reachable by the caller was written
    touched = [o for (o, a) in ip.writes[mark:] if any(o is t for t, _ in snaps)]
    s.claim("frame", len(touched) == 0 and all(Q.unchanged(o, sn) for o, sn in snaps))
    kind = ip.call(ip.getattr(mult, "implemented_as"), [], {})
    s.claim("impl_kind", kind == expected_kind(ip.getattr(w, "mode"), ip.getattr(x, "mode")))
    # fits_prod
    ol = Q.type_lattice(ip, out, s)
    if wl.kind == "float" or xl.kind == "float":
      s.claim("fits_prod", ol.kind == "float")
      return s
    a = S.element(wl, "a")
    b = S.element(xl, "b")
    for c in a.cs + b.cs:
      ip.assume(c)
    s.vars.update(a.names)
    s.vars.update(b.names)
    if a.is_min_code is not None and b.is_min_code is not None:
      # "except for the product of two most-negative two's-complement codes"
      both_min = z3.And(a.is_min_code, b.is_min_code, wl.lo < 0, xl.lo < 0)
      ip.assume(z3.Not(both_min))
    goal, hints = S.fits(a.mant * b.mant, a.ex + b.ex, ol)
    s.hints.extend(hints)
    for l in (wl, xl):
      if l.kind == "fixed":
        s.hints.extend([l.n, l.f, -l.f])
    if wl.kind == "fixed" and xl.kind == "fixed":
      s.hints.append(wl.n + xl.n)
    if ol.kind == "fixed":
      sh_o = a.ex + b.ex + ol.f
      for l in (wl, xl):
        if l.kind == "fixed":
          s.hints.extend([ol.n - l.n, ol.f - l.f, l.n + sh_o])
    cl = s.info.get("mvexps", [])
    if len(cl) == 2:
      s.hints.extend([cl[0] + cl[1], cl[0] + cl[1] - 1])
    s.splits = [a.mant >= 0, b.mant >= 0]
    s.claim("fits_prod", goal)
    return s
  return scenario


def bounds(vars_):
  cs = []
  for k, v in vars_.items():
    if k.endswith("_bits"):
      cs.append(v <= 6)
    elif k.endswith("_int"):
      cs.append(v <= 6)
    elif k.endswith("_mvexp"):
      cs.append(z3.And(v >= -6, v <= 6))
  return cs


def cases(tier):
  out = []
  def mvs(k):
    # "v3" / "v6": a max_value that is NOT a power of two and whose log2 rounds UP (the quantizer clips to it and then
    # rounds log2, so it still emits 4 / 8): get_exp must take the ceiling (seed c16-6)
    return ["none", "le1", "gt1", "v3", "v6"] if k in ("po2", "relu_po2") else [None]
  for wk in Q.KINDS:
    for xk in Q.KINDS:
      for wmv in mvs(wk):
        for xmv in mvs(xk):
          if ((wmv or "").startswith("v") and xmv not in (None, "none")) or \
             ((xmv or "").startswith("v") and wmv not in (None, "none")):
            continue
          name = "%s%s_x_%s%s" % (wk, "" if wmv is None else "-mv" + wmv, xk, "" if xmv is None else "-mv" + xmv)
          out.append(Case(PROP, MF, name, make_scenario(wk, xk, wmv, xmv), bounds=bounds,
                          replay_kind="c16_mult",
                          assumptions=["A3 CPython semantics as encoded by pyvc.interp",
                                       "copy.deepcopy = structural copy of the object graph"]))
  return out
