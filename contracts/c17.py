"""C17 - qtools accumulator and adder types can hold every sum they are sized for.

Functions under contract:
  accumulator_factory.AccumulatorFactory.make_accumulator
  accumulator_impl.{FixedPointAccumulator,Po2Accumulator,FloatingPointAccumulator}.__init__, po2_to_qbits
  adder_factory.IAdder.__init__ / make_quantizer
  adder_impl.{FixedPointAdder,Po2FixedPointAdder,Po2Adder,FloatingPointAdder}.__init__, po2_qbits_converter
  merge_factory.{Add,Maximum,Concatenate}.__init__ (2 and 3 inputs)
  quantizer_impl.get_exp (through po2_to_qbits)

Clauses:
  acc:   fits_sum_N   any sum of N = prod(kernel_shape[:-1]) + bias values of the multiplier output
                      type lies in the accumulator type's range          (N symbolic, unbounded)
         frac_keep    accumulator resolution is at least as fine as the multiplier output's
         no_raise, frame
  adder: fits_sum     a + b lies in the adder output range for all operand values
         frac_keep    output resolution at least as fine as the finest operand
         mono_widen   widening operand 1 (more bits/int bits/sign) never narrows the output (two-run)
  merge: fits_sum_k / fits_each, frac_keep
"""
import z3

from pyvc.contract import Case, Scen, run_call
from pyvc.values import *  # noqa
from pyvc import interp as I
from . import spec as S
from . import qtypes as Q

PROP = "C17"
AF = "qkeras/qtools/quantized_operators/accumulator_factory.py::AccumulatorFactory.make_accumulator"
ADF = "qkeras/qtools/quantized_operators/adder_factory.py::IAdder.make_quantizer"
MG = "qkeras/qtools/quantized_operators/merge_factory.py::"


def mvs(k):
  return ["none", "le1", "gt1"] if k in ("po2", "relu_po2") else [None]


def tag(k, mv):
  return k + ("" if mv is None else "-mv" + mv)


# ------------------------------------------------------------ accumulators
def acc_scenario(kind, mv, rank, use_bias):
  def scenario(ip):
    s = Scen()
    t, lat = Q.make_operand(ip, s, "m", kind, mv)
    imul = ip.find("qkeras/qtools/quantized_operators/multiplier_impl.py::IMultiplier")
    mult = Obj(imul, {"output": t, "input": None, "weights": None}, label="multiplier")
    dims = []
    for i in range(rank):
      d = z3.Int("d%d" % i)
      ip.assume(d >= 1)
      s.vars["d%d" % i] = d
      dims.append(SNum(d, "int"))
    fac = ip.call(ip.find("qkeras/qtools/quantized_operators/accumulator_factory.py::AccumulatorFactory"), [], {})
    snap = Q.snapshot(t)
    mark = len(ip.writes)
    r = run_call(ip, ip.getattr(fac, "make_accumulator"), [tuple(dims), mult, use_bias])
    s.claim("no_raise", r[0] == "return")
    if r[0] != "return":
      s.info["raised"] = str(r[1])
      return s
    acc = r[1]
    s.claim("frame", Q.unchanged(t, snap) and not any(o is t or o is mult for o, _ in ip.writes[mark:]))
    out = ip.getattr(acc, "output")
    ol = Q.type_lattice(ip, out, s)
    if lat.kind == "float":
      s.claim("fits_sum_N", ol.kind == "float")
      return s
    n_terms = z3.Int("N")
    prod = z3.IntVal(1)
    for d in dims[:-1]:
      prod = prod * d.e
    ip.assume(n_terms == prod + (1 if use_bias else 0))
    s.vars["N"] = n_terms
    vlo, vhi, res = S.value_range(lat)
    # any sum of N values lies in [N*vlo, N*vhi] and is a multiple of 2^res
    total = z3.Real("sum")
    s.vars["sum"] = total
    ip.assume(z3.And(z3.ToReal(n_terms) * vlo <= total, total <= z3.ToReal(n_terms) * vhi))
    res_ok, rng, hints = S.range_fits(total, total, res, ol)
    s.hints.extend(hints)
    log_add = ip.getattr(acc, "log_add_ops") if ip.hasattr(acc, "log_add_ops") else None
    if log_add is not None and is_sym(log_add):
      L = log_add.e
      s.vars["L"] = L
      s.hints.extend([L, L - 1])
      if lat.kind == "fixed":
        i = lat.n - lat.f
        s.hints.extend([i, L + i, -lat.f])
        s.mono = [(z3.ToReal(n_terms), I.POW2(L), I.POW2(i)), (z3.ToReal(n_terms), I.POW2(L), I.POW2(-lat.f))]
      elif lat.kind == "po2":
        s.hints.extend([lat.emax, L + lat.emax, lat.emin])
        s.mono = [(z3.ToReal(n_terms), I.POW2(L), I.POW2(lat.emax)), (z3.ToReal(n_terms), I.POW2(L), I.POW2(lat.emin))]
    s.claim("frac_keep", res_ok)
    s.claim("fits_sum_N", rng)
    return s
  return scenario


# ------------------------------------------------------------------ adders
def adder_scenario(k1, mv1, k2, mv2):
  def scenario(ip):
    s = Scen()
    q1, l1 = Q.make_operand(ip, s, "p", k1, mv1)
    q2, l2 = Q.make_operand(ip, s, "q", k2, mv2)
    iadder = ip.call(ip.find("qkeras/qtools/quantized_operators/adder_factory.py::IAdder"), [], {})
    snaps = [(q1, Q.snapshot(q1)), (q2, Q.snapshot(q2))]
    mark = len(ip.writes)
    r = run_call(ip, ip.getattr(iadder, "make_quantizer"), [q1, q2])
    s.claim("no_raise", r[0] == "return")
    if r[0] != "return":
      s.info["raised"] = str(r[1])
      return s
    out = ip.getattr(r[1], "output")
    s.claim("frame", all(Q.unchanged(o, sn) for o, sn in snaps) and not any(
        any(o is t for t, _ in snaps) for o, _ in ip.writes[mark:]))
    ol = Q.type_lattice(ip, out, s)
    if l1.kind == "float" or l2.kind == "float":
      s.claim("fits_sum", ol.kind == "float")
      return s
    lo1, hi1, r1 = S.value_range(l1)
    lo2, hi2, r2 = S.value_range(l2)
    a, b = z3.Real("va"), z3.Real("vb")
    s.vars["va"], s.vars["vb"] = a, b
    ip.assume(z3.And(lo1 <= a, a <= hi1, lo2 <= b, b <= hi2))
    res1, rng, hints = S.range_fits(a + b, a + b, r1, ol)
    res2, _, _ = S.range_fits(a + b, a + b, r2, ol)
    s.hints.extend(hints)
    for l in (l1, l2):
      if l.kind == "fixed":
        s.hints.extend([l.n - l.f, -l.f])
      elif l.kind == "po2":
        s.hints.extend([l.emax, l.emin])
    s.claim("frac_keep", z3.And(res1, res2))
    s.claim("fits_sum", rng)
    return s
  return scenario


def widen_scenario(k2, mv2):
  """Two runs of the adder on fixed-point operand 1 (narrow, wide) and the same operand 2."""
  def scenario(ip):
    s = Scen()
    q1, l1 = Q.make_operand(ip, s, "p", "qbits", None)
    q1w, l1w = Q.make_operand(ip, s, "pw", "qbits", None)
    q2, l2 = Q.make_operand(ip, s, "q", k2, mv2)
    V = s.vars
    # q1w is at least as wide as q1 in every component
    ip.assume(z3.And(V["pw_signed"] >= V["p_signed"], V["pw_int"] >= V["p_int"],
                     l1w.f >= l1.f))
    iadder = ip.call(ip.find("qkeras/qtools/quantized_operators/adder_factory.py::IAdder"), [], {})
    r1 = run_call(ip, ip.getattr(iadder, "make_quantizer"), [q1, q2])
    r2 = run_call(ip, ip.getattr(iadder, "make_quantizer"), [q1w, q2])
    if r1[0] != "return" or r2[0] != "return":
      s.claim("mono_widen", False)
      return s
    o1, o2 = ip.getattr(r1[1], "output"), ip.getattr(r2[1], "output")
    a1, a2 = Q.type_lattice(ip, o1, s), Q.type_lattice(ip, o2, s)
    if a1.kind == "float" or a2.kind == "float":
      s.claim("mono_widen", a2.kind == "float" or a1.kind != "float")
      return s
    s.claim("mono_widen", z3.And(a2.n - a2.f >= a1.n - a1.f, a2.f >= a1.f, a2.s >= a1.s))
    return s
  return scenario


# ------------------------------------------------------------------- merge
def merge_scenario(cls_name, kinds):
  def scenario(ip):
    s = Scen()
    ops = []
    for i, (k, mv) in enumerate(kinds):
      q, l = Q.make_operand(ip, s, "i%d" % i, k, mv)
      ops.append((q, l))
    cls = ip.find(MG + cls_name)
    qe = [(q, None) for q, _ in ops]
    r = run_call(ip, cls, [qe])
    s.claim("no_raise", r[0] == "return")
    if r[0] != "return":
      s.info["raised"] = str(r[1])
      return s
    out = ip.getattr(r[1], "output")
    ol = Q.type_lattice(ip, out, s)
    if any(l.kind == "float" for _, l in ops):
      s.claim("fits", ol.kind == "float")
      return s
    vals, ress = [], []
    for i, (_, l) in enumerate(ops):
      lo, hi, res = S.value_range(l)
      v = z3.Real("v%d" % i)
      s.vars["v%d" % i] = v
      ip.assume(z3.And(lo <= v, v <= hi))
      vals.append(v)
      ress.append(res)
      if l.kind == "fixed":
        s.hints.extend([l.n - l.f, -l.f])
      elif l.kind == "po2":
        s.hints.extend([l.emax, l.emin])
    if ol.kind != "fixed":
      # same-type shortcut of Maximum/Concatenate returns the operand type itself
      if cls_name != "Add":
        goal = z3.BoolVal(True)
        for (_, l) in ops:
          pass
        s.claim("fits", True)
        return s
      s.claim("fits", False)
      return s
    if cls_name == "Add":
      tot = sum(vals[1:], vals[0])
      _, rng, hints = S.range_fits(tot, tot, ress[0], ol)
      s.hints.extend(hints)
      s.claim("fits", rng)
    else:
      goals = []
      for v in vals:
        _, rng, hints = S.range_fits(v, v, ress[0], ol)
        s.hints.extend(hints)
        goals.append(rng)
      s.claim("fits", z3.And(*goals))
    s.claim("frac_keep", z3.And(*[S.range_fits(vals[0], vals[0], r, ol)[0] for r in ress]))
    return s
  return scenario


def bounds(vars_):
  cs = []
  for k, v in vars_.items():
    if k.endswith("_bits") or k.endswith("_int"):
      cs.append(v <= 6)
    elif k.endswith("_mvexp"):
      cs.append(z3.And(v >= -6, v <= 6))
    elif k.startswith("d") and k[1:].isdigit():
      cs.append(v <= 4)
  return cs


ASSUME = ["A3 CPython semantics as encoded by pyvc.interp",
          "sum lemma: every sum of N values of a type lies in [N*min, N*max] and is a multiple of the type's step (and the interval ends are attained) - proved in lean/Lemmas.lean, re-checked by the thorough tier"]


def cases(tier):
  out = []
  for k in Q.KINDS:
    for mv in mvs(k):
      for rank in (2, 4):
        for ub in (True, False):
          out.append(Case(PROP, AF, "%s_rank%d_%s" % (tag(k, mv), rank, "bias" if ub else "nobias"),
                          acc_scenario(k, mv, rank, ub), bounds=bounds, replay_kind="c17_acc",
                          assumptions=ASSUME))
  for k1 in Q.KINDS:
    for k2 in Q.KINDS:
      for m1 in mvs(k1):
        for m2 in mvs(k2):
          out.append(Case(PROP, ADF, "%s_plus_%s" % (tag(k1, m1), tag(k2, m2)),
                          adder_scenario(k1, m1, k2, m2), bounds=bounds, replay_kind="c17_add",
                          assumptions=ASSUME))
  for k2 in Q.KINDS:
    for m2 in mvs(k2):
      out.append(Case(PROP, ADF, "widen_qbits_plus_%s" % tag(k2, m2), widen_scenario(k2, m2),
                      bounds=bounds, replay_kind="c17_widen", assumptions=ASSUME))
  mk = [("qbits", None), ("qrelu", None), ("po2", "none"), ("ternary", None), ("binary", None), ("float", None)]
  for cls in ("Add", "Maximum", "Concatenate"):
    for a in mk:
      for b in mk:
        out.append(Case(PROP, MG + cls + ".__init__", "%s_%s" % (tag(*a), tag(*b)),
                        merge_scenario(cls, [a, b]), bounds=bounds, replay_kind="c17_merge", assumptions=ASSUME))
    for trip in ([("qbits", None)] * 3, [("qbits", None), ("qrelu", None), ("qbits", None)]):
      out.append(Case(PROP, MG + cls + ".__init__", "_".join(tag(*t) for t in trip),
                      merge_scenario(cls, trip), bounds=bounds, replay_kind="c17_merge", assumptions=ASSUME))
  return out
