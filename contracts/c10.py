"""C10 - quantizer strings parse as the equivalent Python call and str(q) re-parses to q.

(b) printing  (every registered class x option variant; numeric options symbolic):
    __str__ is executed symbolically; its result is a list of text pieces (concrete text and str(v) of
    symbolic values).  The contract tokenises it the way GetParams does (assumed pyparsing contract: items
    split at top-level commas, key=value at the first '='), binds positional items to constructor
    parameters in order and keyword items by name, and converts concrete literal text with the REAL GetArg.
      no_raise            __str__ does not raise
      parses              the text has the shape  name(item, ..., key=item, ...)  with positional before keyword
      slot_<param>        a printed value is bound to the parameter that holds it in q
      omitted_<param>     a parameter that is not printed has its default value (else the re-parsed quantizer differs)
(a) parsing
      GetParams structure  args / kwargs / SyntaxError iff a positional follows a keyword, for every
                           positional/keyword pattern of up to 5 items with opaque tokens (tokenisation assumed)
      safe_eval dispatch   op_dict lookup, call with exactly (args, kwargs), zero-argument forms
      no_exec              safe_eval.py contains no eval/exec/compile/__import__ and calls only the looked-up
                           object and keras.activations.get
      literals (bounded)   GetArg on every literal of a generated grammar equals Python's value (exhaustive
                           enumeration, bound stated in the evidence; labelled bounded, not proved)
Assumed: str(int/float/bool) contains none of ",()=[]' " and GetArg(str(v)) == v for those (bounded check).
"""
import ast
import itertools

import z3

from pyvc.contract import Case, Scen, run_call
from pyvc.values import *  # noqa
from pyvc import interp as I
from . import quant as Q
from . import c09

PROP = "C10"
ASSUME = ["pyparsing tokenisation of GetParams: items split at commas, key/value at '=' (K)",
          "str(number) contains no separator characters and GetArg(str(v)) == v for int/float/bool/None (bounded check)",
          "equal constructor arguments imply the same quantization function"]
IRRELEVANT = {"var_name", "use_variables", "use_ste"}   # do not change forward outputs (C07/C09)


class Bad(Exception):
  pass


def flatten(sv):
  """SStr/str -> list of atoms: single characters (str) or ('sym', value)."""
  if isinstance(sv, str):
    return list(sv)
  out = []
  for p in sv.pieces:
    if isinstance(p, str):
      out.extend(list(p))
    elif isinstance(p, tuple) and p[0] == "str":
      out.append(("sym", p[1]))
    elif isinstance(p, tuple) and p[0] == "re.sub":
      out.extend(flatten(p[3]))
    else:
      raise Bad("opaque piece %r" % (p,))
  return out


def tokenise(atoms, name):
  """-> list of items; item = (key or None, value atoms)."""
  text = "".join(a for a in atoms[:len(name) + 1] if isinstance(a, str))
  if text != name + "(" or atoms[-1] != ")":
    raise Bad("text is not %s(...)" % name)
  body = atoms[len(name) + 1:-1]
  items, cur = [], []
  for a in body:
    if a == ",":
      items.append(cur)
      cur = []
    else:
      cur.append(a)
  if cur or items:
    items.append(cur)
  out = []
  for it in items:
    if not it:
      raise Bad("empty item")
    if "=" in it:
      i = it.index("=")
      key = it[:i]
      if not all(isinstance(c, str) for c in key) or not key:
        raise Bad("symbolic keyword")
      out.append(("".join(key), it[i + 1:]))
    else:
      out.append((None, it))
  return out


def item_value(ip, atoms):
  """value denoted by the item text, using the real GetArg for concrete text."""
  if len(atoms) == 1 and isinstance(atoms[0], tuple):
    return atoms[0][1]
  if all(isinstance(a, str) for a in atoms):
    text = "".join(atoms)
    if any(c in text for c in ")("):
      raise Bad("parenthesis inside item %r" % text)
    ga = ip.find("qkeras/safe_eval.py::GetArg")
    r = run_call(ip, ga, [text])
    if r[0] != "return":
      raise Bad("GetArg(%r) raised %s" % (text, r[1]))
    return r[1]
  raise Bad("item mixes literal text and symbolic value")


def str_scenario(clsname, label, changes):
  def scenario(ip):
    s = Scen()
    cls, params = c09.class_params(ip, clsname)
    kw = {}
    for name, default in params:
      if name in changes:
        kw[name] = c09.alt_value(ip, s, changes[name])
      elif name in ("bits", "integer", "relu_shift", "relu_upper_bound") and isinstance(default, int):
        kw[name] = c09.sym_for(ip, s, name, default)
      else:
        kw[name] = default
    r = run_call(ip, cls, [], kw)
    if r[0] != "return":
      s.claim("constructible", True)
      return s
    q = r[1]
    s.replay = {"class": clsname, "kwargs": dict(kw)}
    rs = run_call(ip, ip.getattr(q, "__str__"), [])
    s.claim("no_raise", rs[0] == "return")
    if rs[0] != "return":
      s.info["raised"] = "__str__: %s" % (rs[1],)
      return s
    try:
      atoms = flatten(rs[1])
      items = tokenise(atoms, clsname)
      seen_kw = False
      bound = {}
      pos = 0
      for key, val in items:
        if key is None:
          if seen_kw:
            raise Bad("positional item after keyword item")
          if pos >= len(params):
            raise Bad("too many positional items")
          bound[params[pos][0]] = item_value(ip, val)
          pos += 1
        else:
          seen_kw = True
          if key not in dict(params):
            raise Bad("keyword %r is not a constructor parameter" % key)
          if key in bound:
            raise Bad("parameter %r bound twice" % key)
          bound[key] = item_value(ip, val)
      s.claim("parses", True)
    except Bad as e:
      s.info["raised"] = "printed text does not re-parse: %s" % e
      s.claim("parses", False)
      return s
    for name, default in params:
      if name in IRRELEVANT:
        continue
      orig = kw[name]
      # what the constructor made of the argument (e.g. "auto" forces symmetric=True)
      for an in (name, "_" + name):
        if an in q.attrs and not isinstance(q.attrs[an], Obj):
          orig = q.attrs[an]
          break
      if name in bound:
        s.claim("slot_" + name, c09.same(ip, bound[name], orig) if not _loose_equal(bound[name], orig) else True)
      else:
        s.claim("omitted_" + name, c09.same(ip, kw[name], default) if not _loose_equal(kw[name], default) else True)
    return s
  return scenario


def _loose_equal(a, b):
  """Python-level equality that the constructor cannot distinguish (1 == True == 1.0, 0 == False)."""
  if is_sym(a) or is_sym(b) or a is None or b is None or isinstance(a, str) or isinstance(b, str):
    return False
  try:
    return a == b
  except Exception:  # pylint: disable=broad-except
    return False


# ----------------------------------------------------------------- parsing
def getparams_scenario(pattern):
  """pattern: tuple of 'p' (positional) / 'k' (keyword) items.  Tokens are opaque; GetArg is replaced by
  its contract denote(token) (an opaque injective function), pyparsing by its contract (term mode: the
  grammar construction is uninterpreted, parseString(s).asList() returns the token groups)."""
  def scenario(ip):
    s = Scen()
    items = []
    for i, kind in enumerate(pattern):
      items.append(["tok%d" % i] if kind == "p" else ["key%d" % i, "tok%d" % i])
    mod = ip.get_module("qkeras.safe_eval")
    ip.term_hooks = {"asList": lambda ip_, recv, a, k: [list(x) for x in items]}
    ip.setattr(mod, "GetArg", Builtin("GetArg", lambda ip_, tok: ("value-of", tok)))
    r = run_call(ip, mod.env.vars["GetParams"], ["(...)"])
    bad_order = any(pattern[i] == "p" and pattern[i - 1] == "k" for i in range(1, len(pattern)))
    if bad_order:
      s.claim("order_rejected", r[0] == "raise" and r[1].name == "SyntaxError")
    else:
      exp_args = [("value-of", "tok%d" % i) for i, k in enumerate(pattern) if k == "p"]
      exp_kw = {"key%d" % i: ("value-of", "tok%d" % i) for i, k in enumerate(pattern) if k == "k"}
      ok = r[0] == "return" and list(r[1][0]) == exp_args and dict(r[1][1]) == exp_kw
      if not ok:
        s.info["raised"] = str(r[1])
      s.claim("args_kwargs", ok)
    return s
  return scenario


def safe_eval_scenario():
  def scenario(ip):
    s = Scen()
    mod = ip.get_module("qkeras.safe_eval")
    calls = []

    def rec(ip_, *a, **k):
      calls.append((a, k))
      return ("built", a, tuple(sorted(k.items())))
    target = Builtin("target", rec)
    ip.setattr(mod, "GetParams", Builtin("GetParams", lambda ip_, text: (["A1", "A2"], {"k": "V"}) if text == "(X)" else ([], {})))
    se = mod.env.vars["safe_eval"]
    r = run_call(ip, se, ["qq(X)", {"qq": target}])
    s.claim("dispatch", r[0] == "return" and r[1] == ("built", ("A1", "A2"), (("k", "V"),)) and len(calls) == 1)
    # extra positional / keyword parameters are appended / merged
    r2 = run_call(ip, se, ["qq(X)", {"qq": target}, "P"], {"z": 1})
    s.claim("extra_params", r2[0] == "return" and r2[1] == ("built", ("A1", "A2", "P"), (("k", "V"), ("z", 1))))
    # zero-argument forms: a function is returned as is
    f0 = Builtin("f0", lambda ip_: "called")
    r3 = run_call(ip, se, ["f0", {"f0": f0}])
    s.claim("bare_function", r3[0] == "return" and r3[1] is f0)
    # syntactic frame: nothing in the module can execute arbitrary code
    banned = {"eval", "exec", "compile", "__import__", "getattr", "setattr", "globals", "locals", "open"}
    used = set()
    for n in ast.walk(mod.tree):
      if isinstance(n, ast.Call):
        f = n.func
        if isinstance(f, ast.Name):
          used.add(f.id)
        elif isinstance(f, ast.Attribute):
          used.add(f.attr)
    s.claim("no_exec", not (used & banned))
    return s
  return scenario


def literal_grammar():
  """(text, expected python value) for every literal of the bounded grammar: what str() of a quantizer option can print."""
  out = []
  for k in list(range(-33, 34)) + [64, 127, 128, 255, 256, 1024, 2048, 65536, -128, -256]:
    out.append((str(k), k))
  fl = [k / 8.0 for k in range(-40, 41)] + [1e-07, 1e-3, 0.33, 0.125, 2.5e+20, 1e+16, 6.0, 3.4028235e+38, 1.5e-10, -1e-07]
  for f in fl:
    out.append((str(f), f))
  out += [("True", True), ("False", False), ("None", None)]
  for t in ("auto", "auto_po2", "floor", "rnd", "channels_last", "x"):
    out.append(("'%s'" % t, t))
    out.append(('"%s"' % t, t))
  for a in (-1, 0, 1, 2, 3):
    for b in (0, 1, 2, 16):
      out.append(("[%d %d]" % (a, b), [a, b]))
      out.append(("[%d %d %d]" % (a, b, a), [a, b, a]))
  out.append(("[0.5 1.5]", [0.5, 1.5]))
  return out


# ----------------------------------------------------------------- the GetParams grammar itself
GRAMMAR_SHAPE = ("call(attr(add(add(pyparsing.Suppress('('), pyparsing.Optional(pyparsing.delimitedList(pyparsing.Group("
                 "add(pyparsing.Regex(<R>), pyparsing.Optional(add(pyparsing.Suppress('='), pyparsing.Regex(<R>)))))))), "
                 "pyparsing.Suppress(')')), 'parseString'), '(...)')")
_MAXCH = 0x2FFFF          # z3's character sort


def _space_ranges():
  import re as _re
  sp = _re.compile(r"\s")
  out, start, prev = [], None, None
  for c in range(_MAXCH + 1):
    if sp.fullmatch(chr(c)):
      if start is None:
        start = c
      prev = c
    elif start is not None:
      out.append((start, prev))
      start = None
  if start is not None:
    out.append((start, prev))
  return out


def _z3_class(ranges):
  rs = [z3.Range(z3.StringVal(chr(a)), z3.StringVal(chr(b))) for a, b in ranges]
  return rs[0] if len(rs) == 1 else z3.Union(*rs)


def _z3_not(cls):
  return z3.Intersect(z3.AllChar(z3.ReSort(z3.StringSort())), z3.Complement(cls))


def regex_to_z3(pattern):
  """Python regular expression (the subset used by safe_eval: literals, '.', character classes with negation, ranges and
  \s, greedy * + ? {m,n}) -> z3 regular expression.  fullmatch semantics, so greedy/lazy does not matter.  Anything else
  raises Unsupported (the obligation is then undecided, never a violation)."""
  try:
    import re._parser as sp           # python >= 3.11
  except ImportError:                 # pragma: no cover
    import sre_parse as sp
  C = sp

  def cls_item(op, av):
    if op is C.LITERAL:
      return [(av, av)]
    if op is C.RANGE:
      return [(av[0], av[1])]
    if op is C.CATEGORY and av is C.CATEGORY_SPACE:
      return _space_ranges()
    raise Unsupported("regex class item %r" % ((op, av),))

  def item(op, av):
    if op is C.LITERAL:
      return z3.Re(z3.StringVal(chr(av)))
    if op is C.ANY:
      return _z3_not(z3.Re(z3.StringVal("\n")))
    if op is C.IN:
      neg = bool(av) and av[0][0] is C.NEGATE
      rs = []
      for o, a in (av[1:] if neg else av):
        rs.extend(cls_item(o, a))
      c = _z3_class(rs)
      return _z3_not(c) if neg else c
    if op in (C.MAX_REPEAT, C.MIN_REPEAT):
      lo, hi, sub = av
      body = seq(sub)
      if hi is C.MAXREPEAT:
        return z3.Star(body) if lo == 0 else z3.Plus(body) if lo == 1 else z3.Concat(z3.Loop(body, lo, lo), z3.Star(body))
      return z3.Loop(body, lo, hi)
    raise Unsupported("regex construct %r" % (op,))

  def seq(items):
    parts = [item(o, a) for o, a in items]
    if not parts:
      return z3.Re(z3.StringVal(""))
    return parts[0] if len(parts) == 1 else z3.Concat(*parts)

  return seq(list(sp.parse(pattern)))


def language_difference(prog, spec):
  """None if the two z3 regular expressions denote the same language, else a string in exactly one of them."""
  x = z3.String("text")
  sol = z3.Solver()
  sol.set("timeout", 60000)
  sol.add(z3.InRe(x, prog) != z3.InRe(x, spec))
  r = sol.check()
  if r == z3.unsat:
    return None
  if r == z3.sat:
    return sol.model().eval(x, model_completion=True).as_string()
  raise Unsupported("regular-language equivalence undecided: %s" % sol.reason_unknown())


def grammar_scenario():
  """The pyparsing grammar GetParams builds (term mode: the construction is recorded, not executed).  Reduces the assumed
  tokenisation contract to pyparsing's own operators: the two Regex literals of the real source are translated to z3
  regular expressions and their LANGUAGES are proved equal to the documented item syntax
      key / positional item :  one or more characters other than  = , ) and white space
      keyword value         :  everything up to the next  ,  or  )   (so a space-separated number list is ONE value)
  The shape of the grammar around them is compared with the recorded shape; a different shape is reported as undecided."""
  def scenario(ip):
    import re as _re
    s = Scen()
    mod = ip.get_module("qkeras.safe_eval")
    seen = {}

    def hook(ip_, recv, a, k):
      seen["g"] = recv
      return []
    ip.term_hooks = {"asList": hook}
    r = run_call(ip, mod.env.vars["GetParams"], ["(...)"])
    s.claim("no_raise", r[0] == "return" and "g" in seen)
    if "g" not in seen:
      return s
    text = repr(seen["g"])
    lit = _re.compile(r"pyparsing\.Regex\(('(?:[^'\\]|\\.)*'|\"(?:[^\"\\]|\\.)*\")\)")
    pats = [ast.literal_eval(m) for m in lit.findall(text)]
    if lit.sub("pyparsing.Regex(<R>)", text) != GRAMMAR_SHAPE or len(pats) != 2:
      raise Unsupported("GetParams builds a grammar of a different shape: %s" % text[:400])
    bad = [z3.Re(z3.StringVal(ch)) for ch in "=,)"]
    not_key = z3.Union(*(bad + [_z3_class(_space_ranges())]))
    spec_key = z3.Plus(_z3_not(not_key))
    spec_val = z3.Star(_z3_not(z3.Union(z3.Re(z3.StringVal(",")), z3.Re(z3.StringVal(")")))))
    wit = {}
    for name, pat, spec in (("key_language", pats[0], spec_key), ("value_language", pats[1], spec_val)):
      d = language_difference(regex_to_z3(pat), spec)
      if d is not None:
        wit[name] = {"pattern": pat, "text": d}
      s.claim(name, d is None)
    s.replay = {"differences": wit}
    if wit:
      s.info["raised"] = "; ".join("%s: %r is in exactly one of L(%r) and the documented language" % (k, v["text"], v["pattern"])
                                   for k, v in wit.items())
    return s
  return scenario


# ----------------------------------------------------------------- consumers of str(q)
STUBQ = """
class StubQ:
  def __init__(self, name):
    self.name = name
  def __str__(self):
    return 'STR<' + self.name + '>'
  def __call__(self, x):
    return x
"""
QCONF_CLASSES = [("qkeras.qlayers", "QDense"), ("qkeras.qlayers", "QActivation"),
                 ("qkeras.qconvolutional", "QConv1D"), ("qkeras.qconvolutional", "QConv2D"),
                 ("qkeras.qconvolutional", "QDepthwiseConv2D"), ("qkeras.qmac", "QScaleShift"),
                 ("qkeras.qpooling", "QAveragePooling2D"), ("qkeras.qpooling", "QGlobalAveragePooling2D"),
                 ("qkeras.qrecurrent", "QSimpleRNN"), ("qkeras.qrecurrent", "QLSTM"), ("qkeras.qrecurrent", "QGRU"),
                 ("qkeras.qconv2d_batchnorm", "QConv2DBatchnorm"),
                 ("qkeras.qdepthwiseconv2d_batchnorm", "QDepthwiseConv2DBatchnorm")]


def qconf_scenario(modname, clsname):
  """<layer>.get_quantization_config (what get_quantization_dictionary / print_qmodel_summary show, and what AutoQKeras
  writes out): every entry that is the text of a quantizer is str() of the quantizer the layer holds under THAT name.
  Quantizers are instances of an interpreter-level stub class whose __str__ is 'STR<constructor parameter>', so a value
  'STR<x>' must sit under the key x; non-quantizer entries named after a constructor parameter are str(parameter)."""
  def scenario(ip):
    from . import c13
    s = Scen()
    SQ = ip.load_source("c10_stubq", STUBQ).env.vars["StubQ"]
    cls = ip.get_module(modname).env.vars[clsname]
    ip.overrides["qkeras.quantizers::get_quantizer"] = c13.gq_contract
    ip.overrides["qkeras.qlayers::get_auto_range_constraint_initializer"] = lambda ip_, fv, a, k: (a[1], a[2])
    init, _ = cls.lookup("__init__")
    params = [a.arg for a in init.node.args.args[1:]] + [a.arg for a in init.node.args.kwonlyargs]
    kw, stubs = {}, set()
    for p_ in params:
      if p_.endswith("_quantizer") or p_ in ("quantizer", "activation", "recurrent_activation"):
        if clsname == "QAdaptiveActivation" and p_ == "activation":
          kw[p_] = "quantized_bits"
          continue
        kw[p_] = ip.call(SQ, [p_], {})
        stubs.add(p_)
      elif p_ in c13.CONCRETE:
        kw[p_] = c13.CONCRETE[p_]
      else:
        kw[p_] = Term("v:" + p_)
    if init.node.args.kwarg is not None:
      kw["name"] = Term("v:name")
    ip.term_hooks = {"get_config": lambda ip_, recv, a, k: dict(recv.kw) if isinstance(recv, Term) else {}}
    r = run_call(ip, cls, [], kw)
    s.claim("constructs", r[0] == "return")
    if r[0] != "return":
      s.info["raised"] = "constructor: %s" % (r[1],)
      return s
    if "Depthwise" in clsname and "filters" not in r[1].attrs:
      # K1': the stock (tf_keras 2.x) DepthwiseConv2D constructor passes filters=None to Conv2D; the Keras 3 of the pinned
      # environment has no such attribute (get_quantization_config raises AttributeError there: environment, not qkeras)
      r[1].attrs["filters"] = None
    rc = run_call(ip, ip.getattr(r[1], "get_quantization_config"), [])
    s.claim("no_raise", rc[0] == "return")
    if rc[0] != "return":
      s.info["raised"] = "get_quantization_config: %s" % (rc[1],)
      return s
    cfg = rc[1]
    if isinstance(cfg, str):                       # QActivation / QAdaptiveActivation return the bare text
      cfg = {"activation": cfg}
    s.claim("is_dict", isinstance(cfg, dict))
    if not isinstance(cfg, dict):
      return s
    wrong, seen = [], set()
    for k_, v_ in cfg.items():
      if isinstance(v_, str) and v_.startswith("STR<"):
        seen.add(v_[4:-1])
        if v_[4:-1] not in (k_, k_[:-len("_internal")] if k_.endswith("_internal") else k_):
          wrong.append("%s: %s" % (k_, v_))
      elif k_ in stubs:
        wrong.append("%s: %r is not the text of the quantizer" % (k_, v_))
    if wrong:
      s.info["raised"] = "; ".join(wrong)
    s.claim("each_quantizer_under_its_own_name", not wrong)
    s.claim("lists_a_quantizer", bool(seen) or clsname == "QAdaptiveActivation")
    return s
  return scenario


def qdict_scenario():
  """autoqkeras.utils.get_quantization_dictionary: one entry per layer that offers get_quantization_config, keyed by the
  layer's name, holding exactly what the layer returned."""
  def scenario(ip):
    s = Scen()
    f = ip.find("qkeras/autoqkeras/utils.py::get_quantization_dictionary")
    c1, c2 = {"kernel_quantizer": "K1"}, "quantized_relu(4)"
    l1 = Obj(ExtClass("QDense"), {"name": "d1", "get_quantization_config": Builtin("gqc", lambda ip_: c1)})
    l2 = Obj(ExtClass("Flatten"), {"name": "fl"})
    l3 = Obj(ExtClass("QActivation"), {"name": "a1", "get_quantization_config": Builtin("gqc", lambda ip_: c2)})
    r = run_call(ip, f, [Obj(ExtClass("Model"), {"layers": [l1, l2, l3]})])
    s.claim("no_raise", r[0] == "return")
    if r[0] != "return":
      s.info["raised"] = str(r[1])
      return s
    d = r[1]
    s.claim("entries", isinstance(d, dict) and list(d.keys()) == ["d1", "a1"] and d["d1"] is c1 and d["a1"] is c2)
    return s
  return scenario


def literals_scenario():
  def scenario(ip):
    s = Scen()
    ga = ip.find("qkeras/safe_eval.py::GetArg")
    bad = []
    lits = literal_grammar()
    for text, exp in lits:
      r = run_call(ip, ga, [text])
      ok = r[0] == "return" and type(r[1]) is type(exp) and r[1] == exp
      if not ok:
        bad.append("%r -> %r (expected %r)" % (text, r[1], exp))
    s.info["literals"] = len(lits)
    if bad:
      s.info["raised"] = "; ".join(bad[:10])
    s.replay = {"literals": len(lits), "first_bad": bad[0] if bad else None}
    s.claim("literal_values", not bad)
    return s
  return scenario


def cases(tier):
  out = []
  from pyvc import contract as C
  ip = C.new_interp()
  for c in c09.CLASSES:
    _, params = c09.class_params(ip, c)
    vs = c09.variants(params)
    # numeric options that __str__ may or may not print
    for name, default in params:
      if isinstance(default, float) and name not in ("negative_slope",):
        vs.append(("%s=changed" % name, {name: ("real", "v_" + name)}))
    for label, changes in vs:
      out.append(Case(PROP, Q.QF + c + ".__str__", label, str_scenario(c, label, changes),
                      replay_kind="c10_str", assumptions=ASSUME))
  for n in range(0, 6):
    for pat in itertools.product("pk", repeat=n):
      out.append(Case(PROP, "qkeras/safe_eval.py::GetParams", "items_" + ("".join(pat) or "none"),
                      getparams_scenario(pat), replay_kind=None, assumptions=ASSUME, term_mode=True))
  out.append(Case(PROP, "qkeras/safe_eval.py::GetParams", "grammar", grammar_scenario(), replay_kind="c10_grammar",
                  assumptions=["pyparsing operators (Suppress, Optional, delimitedList, Group, Regex, +) behave as documented",
                               "Python's re and z3's regular expressions agree on the translated subset (character classes, "
                               "repetition) over code points up to 0x2FFFF"], term_mode=True))
  out.append(Case(PROP, "qkeras/safe_eval.py::safe_eval", "dispatch", safe_eval_scenario(), replay_kind=None,
                  assumptions=ASSUME))
  for m_, c_ in QCONF_CLASSES:
    out.append(Case(PROP, "%s.py::%s.get_quantization_config" % (m_.replace(".", "/"), c_), "own_names", qconf_scenario(m_, c_),
                    replay_kind=None, term_mode=True,
                    assumptions=["quantizers are instances of an interpreter-level stub class (only str() is used)",
                                 "K1: Keras base-class constructors store their keyword arguments (term mode)"]))
  out.append(Case(PROP, "qkeras/autoqkeras/utils.py::get_quantization_dictionary", "three_layers", qdict_scenario(),
                  replay_kind=None, assumptions=[]))
  out.append(Case(PROP, "qkeras/safe_eval.py::GetArg", "literals", literals_scenario(), replay_kind=None, assumptions=ASSUME,
                  bounded="GetArg executed concretely on every literal of a fixed grammar (%d literals: ints, floats as "
                          "printed by str(), True/False/None, quoted names, space-separated number lists); exhaustive over "
                          "that grammar, not over all strings" % len(literal_grammar())))
  return out
