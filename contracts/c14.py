"""C14 - exported quantized weights equal inference weights and rebuild from HW form.

model_save_quantized_weights is executed on the real AST for a one-layer model (one weight element, real
algebra), per quantizer kind of the weight; the layer API (get_quantizers/get_weights/set_weights) is abstract
and records what the function stores.  find_bn_fusing_layer_pair (Keras clone_model + networkx graph walk) is
replaced by its contract (K4): it names the (layer, following QBatchNormalization) pairs.

Clauses:
  applied_once   the layer's weights are set exactly once, to [q_i(w_i)] in weight order
  plain          fixed-point / binary / ternary weights: hardware weight == stored weight
  po2_tuple      power-of-two quantizer (C03 contract: q(w) = s*2^e): sign * 2^exponent == stored weight, sign in {-1,1}
  auto_po2_tuple auto_po2 quantized_bits (C05 contract: q(w) = scale*2^(integer-n)*z, z integer code, scale a power
                 of two): scales * integer_weight == stored weight, integer_weight is the integer code z
  bn_fuse        bn_inv = gamma_q * rsqrt(var_q + eps) (then the inverse quantizer), fused_bias = inv*bias + beta - inv*mean
Lemmas (composition, no solver): export leaves predictions unchanged / a second export is a no-op follow from
applied_once and idempotence q(q(w)) = q(w) of data-independent quantizers (C02 idem, C03 idem) with C11.
"""
import z3

from pyvc.contract import Case, Scen, run_call
from pyvc.values import *  # noqa
from pyvc import interp as I
from pyvc import lib as L
from . import quant as Q
from .quant import P

PROP = "C14"
MS = "qkeras/utils.py::model_save_quantized_weights"
ASSUME = ["K4: find_bn_fusing_layer_pair returns the (layer, following QBatchNormalization) pairs",
          "C03 contract of po2 quantizers (output = sign*2^e), C05 contract of auto_po2 quantized_bits "
          "(output = scale*step*z, scale = 2^c recorded in quantizer.scale)",
          "A1 real arithmetic"]

QF = z3.Function("Qweight", z3.RealSort(), z3.RealSort())
QBIAS = z3.Function("Qbias14", z3.RealSort(), z3.RealSort())


def quantizer_stub(kind, s, ip):
  """-> (quantizer object, expected dict describing q(w))."""
  if kind == "fixed":
    q = Obj(ExtClass("quantized_bits"), {"alpha": None, "__call__": lambda ip_, o, a, k: SNum(QF(Q.num_value(a[0])), "tensor")})
    return q, {"out": lambda w: QF(w)}
  if kind == "binary":
    q = Obj(ExtClass("binary"), {"alpha": None, "__call__": lambda ip_, o, a, k: SNum(QF(Q.num_value(a[0])), "tensor")})
    return q, {"out": lambda w: QF(w)}
  if kind in ("po2", "relu_po2"):
    e, sg = z3.Int("e"), z3.Int("sgn")
    s.vars.update({"e": e, "sgn": sg})
    ip.assume(z3.Or(sg == 1, sg == -1) if kind == "po2" else sg == 1)
    out = z3.ToReal(sg) * P(e)
    q = Obj(ExtClass("quantized_po2" if kind == "po2" else "quantized_relu_po2"),
            {"__call__": lambda ip_, o, a, k: SNum(out, "tensor")})
    s.hints.extend([e])
    return q, {"out": lambda w: out, "e": e, "sgn": sg}
  if kind == "auto_po2":
    bits, integer, z, c = z3.Int("bits"), z3.Int("integer"), z3.Int("z"), z3.Int("scale_exp")
    s.vars.update({"bits": bits, "integer": integer, "z": z, "scale_exp": c})
    ip.assume(z3.And(bits >= 2, integer >= 0, z >= -(I.IPOW2(bits - 1) - 1), z <= I.IPOW2(bits - 1) - 1, c >= -8, c <= 8))
    n = bits - 1
    # C05: output = quantizer.scale * 2^(integer - n) * z with quantizer.scale = 2^c (one value per channel)
    out = P(c) * P(integer - n) * z3.ToReal(z)
    q = Obj(ExtClass("quantized_bits"), {"alpha": "auto_po2", "bits": SNum(bits), "keep_negative": True,
                                         "integer": SNum(integer),
                                         "scale": SNum(P(c), "float", None, {"ndarray": True, "shape": (1, 1)}),
                                         "__call__": lambda ip_, o, a, k: SNum(out, "tensor")})
    s.hints.extend([c, n, integer, integer - n, n - integer, c + integer - n])
    return q, {"out": lambda w: out, "z": z, "c": c, "n": n, "integer": integer, "bits": bits}
  raise ValueError(kind)


def export_scenario(kind, with_bias):
  def scenario(ip):
    s = Scen()
    w, b = z3.Real("w"), z3.Real("b")
    s.vars.update({"w": w, "b": b})
    q, exp = quantizer_stub(kind, s, ip)
    bq = Obj(ExtClass("quantized_bits"), {"alpha": None, "__call__": lambda ip_, o, a, k: SNum(QBIAS(Q.num_value(a[0])), "tensor")}) if with_bias == "q" else None
    if with_bias in ("po2b", "relu_po2b"):
      # a power-of-two BIAS behind any kernel kind: its (sign, exponent) pair must sit at the bias' own index; an UNSIGNED
      # po2 bias (relu_po2b) must not make the layer forget that an earlier weight is signed (seed c14-8)
      eb, sgb = z3.Int("e_bias"), z3.Int("sgn_bias")
      s.vars.update({"e_bias": eb, "sgn_bias": sgb})
      ip.assume(z3.Or(sgb == 1, sgb == -1) if with_bias == "po2b" else sgb == 1)
      qb_out = z3.ToReal(sgb) * P(eb)
      s.hints.extend([eb])
      bq = Obj(ExtClass("quantized_po2" if with_bias == "po2b" else "quantized_relu_po2"),
               {"__call__": lambda ip_, o, a, k: SNum(qb_out, "tensor")})
    qs = [q] + ([bq] if with_bias else [])
    ws = [SNum(w, "tensor")] + ([SNum(b, "tensor")] if with_bias else [])
    stored = []
    lay = Obj(ExtClass("QDense"), {
        "name": "dense0",
        "get_quantizers": Builtin("get_quantizers", lambda ip_: list(qs)),
        "get_weights": Builtin("get_weights", lambda ip_: list(ws)),
        "set_weights": Builtin("set_weights", lambda ip_, v: stored.append(list(v)))})
    model = Obj(ExtClass("Model"), {"layers": [lay]})
    ip.overrides["qkeras.utils::find_bn_fusing_layer_pair"] = lambda ip_, fv, a, k: ({}, set())
    r = run_call(ip, ip.find(MS), [model])
    s.claim("no_raise", r[0] == "return")
    if r[0] != "return":
      s.info["raised"] = str(r[1])
      return s
    saved = r[1]
    qw = exp["out"](w)
    ok_once = len(stored) == 1 and len(stored[0]) == len(ws)
    s.claim("applied_once_shape", ok_once)
    if not ok_once:
      return s
    goals = [Q.num_value(stored[0][0]) == qw]
    if with_bias:
      goals.append(Q.num_value(stored[0][1]) == (qb_out if with_bias in ("po2b", "relu_po2b") else QBIAS(b) if with_bias == "q" else b))
    s.claim("applied_once", z3.And(*goals))
    ent = saved["dense0"]
    hw = ent["weights"][0]
    if with_bias == "relu_po2b":
      s.claim("bias_exponent", Q.num_value(ent["weights"][1]) == z3.ToReal(eb))
      if kind == "po2":
        # the signed kernel still needs its sign: the entry carries signs, aligned, and the kernel rebuilds
        sgs = ent.get("signs") if isinstance(ent, dict) else None
        aligned = isinstance(sgs, list) and len(sgs) == len(ent["weights"]) == 2
        s.claim("signs_kept_for_signed_kernel", aligned)
        if aligned:
          sv = Q.num_value(sgs[0])
          s.claim("po2_tuple", z3.And(z3.Or(sv == 1, sv == -1), sv * P(exp["e"]) == qw, Q.num_value(hw) == z3.ToReal(exp["e"])))
      elif kind in ("fixed", "binary"):
        s.claim("plain_kernel", Q.num_value(hw) == qw)
      return s
    if with_bias == "po2b":
      sgs = ent.get("signs") if isinstance(ent, dict) else None
      aligned = isinstance(sgs, list) and len(sgs) == len(ent["weights"]) == 2
      s.claim("signs_aligned_with_weights", aligned)
      if aligned:
        sv = Q.num_value(sgs[1])
        s.claim("bias_po2_tuple", z3.And(z3.Or(sv == 1, sv == -1), sv * P(eb) == qb_out,
                                         Q.num_value(ent["weights"][1]) == z3.ToReal(eb)))
      if kind in ("fixed", "binary"):
        s.claim("plain_kernel", Q.num_value(hw) == qw)
      return s
    if kind in ("fixed", "binary"):
      s.claim("plain", z3.And(Q.num_value(hw) == qw, "signs" not in ent, "scales" not in ent))
    elif kind in ("po2", "relu_po2"):
      sign_ok = True
      if kind == "po2":
        sg = ent["signs"][0] if "signs" in ent else None
        if sg is None:
          s.claim("po2_tuple", False)
          return s
        sv = Q.num_value(sg)
        s.claim("po2_tuple", z3.And(z3.Or(sv == 1, sv == -1), sv * P(exp["e"]) == qw, Q.num_value(hw) == z3.ToReal(exp["e"])))
      else:
        s.claim("po2_tuple", z3.And(Q.num_value(hw) == z3.ToReal(exp["e"]), "signs" not in ent))
    else:
      if "scales" not in ent:
        s.claim("auto_po2_tuple", False)
        return s
      sc = Q.num_value(ent["scales"][0])
      hwv = Q.num_value(hw)
      s.claim("auto_po2_tuple", sc * hwv == qw)
      s.claim("int_in_range", hwv == z3.ToReal(exp["z"]))
    return s
  return scenario


def bn_scenario(scale, center, use_bias, inv_q):
  def scenario(ip):
    s = Scen()
    f = ip.find("qkeras/utils.py::add_bn_fusing_weights")
    names = ["gamma", "beta", "mean", "var", "eps", "bias"]
    g, be, mu, var, eps, bias = [z3.Real(n) for n in names]
    for n, v in zip(names, (g, be, mu, var, eps, bias)):
      s.vars[n] = v
    ip.assume(z3.And(var >= 0, eps > 0))
    QG, QBt, QM, QV, QI = [z3.Function(n, z3.RealSort(), z3.RealSort()) for n in ("Qg", "Qbeta", "Qmean", "Qvar", "Qinv")]
    mkq = lambda F: Obj(ExtClass("quantizer"), {"__call__": lambda ip_, o, a, k: SNum(F(Q.num_value(a[0])), "tensor")})
    ws = []
    if scale:
      ws.append(SNum(g, "tensor"))
    if center:
      ws.append(SNum(be, "tensor"))
    ws += [SNum(mu, "tensor"), SNum(var, "tensor")]
    quantizers = [None if inv_q else mkq(QG), mkq(QBt), mkq(QM), None if inv_q else mkq(QV), mkq(QI) if inv_q else None]
    bn = Obj(ExtClass("QBatchNormalization"), {
        "name": "bn0", "quantizers": quantizers, "get_weights": Builtin("get_weights", lambda ip_: list(ws)),
        "scale": scale, "center": center, "epsilon": SNum(eps, "float"),
        "gamma_quantizer_internal": quantizers[0], "beta_quantizer_internal": quantizers[1],
        "mean_quantizer_internal": quantizers[2], "variance_quantizer_internal": quantizers[3],
        "inverse_quantizer_internal": quantizers[4]})
    prev = Obj(ExtClass("QConv2D"), {"name": "conv0", "use_bias": use_bias,
                                     "get_weights": Builtin("get_weights", lambda ip_: [SNum(z3.Real("k"), "tensor"), SNum(bias, "tensor")])})
    saved = {"conv0": {"weights": [], "enable_bn_fusing": False}}
    r = run_call(ip, f, [prev, bn, saved])
    s.claim("no_raise", r[0] == "return")
    if r[0] != "return":
      s.info["raised"] = str(r[1])
      return s
    gq = (g if inv_q else QG(g)) if scale else z3.RealVal(1)
    bq = QBt(be) if center else z3.RealVal(0)
    mq = QM(mu)
    vq = var if inv_q else QV(var)
    inv = gq * L.RSQRT(vq + eps)
    if inv_q:
      inv = QI(inv)
    pb = bias if use_bias else z3.RealVal(0)
    e = saved["conv0"]
    s.claim("bn_fuse", z3.And(Q.num_value(e["bn_inv"]) == inv,
                              Q.num_value(e["fused_bias"]) == inv * pb + bq - inv * mq))
    s.claim("bn_marks", e["enable_bn_fusing"] is True and e["fused_bn_layer_name"] == "bn0")
    return s
  return scenario


def fuse_scenario(bias_kind):
  """Whole export of [conv0, bn0] with conv0 fused into bn0: the layer objects are stateful (get_weights returns what
  set_weights stored), so fused_bias must be the batch-norm algebra on the bias the layer HOLDS AFTER the export."""
  def scenario(ip):
    s = Scen()
    names = ["w", "b", "gamma", "beta", "mean", "var", "eps"]
    w, b, g, be, mu, var, eps = [z3.Real(n) for n in names]
    for n, v in zip(names, (w, b, g, be, mu, var, eps)):
      s.vars[n] = v
    ip.assume(z3.And(var >= 0, eps > 0))
    QG, QBt, QM, QV = [z3.Function(n, z3.RealSort(), z3.RealSort()) for n in ("Qg", "Qbeta", "Qmean", "Qvar")]
    mkq = lambda F, cls="quantized_bits": Obj(ExtClass(cls), {"alpha": None, "__call__": lambda ip_, o, a, k: SNum(F(Q.num_value(a[0])), "tensor")})
    kq = mkq(QF)
    bq = mkq(QBIAS) if bias_kind == "q" else None
    state = {"conv": [SNum(w, "tensor"), SNum(b, "tensor")], "bn": [SNum(g, "tensor"), SNum(be, "tensor"), SNum(mu, "tensor"), SNum(var, "tensor")]}
    sets = {"conv": 0, "bn": 0}

    def setter(key):
      def f(ip_, v):
        state[key] = list(v)
        sets[key] += 1
      return f
    conv = Obj(ExtClass("QConv2D"), {
        "name": "conv0", "use_bias": True,
        "get_quantizers": Builtin("get_quantizers", lambda ip_: [kq, bq]),
        "get_weights": Builtin("get_weights", lambda ip_: list(state["conv"])),
        "set_weights": Builtin("set_weights", setter("conv"))})
    bnq = [mkq(QG), mkq(QBt), mkq(QM), mkq(QV), None]
    bn = Obj(ExtClass("QBatchNormalization"), {
        "name": "bn0", "quantizers": bnq, "scale": True, "center": True, "epsilon": SNum(eps, "float"),
        "get_quantizers": Builtin("get_quantizers", lambda ip_: list(bnq)),
        "get_weights": Builtin("get_weights", lambda ip_: list(state["bn"])),
        "set_weights": Builtin("set_weights", setter("bn")),
        "gamma_quantizer_internal": bnq[0], "beta_quantizer_internal": bnq[1], "mean_quantizer_internal": bnq[2],
        "variance_quantizer_internal": bnq[3], "inverse_quantizer_internal": None})
    layers = {"conv0": conv, "bn0": bn}
    model = Obj(ExtClass("Model"), {"layers": [conv, bn], "get_layer": Builtin("get_layer", lambda ip_, n: layers[n])})
    ip.overrides["qkeras.utils::find_bn_fusing_layer_pair"] = lambda ip_, fv, a, k: ({"conv0": "bn0"}, {"bn0"})
    r = run_call(ip, ip.find(MS), [model])
    s.claim("no_raise", r[0] == "return")
    if r[0] != "return":
      s.info["raised"] = str(r[1])
      return s
    saved = r[1]
    held_b = Q.num_value(state["conv"][1])
    s.claim("held_bias_quantized_once", z3.And(sets["conv"] == 1, held_b == (QBIAS(b) if bias_kind == "q" else b)))
    e = saved.get("conv0", {})
    if "fused_bias" not in e or "bn_inv" not in e:
      s.claim("fused_entries", False)
      return s
    inv = QG(g) * L.RSQRT(QV(var) + eps)
    s.claim("bn_inv", Q.num_value(e["bn_inv"]) == inv)
    # batch-norm algebra on the quantized parameters = on the weights the layer holds after the export
    s.claim("fused_bias_on_exported_bias", Q.num_value(e["fused_bias"]) == inv * held_b + QBt(be) - inv * QM(mu))
    s.claim("bn_marked", e.get("enable_bn_fusing") is True and saved.get("bn0", {}).get("enable_bn_fusing") is True)
    return s
  return scenario


def special_scenario(kind):
  """Branches of the export loop selected by the layer's class: recurrent layers (the trailing state quantizer is not a
  weight quantizer), folded conv+batchnorm layers (folded weights are quantized for the dictionary, the layer keeps its
  own weights), average pooling (multiplier entries)."""
  def scenario(ip):
    s = Scen()
    utils = ip.get_module("qkeras.utils")
    F = [z3.Function("Q%d" % i, z3.RealSort(), z3.RealSort()) for i in range(4)]
    mkq = lambda Fi: Obj(ExtClass("quantized_bits"), {"alpha": None, "__call__": lambda ip_, o, a, k: SNum(Fi(Q.num_value(a[0])), "tensor")})
    ws = [z3.Real("w%d" % i) for i in range(3)]
    for i, w in enumerate(ws):
      s.vars["w%d" % i] = w
    stored = []
    ip.overrides["qkeras.utils::find_bn_fusing_layer_pair"] = lambda ip_, fv, a, k: ({}, set())
    if kind == "rnn":
      qs = [mkq(F[0]), mkq(F[1]), mkq(F[2]), mkq(F[3])]
      lay = Obj(utils.env.vars["QSimpleRNN"], {
          "name": "rnn0", "get_quantizers": Builtin("get_quantizers", lambda ip_: list(qs)),
          "get_weights": Builtin("get_weights", lambda ip_: [SNum(w, "tensor") for w in ws]),
          "set_weights": Builtin("set_weights", lambda ip_, v: stored.append(list(v)))})
    elif kind == "folded":
      qs = [mkq(F[0]), mkq(F[1])]
      lay = Obj(utils.env.vars["QConv2DBatchnorm"], {
          "name": "fold0", "get_quantizers": Builtin("get_quantizers", lambda ip_: list(qs)),
          "get_folded_weights": Builtin("get_folded_weights", lambda ip_: [SNum(ws[0], "tensor"), SNum(ws[1], "tensor")]),
          "get_weights": Builtin("get_weights", lambda ip_: [SNum(z3.Real("raw%d" % i), "tensor") for i in range(6)]),
          "set_weights": Builtin("set_weights", lambda ip_, v: stored.append(list(v)))})
    else:
      ph, pw = z3.Int("ph"), z3.Int("pw")
      s.vars["ph"], s.vars["pw"] = ph, pw
      ip.assume(z3.And(ph >= 1, pw >= 1))
      avg = Obj(ExtClass("quantized_bits"), {"alpha": None,
                                             "__call__": lambda ip_, o, a, k: SNum(F[0](Q.num_value(a[0])), "tensor")})
      lay = Obj(utils.env.vars["QAveragePooling2D"], {
          "name": "pool0", "pool_size": (SNum(ph, "int"), SNum(pw, "int")), "average_quantizer_internal": avg,
          "get_quantizers": Builtin("get_quantizers", lambda ip_: [avg, None]),
          "get_weights": Builtin("get_weights", lambda ip_: []),
          "set_weights": Builtin("set_weights", lambda ip_, v: stored.append(list(v)))})
    model = Obj(ExtClass("Model"), {"layers": [lay]})
    r = run_call(ip, ip.find(MS), [model])
    s.claim("no_raise", r[0] == "return")
    if r[0] != "return":
      s.info["raised"] = str(r[1])
      return s
    saved = r[1]
    ent = saved.get(lay.attrs["name"], {})
    if kind == "rnn":
      ok = len(stored) == 1 and len(stored[0]) == 3
      s.claim("applied_once_shape", ok)
      if ok:
        s.claim("weight_quantizers_in_order", z3.And(*[Q.num_value(stored[0][i]) == F[i](ws[i]) for i in range(3)]))
        s.claim("dictionary_matches", z3.And(*[Q.num_value(ent["weights"][i]) == F[i](ws[i]) for i in range(3)]))
    elif kind == "folded":
      s.claim("layer_weights_untouched", len(stored) == 0)
      okw = len(ent.get("weights", [])) == 2
      s.claim("folded_shape", okw)
      if okw:
        s.claim("folded_weights_quantized", z3.And(Q.num_value(ent["weights"][0]) == F[0](ws[0]),
                                                   Q.num_value(ent["weights"][1]) == F[1](ws[1])))
    else:
      area = z3.ToReal(ph * pw)
      ok = all(k in ent for k in ("q_mult_factor", "mult_factor", "pool_area"))
      s.claim("pool_entries", ok)
      if ok:
        s.claim("pool_values", z3.And(Q.num_value(ent["pool_area"]) == area, Q.num_value(ent["mult_factor"]) * area == 1,
                                      Q.num_value(ent["q_mult_factor"]) == F[0](1 / area)))
    return s
  return scenario


def bounds(vars_):
  cs = []
  for k, v in vars_.items():
    if k in ("bits",):
      cs.append(v <= 5)
    if k in ("integer",):
      cs.append(v <= 3)
    if k == "e":
      cs.append(z3.And(v >= -70, v <= 8))        # small exponents matter: the epsilon floor of the po2 quantizers is 2^-23.25
  return cs


def pairs_scenario(topology):
  """find_bn_fusing_layer_pair on stub graphs (qgraph's graph construction replaced by the graph itself, networkx by the
  stub contract of C18): a QConv2D / QDepthwiseConv2D is fused with a batch normalisation exactly when that batch
  normalisation is its ONLY consumer; nothing else is ever paired.
  topology: 'chain' conv->bn->dense | 'residual' conv->bn and conv->add (two consumers) | 'bn_second' conv->act, conv->bn |
            'dense_bn' dense->bn (not fusable) | 'conv_act' conv->act->bn | 'two_pairs' conv->bn->dwconv->bn"""
  def scenario(ip):
    s = Scen()
    from . import c18
    gm = ip.load_source("c18_graph_stub", c18.GRAPH_STUB)
    g = ip.call(gm.env.vars["DiGraph"], [], {})
    add_node, add_edge = ip.getattr(g, "add_node"), ip.getattr(g, "add_edge")
    layers = {}

    def node(i, cls, name):
      lay = None if cls is None else Obj(ExtClass(cls), {"name": name}, label=name)
      layers[i] = lay
      ip.call(add_node, [i], {"layer": [lay], "type": [cls], "out_quantizer": None})
    edge = lambda u, v: ip.call(add_edge, [u, v], {"shape": None, "tensor": "t%s_%s" % (u, v), "quantizer": None})
    node(-1, None, None)
    if topology == "chain":
      node(0, "QConv2D", "c1"); node(1, "QBatchNormalization", "b1"); node(2, "QDense", "d1")
      es, want = [(-1, 0), (0, 1), (1, 2), (2, -2)], {"c1": "b1"}
    elif topology == "residual":
      node(0, "QConv2D", "c1"); node(1, "QBatchNormalization", "b1"); node(2, "Add", "add")
      es, want = [(-1, 0), (0, 1), (0, 2), (1, 2), (2, -2)], {}
    elif topology == "bn_second":
      node(0, "QDepthwiseConv2D", "c1"); node(1, "QActivation", "a1"); node(2, "QBatchNormalization", "b1"); node(3, "Add", "add")
      es, want = [(-1, 0), (0, 1), (0, 2), (1, 3), (2, 3), (3, -2)], {}
    elif topology == "dense_bn":
      node(0, "QDense", "d1"); node(1, "QBatchNormalization", "b1")
      es, want = [(-1, 0), (0, 1), (1, -2)], {}
    elif topology == "conv_act":
      node(0, "QConv2D", "c1"); node(1, "QActivation", "a1"); node(2, "QBatchNormalization", "b1")
      es, want = [(-1, 0), (0, 1), (1, 2), (2, -2)], {}
    else:
      node(0, "QConv2D", "c1"); node(1, "QBatchNormalization", "b1"); node(2, "QDepthwiseConv2D", "c2")
      node(3, "QBatchNormalization", "b2")
      es, want = [(-1, 0), (0, 1), (1, 2), (2, 3), (3, -2)], {"c1": "b1", "c2": "b2"}
    node(-2, None, None)
    for u, v in es:
      edge(u, v)
    ip.overrides["qkeras.utils::clone_model"] = lambda ip_, fv, a, k: a[0]
    ip.overrides["qkeras.qtools.qgraph::GenerateGraphFromModel"] = lambda ip_, fv, a, k: (g, None)
    for fn in ("GraphAddSingleSourceSingleSink", "GraphRemoveNodeWithNodeType", "GraphPropagateActivationsToEdges"):
      ip.overrides["qkeras.qtools.qgraph::" + fn] = lambda ip_, fv, a, k: None
    model = Obj(ExtClass("Model"), {"layers": [l for l in layers.values() if l is not None]})
    r = run_call(ip, ip.find("qkeras/utils.py::find_bn_fusing_layer_pair"), [model])
    s.claim("no_raise", r[0] == "return")
    if r[0] != "return":
      s.info["raised"] = str(r[1])
      return s
    pairs, skip = r[1]
    if dict(pairs) != want:
      s.info["raised"] = "pairs %r, expected %r" % (dict(pairs), want)
    s.claim("pairs_exactly_sole_consumer_bn", dict(pairs) == want)
    s.claim("skipped_bn_are_the_paired_ones", set(skip) == set(want.values()))
    return s
  return scenario


def cases(tier):
  out = []
  for kind in ("fixed", "binary", "po2", "relu_po2", "auto_po2"):
    for wb in (None, "q", "plain"):
      out.append(Case(PROP, MS, "%s_bias%s" % (kind, wb or "none"), export_scenario(kind, wb), bounds=bounds,
                      replay_kind="c14_export", assumptions=ASSUME, term_mode=True, lo=-80, hi=20))
  for kind in ("fixed", "binary", "po2", "relu_po2", "auto_po2"):
    for bk in ("po2b", "relu_po2b"):
      out.append(Case(PROP, MS, "%s_bias%s" % (kind, bk), export_scenario(kind, bk), bounds=bounds, replay_kind=None,
                      assumptions=ASSUME, term_mode=True, lo=-80, hi=20))
  for kind in ("rnn", "folded", "pool"):
    out.append(Case(PROP, MS, "branch_%s" % kind, special_scenario(kind), bounds=bounds, replay_kind=None,
                    assumptions=ASSUME, term_mode=True))
  for bk in ("q", "plain"):
    out.append(Case(PROP, MS, "fused_conv_bn_bias-%s" % bk, fuse_scenario(bk), bounds=bounds, replay_kind=None,
                    assumptions=ASSUME, term_mode=True))
  for topo in ("chain", "residual", "bn_second", "dense_bn", "conv_act", "two_pairs"):
    out.append(Case(PROP, "qkeras/utils.py::find_bn_fusing_layer_pair", topo, pairs_scenario(topo), bounds=bounds,
                    replay_kind=None, assumptions=ASSUME + ["qgraph.GenerateGraphFromModel and the graph clean-up passes "
                                                            "replaced by the resulting graph (stub contract of networkx)"]))
  for sc in (True, False):
    for ce in (True, False):
      for ub in (True, False):
        for iq in (True, False):
          out.append(Case(PROP, "qkeras/utils.py::add_bn_fusing_weights", "scale%d_center%d_bias%d_invq%d" % (sc, ce, ub, iq),
                          bn_scenario(sc, ce, ub, iq), bounds=bounds, replay_kind=None, assumptions=ASSUME, term_mode=True))
  return out
