"""C20 - AutoQKeras trials respect the search limits and score smaller models higher.

Functions under contract:
  forgiving_factor.ForgivingFactor.__init__/delta
  forgiving_bits.ForgivingFactorBits._param_size/_act_size/compute_model_size
  autoqkeras_internal.AutoQKHyperModel._adjust_limit/_get_quantizer/_n
Clauses:
  delta:  zero_at_equal, sign, strictly_decreasing (two runs)            (requires delta_p, delta_n > 0, rate > 1)
  size:   param_size = sum elements x bits of the applied quantizer (reference width where none),
          act_size per layer/activation case, model size = weighted sum over the configured layers
  limits: for ALL hp.Choice outcomes (the tuner's choice is universally quantified, one path per member):
          member (returned name is in the configuration of that role), within_limit (bits <= numeric limit /
          name in the allowed list), none_iff_unlimited, group_shared (layers matched by one pattern share a
          single choice; the tuner is consulted once)
Assumed: hp.Choice(name, values) returns a member of values; hp.Fixed(name, v) returns v (keras-tuner contract).
"""
import z3

from pyvc.contract import Case, Scen, run_call
from pyvc.values import *  # noqa
from pyvc import interp as I
from . import quant as Q

PROP = "C20"
FF = "qkeras/autoqkeras/forgiving_metrics/forgiving_factor.py::ForgivingFactor"
FB = "qkeras/autoqkeras/forgiving_metrics/forgiving_bits.py::ForgivingFactorBits"
AQ = "qkeras/autoqkeras/autoqkeras_internal.py::AutoQKHyperModel"
ASSUME = ["hp.Choice returns a member of its list, hp.Fixed its value (keras-tuner contract)",
          "log axioms: strictly increasing, log 1 = 0 (ground instances)"]


def delta_scenario():
  def scenario(ip):
    s = Scen()
    dp, dn, rate, ref, t1, t2 = [z3.Real(n) for n in ("delta_p", "delta_n", "rate", "reference", "trial", "trial2")]
    for n, v in zip(("delta_p", "delta_n", "rate", "reference", "trial", "trial2"), (dp, dn, rate, ref, t1, t2)):
      s.vars[n] = v
    ip.assume(z3.And(dp > 0, dn > 0, rate > 1, ref > 0, t1 > 0, t2 > 0))
    cls = ip.find(FF)
    ff = ip.call(cls, [SNum(dp, "float"), SNum(dn, "float"), SNum(rate, "float")], {})
    ip.setattr(ff, "reference_size", SNum(ref, "float"))
    ip.setattr(ff, "trial_size", SNum(t1, "float"))
    r1 = run_call(ip, ip.getattr(ff, "delta"), [])
    ip.setattr(ff, "trial_size", SNum(t2, "float"))
    r2 = run_call(ip, ip.getattr(ff, "delta"), [])
    ok = r1[0] == "return" and r2[0] == "return"
    s.claim("no_raise", ok)
    if not ok:
      s.info["raised"] = "%s %s" % (r1[1], r2[1])
      return s
    d1, d2 = Q.num_value(r1[1]), Q.num_value(r2[1])
    s.seeds.extend([I.LOG2(z3.RealVal(1)), I.LOG2(rate)])
    s.claim("zero_at_equal", z3.Implies(t1 == ref, d1 == 0))
    s.claim("sign", z3.And(z3.Implies(t1 < ref, d1 > 0), z3.Implies(t1 > ref, d1 < 0)))
    s.claim("strictly_decreasing", z3.Implies(t1 < t2, d1 > d2))
    s.replay = {"what": "delta"}
    return s
  return scenario


def _weight(dims):
  return Obj(ExtClass("ndarray"), {"shape": tuple(dims)})


def _layer(name, weights=None, quantizers=None, **attrs):
  a = dict(attrs)
  a["name"] = name.lower() + "_0"
  if weights is not None:
    a["get_weights"] = Builtin("get_weights", lambda ip: list(weights))
  if quantizers is not None:
    a["get_quantizers"] = Builtin("get_quantizers", lambda ip: list(quantizers))
  return Obj(ExtClass(name), a, label=name)


def _bits_obj(v):
  return Obj(ExtClass("quantizer"), {"bits": v})


def size_scenario(kind):
  def scenario(ip):
    s = Scen()
    I_ = lambda n, lo=1: _mkint(ip, s, n, lo)
    fb_cls = ip.find(FB)
    refb, inb, outb = I_("ref_bits"), I_("input_bits"), I_("output_bits")
    fb = ip.call(fb_cls, [8.0, 8.0, 2.0], {"input_bits": SNum(inb), "output_bits": SNum(outb), "ref_bits": SNum(refb),
                                          "config": {"default": ["parameters", "activations"]}})
    a, b, c, kb, bb = I_("a"), I_("b"), I_("c"), I_("kernel_bits"), I_("bias_bits")
    osz = I_("out_elems")
    out = Obj(ExtClass("Tensor"), {"shape": I_shape((None, SNum(osz)))})
    if kind == "QDense_both":
      lay = _layer("QDense", [_weight((SNum(a), SNum(b))), _weight((SNum(b),))], [_bits_obj(SNum(kb)), _bits_obj(SNum(bb))],
                   activation=None, output=out)
      p_exp, a_exp = kb * a * b + bb * b, None
    elif kind == "QDense_nobiasq":
      lay = _layer("QDense", [_weight((SNum(a), SNum(b))), _weight((SNum(b),))], [_bits_obj(SNum(kb)), None],
                   activation="linear", output=out)
      p_exp, a_exp = kb * a * b + refb * b, z3.IntVal(0)
    elif kind == "Dense":
      lay = _layer("Dense", [_weight((SNum(a), SNum(b))), _weight((SNum(b),))], activation=None, output=out)
      p_exp, a_exp = refb * a * b + refb * b, z3.IntVal(0)
    elif kind == "QConv2D_qact":
      act = Obj(ExtClass("quantized_relu"), {"bits": SNum(c), "__name__": "quantized_relu"})
      lay = _layer("QConv2D", [_weight((3, 3, SNum(a), SNum(b)))], [_bits_obj(SNum(kb))], activation=act, output=out)
      p_exp, a_exp = kb * 9 * a * b, c * osz
    elif kind == "QActivation_q":
      act = Obj(ExtClass("quantized_bits"), {"bits": SNum(c), "__name__": "quantized_bits"})
      lay = _layer("QActivation", activation=act, output=out)
      p_exp, a_exp = z3.IntVal(0), c * osz
    elif kind == "Activation_softmax":
      lay = _layer("Activation", activation="softmax", output=out)
      p_exp, a_exp = z3.IntVal(0), outb * osz
    elif kind == "Activation_relu":
      # no quantizer applied: counted at the reference width (not at the output width)
      act = Obj(ExtClass("function"), {"__name__": "relu"})
      lay = _layer("Activation", activation=act, output=out)
      p_exp, a_exp = z3.IntVal(0), refb * osz
    elif kind == "Activation_linear":
      lay = _layer("Activation", activation="linear", output=out)
      p_exp, a_exp = z3.IntVal(0), z3.IntVal(0)
    elif kind == "Dense_relu":
      act = Obj(ExtClass("function"), {"__name__": "relu"})
      lay = _layer("Dense", [_weight((SNum(a), SNum(b))), _weight((SNum(b),))], activation=act, output=out)
      p_exp, a_exp = refb * a * b + refb * b, refb * osz
    elif kind == "QDense_unquantized_act":
      act = Obj(ExtClass("function"), {"__name__": "relu"})
      lay = _layer("QDense", [_weight((SNum(a), SNum(b))), _weight((SNum(b),))], [_bits_obj(SNum(kb)), _bits_obj(SNum(bb))],
                   activation=act, output=out)
      p_exp, a_exp = kb * a * b + bb * b, refb * osz
    elif kind == "InputLayer":
      lay = _layer("InputLayer", output=out)
      p_exp, a_exp = z3.IntVal(0), inb * osz
    rp = run_call(ip, ip.getattr(fb, "_param_size"), [lay])
    ra = run_call(ip, ip.getattr(fb, "_act_size"), [lay])
    ok = rp[0] == "return" and ra[0] == "return"
    s.claim("no_raise", ok)
    if not ok:
      s.info["raised"] = "%s %s" % (rp[1], ra[1])
      return s
    s.claim("param_size", Q.num_value(rp[1]) == z3.ToReal(p_exp))
    if a_exp is not None:
      s.claim("act_size", ra[1] is not None and Q.num_value(ra[1]) == z3.ToReal(a_exp))
    # model size: weighted sum over the layers the configuration names
    model = Obj(ExtClass("Model"), {"layers": [lay]})
    rm = run_call(ip, ip.getattr(fb, "compute_model_size"), [model])
    if rm[0] == "return" and a_exp is not None:
      tot = Q.num_value(rm[1][0])
      s.claim("model_size", tot == z3.ToReal(p_exp + a_exp))
    return s
  return scenario


class I_shape(tuple):
  def as_list(self):
    return list(self)


def _mkint(ip, s, n, lo=1):
  v = z3.Int(n)
  s.vars[n] = v
  ip.assume(z3.And(v >= lo, v <= 4096))
  return v


class HP(object):
  """keras-tuner hp stub: Choice forks over every member (universal quantification over the tuner)."""

  def __init__(self, ip):
    self.ip = ip
    self.calls = []
    self.picked = {}

  def obj(self):
    me = self

    def choice(ip, name, values, *a, **k):
      vals = list(values)
      me.calls.append(("Choice", name, vals))
      if not vals:
        raise PyRaise("ValueError", ("hp.Choice needs at least one value",))
      # fork: one path per member
      for i, v in enumerate(vals[:-1]):
        if ip.truth(SBool(z3.Bool("hp_%s_is_%d" % (len(me.calls), i)))):
          me.picked[name] = v
          return v
      me.picked[name] = vals[-1]
      return vals[-1]

    def fixed(ip, name, value, *a, **k):
      me.calls.append(("Fixed", name, value))
      return value
    return Obj(ExtClass("HyperParameters"), {"Choice": Builtin("Choice", choice), "Fixed": Builtin("Fixed", fixed)})


QCONFIG = {
    "kernel": {"binary": 1, "ternary": 2, "quantized_bits(4,0,1)": 4, "quantized_bits(8,0,1)": 8},
    "bias": {"quantized_bits(4,0,1)": 4, "quantized_po2(4,8)": 4, "quantized_bits(8,3,1)": 8},
    "activation": {"binary": 1, "quantized_relu(3,1)": 3, "quantized_relu(6,2)": 6, "quantized_relu(16,8)": 16},
    "linear": {"binary": 1, "quantized_bits(4,0,1)": 4},
    "pointwise_kernel": {"binary": 1, "quantized_bits(4,0,1)": 4},
    "recurrent_kernel": {"binary": 1, "quantized_bits(4,0,1)": 4},
    "recurrent_activation": {"binary": 1, "quantized_relu(3,1)": 3},
}


def limit_scenario(limit_kind, head):
  """limit_kind: 'class_numeric' | 'class_list' | 'pattern' | 'absent'."""
  def scenario(ip):
    s = Scen()
    cls = ip.find(AQ)
    lim = z3.Int("limit_bits")
    s.vars["limit_bits"] = lim
    ip.assume(z3.And(lim >= 1, lim <= 16))
    L = SNum(lim, "int")
    role0 = "kernel" if "kernel" in head else ("bias" if "bias" in head else "activation")
    # requires: the numeric limit admits at least one configured quantizer of the role
    ip.assume(lim >= min(QCONFIG[role0].values()))
    if limit_kind == "class_numeric":
      limit = {"Dense": [L, L, L]}
    elif limit_kind == "class_list":
      limit = {"Dense": [["binary", "quantized_bits(4,0,1)"], ["quantized_bits(4,0,1)"], ["binary", "quantized_relu(3,1)"]]}
    elif limit_kind == "pattern":
      limit = {"^dense_.*": [L, L, L], "Dense": [16, 16, 16]}
    else:
      limit = {"Conv2D": [4, 4, 4]}
    hm = Obj(cls, {"limit": limit, "groups": {}, "quantization_config": QCONFIG})
    hp = HP(ip)
    hpo = hp.obj()
    r = run_call(ip, ip.getattr(hm, "_get_quantizer"), [hpo, head, "dense_1", "Dense"], {"i_list": [0]})
    s.claim("no_raise", r[0] == "return" or (r[0] == "raise" and r[1].name == "KeyError" and False))
    if r[0] != "return":
      s.info["raised"] = str(r[1])
      return s
    name, bits = r[1]
    role = "kernel" if "kernel" in head else ("bias" if "bias" in head else "activation")
    idx = {"kernel": 0, "bias": 1, "activation": 2}[role]
    if limit_kind == "absent":
      s.claim("none_iff_unlimited", name is None and bits == -1 and not hp.calls)
      return s
    s.claim("none_iff_unlimited", name is not None)
    s.claim("member", name in QCONFIG[role] and QCONFIG[role][name] == bits)
    if limit_kind == "class_list":
      s.claim("within_limit", name in limit["Dense"][idx])
    else:
      s.claim("within_limit", z3.IntVal(QCONFIG[role].get(name, 99)) <= lim)
    s.claim("tuner_consulted_once", len(hp.calls) == 1)
    if limit_kind == "pattern":
      # a second layer matched by the same pattern shares the choice and does not consult the tuner again
      n0 = len(hp.calls)
      r2 = run_call(ip, ip.getattr(hm, "_get_quantizer"), [hpo, head, "dense_2", "Dense"], {"i_list": [1]})
      s.claim("group_shared", r2[0] == "return" and tuple(r2[1]) == (name, bits) and len(hp.calls) == n0)
    return s
  return scenario


def adjust_scenario(form):
  """form: 'scalar' | 'list3' | 'list4' default; short per-class lists are padded with the default of the
  SAME role: [kernel, bias, activation] (and recurrent for sequence layers)."""
  def scenario(ip):
    s = Scen()
    cls = ip.find(AQ)
    k, bi, rc, ac = [SNum(z3.Int(n), "int") for n in ("dk", "db", "dr", "da")]
    for v in (k, bi, rc, ac):
      s.vars[str(v.e)] = v.e
      ip.assume(z3.And(v.e >= 1, v.e <= 16))
    limit = {"Dense": [4], "Conv2D": [4, 5], "DepthwiseConv2D": [1, 2, 3], "Activation": [4]}
    if form == "scalar":
      default = k
      exp = {"Dense": [4, k, k], "Conv2D": [4, 5, k], "DepthwiseConv2D": [1, 2, 3]}
    elif form == "list3":
      default = [k, bi, ac]
      exp = {"Dense": [4, bi, ac], "Conv2D": [4, 5, ac], "DepthwiseConv2D": [1, 2, 3]}
    else:
      default = [k, bi, rc, ac]
      limit["LSTM"] = [4, 5]
      limit["GRU"] = [4, 5, 6, 7]
      exp = {"Dense": [4, bi, ac], "Conv2D": [4, 5, ac], "DepthwiseConv2D": [1, 2, 3], "LSTM": [4, 5, rc, ac],
             "GRU": [4, 5, 6, 7]}
    hm = Obj(cls, {"limit": limit})
    r = run_call(ip, ip.getattr(hm, "_adjust_limit"), [default])
    s.claim("no_raise", r[0] == "return")
    if r[0] != "return":
      s.info["raised"] = str(r[1])
      return s
    goals = []
    ok = limit["Activation"] == [4]
    for name, e in exp.items():
      got = limit[name]
      if len(got) != len(e):
        ok = False
        continue
      for g, x in zip(got, e):
        if isinstance(g, SNum) or isinstance(x, SNum):
          goals.append(Q.num_value(g) == Q.num_value(x))
        elif g != x:
          ok = False
    s.claim("padded_with_same_role_default", z3.And(*goals) if (ok and goals) else ok)
    return s
  return scenario


def _mk_layer(cls, name, **attrs):
  a = dict(attrs)
  a["name"] = name
  w = a.pop("wshape", None)
  if w is not None:
    a["get_weights"] = Builtin("get_weights", lambda ip, w=w: [_weight(w)])
  return Obj(ExtClass(cls), a, label=name)


QM_CONFIG = {
    "kernel": {"binary": 1, "quantized_bits(4,0,1)": 4, "quantized_bits(8,0,1)": 8},
    "bias": {"quantized_bits(4,0,1)": 4, "quantized_bits(8,3,1)": 8},
    "activation": {"binary": 1, "quantized_relu(6,2)": 6},
    "linear": {"binary": 1, "quantized_bits(4,0,1)": 4},
    "pointwise_kernel": {"binary": 1, "quantized_bits(4,0,1)": 4},
    "recurrent_kernel": {"binary": 1, "quantized_bits(4,0,1)": 4},
    "recurrent_activation": {"binary": 1, "quantized_relu(3,1)": 3},
}
_ROLE_OF_KEY = {"kernel_quantizer": "kernel", "depthwise_quantizer": "kernel", "bias_quantizer": "bias",
                "activation": "activation", "recurrent_quantizer": "recurrent_kernel",
                "pointwise_quantizer": "pointwise_kernel", "recurrent_activation": "recurrent_activation"}


def qm_scenario(kind):
  """AutoQKHyperModel.quantize_model, for ALL tuner outcomes (one path per hp.Choice member).  clone_model and
  model_quantize are replaced by their contracts (clone returns the model; model_quantize is a spy recording the
  quantization dictionary it is handed); _get_quantizer runs for real and is additionally observed (its own
  limit / membership contract is the _get_quantizer cases).  The dictionary is the object the property speaks about.
  kind: 'dense' (Dense/Activation/Conv2D/unlisted layers, class limits) | 'indexes' (layer_indexes given) |
        'filters' (tune_filters='layer') | 'seq' (two recurrent layers with per-name limits) |
        'seq_class' (LSTM + GRU under class limits) |
        'sep' (two separable convolutions with per-name limits)"""
  def scenario(ip):
    s = Scen()
    cls = ip.find(AQ)
    import re as _re
    spy = {}
    gq = []

    def mq(ip_, fv, a, k):
      spy["args"], spy["kw"] = list(a), dict(k)
      return Obj(ExtClass("QModel"), {"spied": True})
    ip.overrides["qkeras.utils::model_quantize"] = mq
    ip.overrides["qkeras.utils::clone_model"] = lambda ip_, fv, a, k: a[0]
    GQK = "qkeras.autoqkeras.autoqkeras_internal::AutoQKHyperModel._get_quantizer"

    def gq_spy(ip_, fv, a, k):
      del ip_.overrides[GQK]
      try:
        r_ = ip_.call_func(fv, a, k)
      finally:
        ip_.overrides[GQK] = gq_spy
      gq.append((a[2], a[3], a[4], tuple(r_)))          # head, layer name, layer class, (name, bits)
      return r_
    ip.overrides[GQK] = gq_spy
    u = z3.Int("units")
    s.vars["units"] = u
    ip.assume(z3.And(u >= 1, u <= 64))
    tune, layer_indexes = "none", None
    if kind in ("dense", "indexes", "indexes_b", "filters", "filters_block", "filters_layer_exc"):
      layers = [_mk_layer("InputLayer", "in0"),
                _mk_layer("Dense", "dense_a", use_bias=True, activation="relu", units=SNum(u), wshape=(7, 5)),
                _mk_layer("Activation", "act_1", activation="relu"),
                _mk_layer("Conv2D", "conv_b", use_bias=False, activation="linear", filters=SNum(u), wshape=(3, 3, 2, 5)),
                _mk_layer("Flatten", "flat"),
                _mk_layer("BatchNormalization", "bn_1"),
                _mk_layer("Dense", "dense_c", use_bias=True, activation="softmax", units=10, wshape=(5, 10)),
                _mk_layer("Activation", "act_sm", activation="softmax")]
      limit = {"Dense": [4, 8, 6], "Conv2D": [8, 8, 6], "Activation": [6], "BatchNormalization": []}
      if kind == "indexes":
        layer_indexes = [1, 2, 5]
      if kind == "indexes_b":
        # the standalone Activation (2) and the class-limited BatchNormalization (5) are NOT selected: the branches of
        # quantize_model that never consult the kernel-quantizer dictionary must honour layer_indexes too (seed c20-6)
        layer_indexes = [1, 3, 6]
      if kind.startswith("filters"):
        tune = "block" if kind == "filters_block" else "layer"
        limit = {"Dense": [1, 4, 1], "Conv2D": [1, 4, 1], "Activation": [1]}   # single admissible quantizers: only the filter choices fork
    elif kind == "seq_class":
      # class limits: no pattern group, every tensor of every layer is its own tuner choice
      layers = [_mk_layer("LSTM", "lstm_1", use_bias=True, activation="tanh", wshape=(4, 8)),
                _mk_layer("GRU", "gru_2", use_bias=False, activation="tanh", wshape=(4, 8))]
      limit = {"LSTM": [4, 4, 4, 1], "GRU": [4, 4, 4, 1]}
    elif kind == "seq":
      layers = [_mk_layer("LSTM", "lstm_1", use_bias=True, activation="tanh", wshape=(4, 8)),
                _mk_layer("LSTM", "lstm_2", use_bias=True, activation="tanh", wshape=(4, 8))]
      limit = {"^lstm_1$": [1, 4, 1, 1], "^lstm_2$": [8, 8, 4, 6], "LSTM": [8, 8, 8, 8]}
    else:
      layers = [_mk_layer("SeparableConv2D", "sep_1", use_bias=False, activation="linear", filters=4, wshape=(3, 3, 2, 1)),
                _mk_layer("SeparableConv2D", "sep_2", use_bias=False, activation="linear", filters=4, wshape=(3, 3, 2, 1))]
      limit = {"^sep_1$": [1, 4, 1], "^sep_2$": [8, 8, 6], "SeparableConv2D": [8, 8, 8]}
    model = Obj(ExtClass("Model"), {"layers": layers})
    # tune_filters_exceptions: in the *_exc / block kinds the output layer dense_c is excepted from filter tuning
    excepted = {"dense_c"} if kind in ("filters_block", "filters_layer_exc") else set()
    exc = Obj(ExtClass("Pattern"), {"search": Builtin("search", lambda ip_, name: (Obj(ExtClass("Match"), {}) if name in excepted else None))})
    hm = Obj(cls, {"limit": limit, "groups": {}, "quantization_config": QM_CONFIG, "model": model, "custom_objects": {},
                   "tune_filters": tune, "tune_filters_exceptions": exc, "layer_indexes": layer_indexes,
                   "activation_bits": 4, "transfer_weights": False})
    hp = HP(ip)
    s.replay = {"kind": kind}
    r = run_call(ip, ip.getattr(hm, "quantize_model"), [hp.obj()])
    s.claim("no_raise", r[0] == "return")
    if r[0] != "return" or "args" not in spy:
      s.info["raised"] = str(r[1])
      s.claim("handed_to_model_quantize", False)
      return s
    qd = spy["args"][1]
    s.claim("handed_to_model_quantize", spy["args"][0] is model and isinstance(qd, dict) and
            spy["args"][2] == 4 and spy["kw"].get("transfer_weights") is False and r[1][0].attrs.get("spied") is True)
    sel = [l for i, l in enumerate(layers) if layer_indexes is None or i in layer_indexes]
    names_sel = [l.attrs["name"] for l in sel]
    s.claim("only_selected_layers", all(n in names_sel for n in qd))

    def limited(l):
      c = l.cls.name
      return c in limit or any(_re.match(pt, l.attrs["name"]) for pt in limit)
    s.claim("unlimited_unquantized", all(limited(l) for l in layers if l.attrs["name"] in qd))
    REG = ("Dense", "Conv2D", "LSTM", "GRU", "SeparableConv2D")
    suffix = {"kernel_quantizer": "_kernel", "depthwise_quantizer": "_kernel", "bias_quantizer": "_bias",
              "activation": "_activation", "recurrent_quantizer": "_recurrent_kernel",
              "pointwise_quantizer": "_pointwise_kernel", "recurrent_activation": "_recurrent_activation"}
    own = {}
    for head, lname, lcls, res in gq:
      own.setdefault((lname, head), res)
    ok_member, ok_limit, ok_roles, ok_own = True, True, True, True
    stale = []
    for l in sel:
      n, c = l.attrs["name"], l.cls.name
      if n not in qd:
        continue
      ent = qd[n]
      key = next((pt for pt in limit if _re.match(pt, n)), c)
      lim = limit.get(key)
      if lim is None:
        continue                      # an unlimited layer in the dictionary: reported by unlimited_unquantized
      if c == "Activation":
        ok_member = ok_member and ent in QM_CONFIG["activation"]
        ok_limit = ok_limit and QM_CONFIG["activation"].get(ent, 99) <= lim[-1]
        ok_own = ok_own and own.get((n, n + "_activation"), (None,))[0] == ent
        continue
      if c not in REG:
        ok_roles = ok_roles and ent == {}
        continue
      idx = {"kernel": 0, "bias": 1, "activation": -1}
      for k_, v_ in ent.items():
        role = _ROLE_OF_KEY.get(k_)
        if role is None:
          ok_roles = False
          continue
        # the entry is this layer's OWN choice for this tensor (the value _get_quantizer returned for its head)
        if own.get((n, n + suffix[k_]), (None,))[0] != v_:
          ok_own = False
          stale.append("%s[%s] = %s, own choice %s" % (n, k_, v_, own.get((n, n + suffix[k_]), (None,))[0]))
        if role in idx:
          if not any(v_ in sec for sec in QM_CONFIG.values()):
            ok_member = False
            stale.append("%s[%s] = %s is not a quantizer of the configuration" % (n, k_, v_))
          elif max(sec[v_] for sec in QM_CONFIG.values() if v_ in sec) > lim[idx[role]]:
            ok_limit = False
            stale.append("%s[%s] = %s exceeds the limit %s" % (n, k_, v_, lim[idx[role]]))
      want = {"depthwise_quantizer" if c == "SeparableConv2D" else "kernel_quantizer"}
      if l.attrs.get("use_bias"):
        want.add("bias_quantizer")
      if l.attrs.get("activation") not in ("linear", "softmax", None):
        want.add("activation")
      if c in ("LSTM", "GRU"):
        want.update({"recurrent_quantizer", "recurrent_activation"})
      if c == "SeparableConv2D":
        want.add("pointwise_quantizer")
      ok_roles = ok_roles and set(ent) == want
    s.claim("member_of_configuration", ok_member)
    s.claim("within_limit", ok_limit)
    s.claim("roles_complete", ok_roles)
    if stale:
      s.info["raised"] = "; ".join(stale)
    s.claim("own_choice", ok_own)
    # registered layers that are selected and limited ARE quantized (their kernel choice is never None here)
    s.claim("limited_selected_quantized", all(l.attrs["name"] in qd for l in sel if l.cls.name in REG))
    # architecture: units / filters are those of the reference (no filter tuning) or the tuner's factor applied
    if kind.startswith("filters"):
      fac = {}
      for c_ in hp.calls:
        if c_[1].startswith("network_filters_"):
          fac[c_[1][len("network_filters_"):]] = c_
      picked = hp.picked
      if kind == "filters_block":
        # ONE choice for the whole network; excepted layers keep the reference width (seed c20-8)
        blk = [c_ for c_ in hp.calls if c_[1] == "network_filters"]
        s.claim("one_block_choice", not fac and len(blk) >= 1 and all(list(c_[2]) == [0.5, 0.75, 1.0, 1.5, 2.0] for c_ in blk))
      else:
        s.claim("filter_choices_per_layer", set(fac) == {"dense_a", "conv_b", "dense_c"} - excepted and
                all(list(c_[2]) == [0.5, 0.75, 1.0, 1.5, 2.0] for c_ in fac.values()))
      goals = []
      for lname, attr, ref in (("dense_a", "units", z3.ToReal(u)), ("conv_b", "filters", z3.ToReal(u)),
                               ("dense_c", "units", z3.RealVal(10))):
        f = picked.get("network_filters" if kind == "filters_block" else "network_filters_" + lname)
        lay = [l for l in layers if l.attrs["name"] == lname][0]
        if lname in excepted:
          goals.append(Q.num_value(lay.attrs[attr]) == ref)
          continue
        if f is None:
          goals.append(z3.BoolVal(False))
          continue
        sc = z3.ToReal(z3.ToInt(ref * z3.RealVal(str(f))))
        goals.append(Q.num_value(lay.attrs[attr]) == z3.If(sc >= 1, sc, z3.RealVal(1)))
      s.claim("filters_scaled", z3.And(*goals))
    else:
      same = [Q.num_value(layers[1].attrs["units"]) == z3.ToReal(u), Q.num_value(layers[3].attrs["filters"]) == z3.ToReal(u)] \
          if kind in ("dense", "indexes", "indexes_b") else []
      s.claim("architecture_kept", z3.And(*same) if same else True)
      s.claim("no_filter_choice", not any(c_[1].startswith("network_filters") for c_ in hp.calls))
    return s
  return scenario


def role_scenario(head, lcls, role, index):
  """_get_quantizer for the recurrent / pointwise tensors: the limit documented for the role
  ('"RNN":[weight,bias,recurrent,activation]') bounds every tuner outcome, and the quantizer comes from the section
  of the configuration named after the role."""
  def scenario(ip):
    s = Scen()
    cls = ip.find(AQ)
    lim = z3.Int("limit_bits")
    s.vars["limit_bits"] = lim
    ip.assume(z3.And(lim >= 1, lim <= 16))
    L = SNum(lim, "int")
    limit = {lcls: [8, 8, 8, 8] if lcls == "LSTM" else [8, 8, 8]}
    limit[lcls][index] = L
    hm = Obj(cls, {"limit": limit, "groups": {}, "quantization_config": QM_CONFIG})
    hp = HP(ip)
    s.replay = {"head": head, "layer_class": lcls, "role": role, "index": index}
    r = run_call(ip, ip.getattr(hm, "_get_quantizer"), [hp.obj(), "layer_1" + head, "layer_1", lcls],
                 {"is_kernel": "kernel" in head})
    s.claim("no_raise", r[0] == "return")
    if r[0] != "return":
      s.info["raised"] = str(r[1])
      return s
    name, bits = r[1]
    s.claim("from_configuration", any(name in sec and sec[name] == bits for sec in QM_CONFIG.values()))
    s.claim("within_role_limit", Q.num_value(bits) <= z3.ToReal(lim) if isinstance(bits, SNum) else z3.IntVal(bits) <= lim)
    return s
  return scenario


def prefix_scenario(head):
  """A limit key is a pattern matched at the START of the layer name (re.match): a layer whose name merely contains the
  key elsewhere ('pre_head' vs key 'head') is governed by its class limit and keeps its own tuner choice."""
  def scenario(ip):
    s = Scen()
    cls = ip.find(AQ)
    lim = z3.Int("limit_bits")
    s.vars["limit_bits"] = lim
    ip.assume(z3.And(lim >= 4, lim <= 7))
    L = SNum(lim, "int")
    limit = {"Dense": [L, L, L], "head": [16, 16, 16]}
    hm = Obj(cls, {"limit": limit, "groups": {}, "quantization_config": QCONFIG})
    hp = HP(ip)
    s.replay = {"head": head}
    r = run_call(ip, ip.getattr(hm, "_get_quantizer"), [hp.obj(), "pre_head_" + head, "pre_head", "Dense"], {})
    s.claim("no_raise", r[0] == "return")
    if r[0] != "return":
      s.info["raised"] = str(r[1])
      return s
    name, bits = r[1]
    role = "kernel" if "kernel" in head else ("bias" if "bias" in head else "activation")
    s.claim("class_limit_governs", name in QCONFIG[role] and z3.IntVal(QCONFIG[role][name]) <= lim)
    s.claim("own_choice_not_group", "head" not in hm.attrs["groups"] and
            all(c[1].startswith("pre_head_") for c in hp.calls))
    # the key itself, at the start of a name, does form the group
    r2 = run_call(ip, ip.getattr(hm, "_get_quantizer"), [hp.obj(), "head_1_" + head, "head_1", "Dense"], {})
    s.claim("prefix_forms_group", r2[0] == "return" and "head" in hm.attrs["groups"])
    return s
  return scenario


def score_scenario(kind):
  """AutoQKHyperModel.adjusted_score: the score handed to the tuner is metric * (1 + delta) for every metric value and
  every bonus.  kind: 'callable' (user metric function) | 'acc_binary' | 'acc_sparse' | 'acc_categorical' | 'default'
  (metric_function=None -> accuracy) | 'other_string'.  The Keras accuracy functions are replaced by contracts returning a
  distinct symbolic value each, so the clause also pins WHICH accuracy is taken for the label / prediction shapes."""
  def scenario(ip):
    s = Scen()
    cls = ip.find(AQ)
    mod = ip.get_module("qkeras.autoqkeras.autoqkeras_internal")
    vals = {}
    for n in ("binary_accuracy", "sparse_categorical_accuracy", "categorical_accuracy", "user_metric"):
      v = z3.Real("m_" + n)
      s.vars["m_" + n] = v
      ip.assume(z3.And(v >= 0, v <= 1))
      vals[n] = v
    calls = []

    def metric(n):
      def f(ip_, yt, yp):
        calls.append((n, yt, yp))
        return SNum(vals[n], "float")
      return Builtin(n, f)
    for n in ("binary_accuracy", "sparse_categorical_accuracy", "categorical_accuracy"):
      ip.setattr(mod, n, metric(n))
    d = z3.Real("delta")
    s.vars["delta"] = d
    ip.assume(z3.And(d >= -8, d <= 8))

    def tensor(shape):
      shp = Obj(ExtClass("TensorShape"), {"as_list": Builtin("as_list", lambda ip_: list(shape))})
      return Obj(ExtClass("Tensor"), {"shape": shp})
    shapes = {"callable": ((None, 10), (None, 10)), "acc_binary": ((None, 1), (None, 1)),
              "acc_sparse": ((None, 1), (None, 10)), "acc_sparse_rank": ((None,), (None, 10)),
              "acc_categorical": ((None, 10), (None, 10)), "default": ((None, 10), (None, 10)),
              "other_string": ((None, 1), (None, 1))}[kind]
    yt, yp = tensor(shapes[0]), tensor(shapes[1])
    mf = {"callable": metric("user_metric"), "default": None, "other_string": "top_k"}.get(kind, "accuracy")
    want = {"callable": "user_metric", "acc_binary": "binary_accuracy", "acc_sparse": "sparse_categorical_accuracy",
            "acc_sparse_rank": "sparse_categorical_accuracy", "acc_categorical": "categorical_accuracy",
            "default": "categorical_accuracy", "other_string": "categorical_accuracy"}[kind]
    r = run_call(ip, ip.getattr(cls, "adjusted_score"), [None, SNum(d, "float"), mf])
    s.claim("no_raise", r[0] == "return")
    if r[0] != "return":
      s.info["raised"] = str(r[1])
      return s
    r2 = run_call(ip, r[1], [yt, yp])
    s.claim("score_no_raise", r2[0] == "return")
    if r2[0] != "return":
      s.info["raised"] = str(r2[1])
      return s
    s.claim("metric_called_once_on_the_pair", len(calls) == 1 and calls[0][1] is yt and calls[0][2] is yp)
    s.claim("metric_times_one_plus_delta", Q.num_value(r2[1]) == vals[want] * (1 + d))
    return s
  return scenario


def bounds(vars_):
  return [v <= 16 for k, v in vars_.items() if isinstance(v, z3.ArithRef) and v.sort() == z3.IntSort()]


def cases(tier):
  out = [Case(PROP, FF + ".delta", "delta", delta_scenario(), replay_kind="c20_delta", assumptions=ASSUME)]
  for k in ("QDense_both", "QDense_nobiasq", "Dense", "QConv2D_qact", "QActivation_q", "Activation_softmax", "InputLayer",
            "Activation_relu", "Activation_linear", "Dense_relu", "QDense_unquantized_act"):
    out.append(Case(PROP, FB + "._param_size", k, size_scenario(k), bounds=bounds, replay_kind=None, assumptions=ASSUME))
  for k in ("callable", "acc_binary", "acc_sparse", "acc_sparse_rank", "acc_categorical", "default", "other_string"):
    out.append(Case(PROP, AQ + ".adjusted_score", k, score_scenario(k), replay_kind=None,
                    assumptions=ASSUME + ["binary / sparse_categorical / categorical_accuracy replaced by contracts (one "
                                          "symbolic value in [0, 1] each); K.cast to floatx is the identity on reals (A1)"]))
  for lk in ("class_numeric", "class_list", "pattern", "absent"):
    for head in ("kernel_quantizer", "bias_quantizer", "activation"):
      out.append(Case(PROP, AQ + "._get_quantizer", "%s_%s" % (lk, head), limit_scenario(lk, head), bounds=bounds,
                      replay_kind=None, assumptions=ASSUME))
  for kind in ("dense", "indexes", "indexes_b", "filters", "filters_block", "filters_layer_exc", "seq", "seq_class", "sep"):
    out.append(Case(PROP, AQ + ".quantize_model", kind, qm_scenario(kind), bounds=bounds, replay_kind="c20_qm",
                    assumptions=ASSUME + ["clone_model returns a copy with the same layers (contract); model_quantize "
                                          "replaced by a spy (its own behaviour is property C12)"]))
  for head, lcls, role, index in (("_recurrent_kernel", "LSTM", "recurrent_kernel", 2),
                                  ("_recurrent_activation", "LSTM", "recurrent_activation", 3),
                                  ("_pointwise_kernel", "SeparableConv2D", "pointwise_kernel", 0)):
    out.append(Case(PROP, AQ + "._get_quantizer", "role" + head, role_scenario(head, lcls, role, index), bounds=bounds,
                    replay_kind="c20_getq", assumptions=ASSUME))
  for head in ("kernel", "bias", "activation"):
    out.append(Case(PROP, AQ + "._get_quantizer", "prefix_only_" + head, prefix_scenario(head), bounds=bounds,
                    replay_kind="c20_prefix", assumptions=ASSUME))
  for form in ("scalar", "list3", "list4"):
    out.append(Case(PROP, AQ + "._adjust_limit", form, adjust_scenario(form), bounds=bounds, replay_kind=None,
                    assumptions=ASSUME))
  return out
