"""Shared scenario helpers for the element-wise quantizer contracts (C01-C08)."""
import z3

from pyvc.contract import Scen, run_call
from pyvc.values import *  # noqa
from pyvc import interp as I

QZ = "qkeras.quantizers"
QF = "qkeras/quantizers.py::"
P = I.POW2
RND = I.RND


def R(e):
  return z3.ToReal(e) if e.sort() == z3.IntSort() else e


def qcls(ip, name):
  return ip.getattr(ip.get_module(QZ), name)


def tensor(name, shape=(1,), grad=False):
  x = z3.Real(name)
  return SNum(x, "tensor", z3.RealVal(1) if grad else None, {"shape": shape})


def sint(name):
  return SNum(z3.Int(name), "int")


def sreal(name):
  return SNum(z3.Real(name), "float")


def clipz(v, lo, hi):
  """clip as z3 term (same shape as tf.clip_by_value = min(max(v, lo), hi))."""
  inner = z3.If(v < lo, lo, v)
  return z3.If(inner > hi, hi, inner)


def call(ip, q, x):
  """q(x) through the interpreter -> ('return', SNum) | ('raise', exc)."""
  return run_call(ip, q, [x])


def value(r):
  v = r[1]
  if isinstance(v, SNum):
    return R(v.e)
  if isinstance(v, (int, float)):
    return zreal(v)
  raise Unsupported("quantizer returned %r" % (v,))


def method(ip, q, name, *args):
  return run_call(ip, ip.getattr(q, name), list(args))


def num_value(v):
  if isinstance(v, SNum):
    return R(v.e)
  if isinstance(v, SBool):
    return z3.If(v.e, z3.RealVal(1), z3.RealVal(0))
  if isinstance(v, (int, float, bool)):
    return zreal(v)
  raise Unsupported("not a number: %r" % (v,))
