"""C02 - fixed-point quantization is the nearest-code projection (see c01.py)."""
from . import c01


def cases(tier):
  return c01.cases(tier, "C02")


META = getattr(c01, "META", {})
