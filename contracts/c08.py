"""C08 - stochastic rounding: adjacent code, unbiased in training, exact at inference.

Random draws are universally quantified (tf.random.uniform -> fresh u in [minval, maxval)).

Functions under contract: stochastic_round, stochastic_round_po2, _round_through (both phases),
quantized_bits/quantized_linear/quantized_relu/quantized_tanh/quantized_sigmoid/quantized_po2 .__call__ with
use_stochastic_rounding=True under learning phase 1 and 0, stochastic_binary/stochastic_ternary phase 0.

Clauses:
  adjacent    phase 1: the emitted code is floor or ceil of the (clipped) pre-rounding value  -> never further
  threshold   stochastic_round: result is ceil iff not (frac < u)
  fixed       inputs that are already codes are returned unchanged
  unbiased    closed form from the threshold clause and P(u <= t) = t (A4): floor*(1-frac) + ceil*frac = s
  phase0      learning phase 0: output identical to the round-to-nearest configuration (two runs)
"""
import z3

from pyvc.contract import Case, Scen, run_call
from pyvc.values import *  # noqa
from pyvc import interp as I
from . import quant as Q
from .quant import P, R, clipz
from pyvc.lib import SQRT as L_SQRT

PROP = "C08"
ASSUME = ["A4 tf.random.uniform is uniform on [minval, maxval): P(u <= t) = t (used only for `unbiased`)",
          "A1 real arithmetic", "K.learning_phase() is a case parameter in {0, 1}"]


def phase(n):
  def setup(ip):
    ip.learning_phase = n
    ip.draws = []
  return setup


def sr_scenario(precision):
  def scenario(ip):
    s = Scen()
    x = Q.tensor("x")
    s.vars["x"] = x.e
    f = ip.find(Q.QF + "stochastic_round")
    ip.draws = []
    r = run_call(ip, f, [x, precision])
    s.claim("no_raise", r[0] == "return")
    if r[0] != "return":
      return s
    ret = Q.value(r)
    sc = zreal(1.0 / precision)
    sx = x.e * sc
    fl = I.FLR(sx)
    ip.assume(z3.And(z3.ToReal(fl) <= sx, sx < z3.ToReal(fl) + 1))
    frac = sx - z3.ToReal(fl)
    cl = z3.If(frac == 0, fl, fl + 1)
    u = ip.draws[0][0] if ip.draws else None
    s.claim("one_draw", len(ip.draws) == 1)
    if u is None:
      return s
    s.vars["u"] = u
    code = ret * sc
    s.claim("adjacent", z3.Or(code == z3.ToReal(fl), code == z3.ToReal(cl)))
    s.claim("threshold", z3.If(frac < u, code == z3.ToReal(fl), code == z3.ToReal(cl)))
    s.claim("fixed", z3.Implies(frac == 0, ret == x.e))
    # E[code] over u ~ U[0,1): floor*P(frac < u) + ceil*P(u <= frac) = floor*(1-frac) + ceil*frac
    s.claim("unbiased", z3.ToReal(fl) * (1 - frac) + z3.ToReal(cl) * frac == sx)
    s.replay = {"what": "stochastic_round", "precision": precision}
    return s
  return scenario


def quantizer_phase1(cls):
  def scenario(ip):
    s = Scen()
    bits, integer = z3.Int("bits"), z3.Int("integer")
    s.vars.update({"bits": bits, "integer": integer})
    ip.assume(z3.And(bits >= 2, integer >= 0))
    x = Q.tensor("x")
    s.vars["x"] = x.e
    ip.draws = []
    if cls == "quantized_bits":
      q = ip.call(Q.qcls(ip, cls), [SNum(bits), SNum(integer), 0, True, None, True], {})
      n = bits - 1
      unit, lo, hi = P(integer - n), -I.IPOW2(n), I.IPOW2(n) - 1
      p = x.e * P(n - integer)
      clip_first = False
    elif cls == "quantized_linear":
      q = ip.call(Q.qcls(ip, cls), [SNum(bits), SNum(integer), 1, True, None, True], {})
      n = bits - 1
      unit, lo, hi = P(integer - n), -(I.IPOW2(n) - 1), I.IPOW2(n) - 1
      p = x.e * P(n - integer)
      clip_first = True
    elif cls == "quantized_relu":
      q = ip.call(Q.qcls(ip, cls), [SNum(bits), SNum(integer), 0, 0.0, True], {})
      n = bits
      unit, lo, hi = P(integer - n), z3.IntVal(0), I.IPOW2(n) - 1
      p = x.e * P(n - integer)
      clip_first = False
    elif cls == "quantized_tanh":
      q = ip.call(Q.qcls(ip, cls), [SNum(bits), True], {})
      n = bits - 1
      unit, lo, hi = P(-n), -I.IPOW2(n), I.IPOW2(n) - 1
      t = 2 * clipz(z3.RealVal("1/2") * x.e + z3.RealVal("1/2"), z3.RealVal(0), z3.RealVal(1)) - 1
      p = t * z3.ToReal(I.IPOW2(n))
      clip_first = False
    elif cls == "quantized_sigmoid":
      q = ip.call(Q.qcls(ip, cls), [SNum(bits), False, False, True], {})
      n = bits
      unit, lo, hi = P(-n), z3.IntVal(0), I.IPOW2(n) - 1
      t = clipz(z3.RealVal("1/2") * x.e + z3.RealVal("1/2"), z3.RealVal(0), z3.RealVal(1))
      p = t * z3.ToReal(I.IPOW2(n))
      clip_first = False
    s.hints.extend([n, -n, integer - n, n - integer, integer])
    s.replay = {"class": cls, "bits": bits, "integer": integer}
    r = Q.call(ip, q, x)
    s.claim("no_raise", r[0] == "return")
    if r[0] != "return":
      s.info["raised"] = str(r[1])
      return s
    ret = Q.value(r)
    for i, (u, _, _) in enumerate(ip.draws):
      s.vars["u%d" % i] = u
    pc = clipz(p, z3.ToReal(lo), z3.ToReal(hi)) if clip_first else p
    fl = I.FLR(pc)
    ip.assume(z3.And(z3.ToReal(fl) <= pc, pc < z3.ToReal(fl) + 1))
    cl = z3.If(pc == z3.ToReal(fl), fl, fl + 1)
    kf, kc = clipz(fl, lo, hi), clipz(cl, lo, hi)
    # the emitted value is unit * (one of the two codes adjacent to the clipped input)
    s.claim("adjacent", z3.Or(ret == unit * z3.ToReal(kf), ret == unit * z3.ToReal(kc)))
    if cls in ("quantized_bits", "quantized_linear"):
      s.claim("fixed", z3.Implies(z3.And(pc == z3.ToReal(fl), lo <= fl, fl <= hi), ret == unit * pc))
    s.replay["format"] = {"unit": unit, "lo": R(lo), "hi": R(hi), "p": pc}
    return s
  return scenario


def quantizer_phase0(cls):
  """learning phase 0: stochastic configuration == deterministic configuration."""
  def scenario(ip):
    s = Scen()
    bits, integer = z3.Int("bits"), z3.Int("integer")
    s.vars.update({"bits": bits, "integer": integer})
    ip.assume(z3.And(bits >= 2, integer >= 0))
    x = Q.tensor("x")
    s.vars["x"] = x.e
    C = Q.qcls(ip, cls.replace("_leaky", ""))
    b, i = SNum(bits), SNum(integer)
    mk = {
        "quantized_bits": lambda st: ip.call(C, [b, i, 0, True, None, st], {}),
        "quantized_linear": lambda st: ip.call(C, [b, i, 1, True, None, st], {}),
        "quantized_relu": lambda st: ip.call(C, [b, i, 0, 0.0, st], {}),
        "quantized_tanh": lambda st: ip.call(C, [b, st], {}),
        "quantized_sigmoid": lambda st: ip.call(C, [b, False, False, st], {}),
        "quantized_po2": lambda st: ip.call(C, [b, None, st], {}),
        "quantized_relu_po2": lambda st: ip.call(C, [b, None, 0, st], {}),
        # leaky variant: the negative side is a second _clip_power_of_two call with its own flags (seed c08-7)
        "quantized_relu_po2_leaky": lambda st: ip.call(C, [b, None, 0.25, st], {}),
        "binary": lambda st: ip.call(C, [False, 2.0, st], {}),
    }[cls]
    r1, r2 = Q.call(ip, mk(True), x), Q.call(ip, mk(False), x)
    ok = r1[0] == "return" and r2[0] == "return"
    s.claim("no_raise", ok)
    if not ok:
      s.info["raised"] = "%s / %s" % (r1[1], r2[1])
      return s
    s.claim("phase0", Q.value(r1) == Q.value(r2))
    s.replay = {"class": cls.replace("_leaky", ""), "bits": bits, "integer": integer, "phase": 0,
                "negative_slope": 0.25 if cls.endswith("_leaky") else 0}
    return s
  return scenario


def stoch_class_phase0(cls):
  def scenario(ip):
    s = Scen()
    x = Q.tensor("x")
    s.vars["x"] = x.e
    if cls == "stochastic_binary":
      a = ip.call(Q.qcls(ip, "stochastic_binary"), [2.0], {})
      b = ip.call(Q.qcls(ip, "binary"), [False, 2.0], {})
    else:
      a = ip.call(Q.qcls(ip, "stochastic_ternary"), [2.0, 0.5], {})
      b = ip.call(Q.qcls(ip, "ternary"), [2.0, 0.5], {})
    r1, r2 = Q.call(ip, a, x), Q.call(ip, b, x)
    ok = r1[0] == "return" and r2[0] == "return"
    s.claim("no_raise", ok)
    if not ok:
      s.info["raised"] = "%s / %s" % (r1[1], r2[1])
      return s
    s.claim("phase0", Q.value(r1) == Q.value(r2))
    s.replay = {"class": cls, "phase": 0}
    return s
  return scenario


def po2_sr_scenario():
  """stochastic_round_po2: exponent in the two exponents adjacent to log2|x|; threshold in val; unbiased."""
  def scenario(ip):
    s = Scen()
    x = Q.tensor("x")
    s.vars["x"] = x.e
    ip.assume(z3.Or(x.e >= zreal(1e-3), x.e <= -zreal(1e-3)))   # "well above the epsilon floor"
    ip.draws = []
    f = ip.find(Q.QF + "stochastic_round_po2")
    r = run_call(ip, f, [x])
    s.claim("no_raise", r[0] == "return")
    if r[0] != "return":
      s.info["raised"] = str(r[1])
      return s
    e = r[1]
    ee = I.real_to_int(z3.simplify(e.e)) if isinstance(e, SNum) else None
    s.claim("int_exponent", ee is not None)
    if ee is None:
      return s
    y = z3.If(x.e >= 0, x.e, -x.e)
    s.claim("one_draw", len(ip.draws) == 1)
    if len(ip.draws) != 1:
      return s
    val, lo, hi = ip.draws[0]
    s.vars["val"] = val
    # adjacent: 2^e_l <= y <= 2^e_r with e_r = e_l + 1 and the result one of them
    tol = 1 + zreal(1e-4)
    s.hints.extend([ee, ee + 1, ee - 1])
    s.claim("adjacent", z3.Or(z3.And(P(ee) <= y * tol, y <= P(ee + 1)),          # rounded down: left = ee
                              z3.And(P(ee - 1) <= y * tol, y <= P(ee))))         # rounded up:   left = ee - 1
    # codes are returned unchanged: y = 2^k gives exponent k (the draw lies strictly above the lower end 2^k)
    k = z3.Int("k_code")
    s.vars["k_code"] = k
    s.hints.extend([k, k + 1, k - 1])
    s.claim("fixed", z3.Implies(z3.And(y == P(k), val > lo), ee == k))
    # threshold: the lower exponent is returned exactly when y < val
    s.claim("threshold", z3.And(z3.Implies(z3.And(P(ee) <= y, y < P(ee + 1), P(ee) < y), y < val),
                                z3.Implies(z3.And(P(ee - 1) < y, y < P(ee)), z3.Not(y < val))))
    s.replay = {"what": "stochastic_round_po2"}
    return s
  return scenario


def po2_phase1(cls, quadratic):
  """quantized_po2 / quantized_relu_po2 with stochastic rounding in the training phase, checked against the CONTRACT of
  stochastic_round_po2 (callee replaced by its contract: for a > 0 it returns an integer exponent e adjacent to a:
  2^e <= a < 2^(e+1) or 2^(e-1) < a <= 2^e).  The code set with quadratic_approximation is the even exponents."""
  def scenario(ip):
    s = Scen()
    bits = z3.Int("bits")
    s.vars["bits"] = bits
    sg = 1 if cls == "quantized_po2" else 0
    ip.assume(bits - sg >= 2)
    x = Q.tensor("x")
    s.vars["x"] = x.e
    args = []

    def sr_contract(ip_, fv, a, k):
      av = Q.num_value(a[0])
      e = z3.Int("sr_exp%d" % len(args))            # every call draws independently
      s.vars["sr_exp%d" % len(args)] = e
      ip_.assume(z3.Implies(av > 0, z3.Or(z3.And(P(e) <= av, av < P(e + 1)), z3.And(P(e - 1) < av, av <= P(e)))))
      args.append(av)
      return SNum(z3.ToReal(e), "tensor")
    ip.overrides["qkeras.quantizers::stochastic_round_po2"] = sr_contract
    q = ip.call(Q.qcls(ip, cls), [SNum(bits)], {"quadratic_approximation": quadratic, "use_stochastic_rounding": True})
    s.replay = {"class": cls, "bits": bits, "quadratic": quadratic, "phase": 1}
    r = Q.call(ip, q, x)
    s.claim("no_raise", r[0] == "return")
    if r[0] != "return":
      s.info["raised"] = str(r[1])
      return s
    ret = Q.value(r)
    s.claim("callee_used", len(args) >= 1)
    if len(args) < 1:
      return s
    a = args[0]                                   # the call for the magnitude of a positive input
    e = s.vars["sr_exp0"]
    ax = z3.If(x.e >= 0, x.e, -x.e)
    eff = bits - sg - 1
    emin, emax = -I.IPOW2(eff), I.IPOW2(eff) - 1
    if quadratic:
      emax = emax - 1                             # _get_min_max_exponents: largest even exponent index 2*(max_exp // 2), eff >= 1
    s.hints.extend([eff, e, e + 1, e - 1, 2 * e, 2 * e + 2, 2 * e - 2])
    qf = 2 if quadratic else 1
    # inputs above the epsilon floor whose drawn exponent is inside the exponent field (no clipping)
    inside = z3.And(ax >= zreal(1e-3), emin <= e, e <= emax, x.e > 0)
    # the operand handed to the callee is the clipped magnitude (its square root with the quadratic approximation)
    if quadratic:
      s.claim("callee_operand", z3.Implies(inside, z3.And(a >= 0, a == L_SQRT(ax))))
      ip.assume(z3.Implies(ax >= 0, z3.And(L_SQRT(ax) * L_SQRT(ax) == ax, L_SQRT(ax) >= 0)))
    else:
      s.claim("callee_operand", z3.Implies(inside, a == ax))
    rabs = z3.If(ret >= 0, ret, -ret)
    s.claim("code_from_drawn_exponent", z3.Implies(inside, rabs == P(qf * e)))
    if not quadratic:
      s.claim("adjacent", z3.Implies(inside, z3.Or(z3.And(rabs <= ax, ax < 2 * rabs), z3.And(rabs < 2 * ax, ax <= rabs))))
    return s
  return scenario


def bounds(vars_):
  return [v <= 5 for k, v in vars_.items() if k in ("bits", "integer")]


def cases(tier):
  out = []
  for pr in (1.0, 0.5, 0.125):
    out.append(Case(PROP, Q.QF + "stochastic_round", "precision%s" % str(pr).replace(".", "p"), sr_scenario(pr),
                    bounds=bounds, replay_kind="c08", assumptions=ASSUME, setup=phase(1)))
  for cls in ("quantized_bits", "quantized_linear", "quantized_relu", "quantized_tanh", "quantized_sigmoid"):
    out.append(Case(PROP, Q.QF + cls + ".__call__", "phase1", quantizer_phase1(cls), bounds=bounds,
                    replay_kind="c08", assumptions=ASSUME, setup=phase(1), lo=-12, hi=12))
  for cls in ("quantized_bits", "quantized_linear", "quantized_relu", "quantized_tanh", "quantized_sigmoid",
              "quantized_po2", "quantized_relu_po2", "quantized_relu_po2_leaky", "binary"):
    out.append(Case(PROP, Q.QF + cls.replace("_leaky", "") + ".__call__", "phase0" + ("_leaky" if cls.endswith("_leaky") else ""),
                    quantizer_phase0(cls), bounds=bounds,
                    replay_kind="c08", assumptions=ASSUME + ["tf.round rounds ties to even (modelled exactly here)"],
                    setup=phase(0), lo=-130 if "po2" in cls else -12, hi=130 if "po2" in cls else 12, precise_ties=True))
  for cls in ("quantized_po2", "quantized_relu_po2"):
    for quad in (False, True):
      out.append(Case(PROP, Q.QF + cls + ".__call__", "phase1_quadratic%d" % quad, po2_phase1(cls, quad), bounds=bounds,
                      replay_kind="c08_po2", assumptions=ASSUME + ["contract of stochastic_round_po2 (adjacent integer exponent) assumed at its call site"],
                      setup=phase(1), lo=-130, hi=130))
  out.append(Case(PROP, Q.QF + "stochastic_round_po2", "body", po2_sr_scenario(), bounds=bounds, replay_kind="c08_sr_po2",
                  assumptions=ASSUME, setup=phase(1), lo=-40, hi=40, timeout_ms=20000))
  for cls in ("stochastic_binary", "stochastic_ternary"):
    out.append(Case(PROP, Q.QF + cls + ".__call__", "phase0", stoch_class_phase0(cls), bounds=bounds,
                    replay_kind="c08", assumptions=ASSUME, setup=phase(0)))
  return out
