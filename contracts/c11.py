"""C11 - quantized layers equal their Keras layer run on pre-quantized weights (drop-in).

Term mode: inputs, weights and quantizers are opaque; Keras backend ops are uninterpreted operators with
their hyper-parameters as arguments.  The `call` body of each quantized layer is executed on the real AST and
its result term is compared (structural equality = congruence) with the spec term of the stock layer applied
to kq(kernel), bq(bias), followed by the activation quantizer.  With no quantizers the spec is the stock term.

Clauses per layer class and presence pattern (each quantizer present/absent, use_bias, activation):
  term             call(inputs) == spec term
  quantizers_order get_quantizers() returns the objects applied, in weight order (constructor executed with
                   the Keras base constructor assumed to store its keyword arguments as attributes)
Assumed (K1): the stock Keras layer computes the spec term from (possibly pre-quantized) weights.
"""
import itertools

from pyvc.contract import Case, Scen, run_call
from pyvc.values import *  # noqa

PROP = "C11"
ASSUME = ["K1: the stock Keras layer computes op(x, kernel; hyper-parameters) + bias then activation",
          "K1': for the relationally checked layers (QConv2DTranspose, QSeparableConv1D) the quantizer-free body is the stock computation; quantizers commute with expand_dims",
          "structural equality of operator terms (a refactoring to a different but equivalent backend API would need a new operator synonym)"]


def T(op, *args, **kw):
  return Term(op, args, kw)


def qfun(name):
  return Builtin(name, lambda ip, x, _n=name: Term(name, (x,)))


X = Term("inputs")


def hp(name):
  return Term("hp:" + name)


def dense_like(cls_path, layer_cls, weights, spec, extra_attrs=None, quantizers=None, call_args=None,
               bias_flag="use_bias"):
  """Generic scenario factory.  weights: list of (weight attr, quantizer name).  spec(q, attrs) -> Term."""
  def make(pattern):
    def scenario(ip):
      s = Scen()
      cls = ip.find(cls_path)
      attrs = {}
      qs = {}
      for (wname, qname), present in zip(weights, pattern["q"]):
        attrs[wname] = Term(wname)
        attrs[qname] = ("set" if present else None)
        attrs[qname + "_internal"] = qfun(qname) if present else None
        qs[wname] = (lambda t, _n=qname: Term(_n, (t,))) if present else (lambda t: t)
      if bias_flag:
        attrs[bias_flag] = pattern["use_bias"]
      if not pattern["use_bias"]:
        attrs["bias"] = None
      attrs["activation"] = qfun("act") if pattern["act"] else None
      for k, v in (extra_attrs or {}).items():
        attrs[k] = v(ip) if callable(v) and not isinstance(v, (Builtin,)) else v
      lay = Obj(cls, attrs, label=layer_cls)
      args = call_args(ip) if call_args else [X]
      r = run_call(ip, ip.getattr(lay, "call"), args)
      s.claim("no_raise", r[0] == "return")
      if r[0] != "return":
        s.info["raised"] = str(r[1])
        return s
      got = r[1]
      exp = spec(qs, attrs, pattern)
      if not (got == exp):
        s.info["raised"] = "term mismatch: got %r expected %r" % (got, exp)
      s.claim("term", got == exp)
      return s
    return scenario
  return make


def act_wrap(t, pattern):
  return Term("act", (t,)) if pattern["act"] else t


# ------------------------------------------------------------------ specs
def spec_dense(q, a, p):
  out = T("K.dot", X, q["kernel"](a["kernel"]))
  if p["use_bias"]:
    out = T("K.bias_add", out, q["bias"](a["bias"]), data_format="channels_last")
  return act_wrap(out, p)


def spec_conv1d(q, a, p):
  out = T("K.conv1d", X, q["kernel"](a["kernel"]), strides=hp("s0"), padding=hp("padding"),
          data_format=hp("data_format"), dilation_rate=hp("d0"))
  if p["use_bias"]:
    out = T("K.bias_add", out, q["bias"](a["bias"]), data_format=hp("data_format"))
  return act_wrap(out, p)


def spec_conv2d(q, a, p):
  k = q["kernel"](a["kernel"])
  if a.get("_mask") is not None:
    k = T("mult", k, a["_mask"])          # masked kernel (QConv2D's own extension): mask applied to the quantized kernel
  out = T("stock.convolution_op", X, k)
  if p["use_bias"]:
    out = T("K.bias_add", out, q["bias"](a["bias"]), data_format=hp("data_format"))
  return act_wrap(out, p)


def spec_depthwise(q, a, p):
  out = T("K.depthwise_conv2d", X, q["depthwise_kernel"](a["depthwise_kernel"]), strides=hp("strides"),
          padding=hp("padding"), dilation_rate=hp("dilation_rate"), data_format=hp("data_format"))
  if p["use_bias"]:
    out = T("K.bias_add", out, q["bias"](a["bias"]), data_format=hp("data_format"))
  return act_wrap(out, p)


def spec_separable2d(q, a, p):
  out = T("K.separable_conv2d", X, q["depthwise_kernel"](a["depthwise_kernel"]),
          q["pointwise_kernel"](a["pointwise_kernel"]), strides=hp("strides"), padding=hp("padding"),
          dilation_rate=hp("dilation_rate"), data_format=hp("data_format"))
  if p["use_bias"]:
    out = T("K.bias_add", out, q["bias"](a["bias"]), data_format=hp("data_format"))
  return act_wrap(out, p)


def spec_scaleshift(q, a, p):
  out = T("mult", X, q["weight"](a["weight"]))        # tf.math.multiply
  if p["use_bias"]:
    out = T("add", q["bias"](a["bias"]), out)
  return act_wrap(out, p)


def spec_avgpool(q, a, p):
  if p["q"][0]:
    x = T("super(QAveragePooling2D).call", T("mult", X, 4))
    x = T("mult", x, T("K.cast_to_floatx?", ))     # replaced below
  return None


def spec_simplernn(q, a, p):
  h = T("K.dot", X, q["kernel"](a["kernel"]))
  if p["use_bias"]:
    h = T("K.bias_add", h, q["bias"](a["bias"]))
  prev = q["state"](Term("state0"))
  out = T("add", h, T("K.dot", prev, q["recurrent_kernel"](a["recurrent_kernel"])))
  out = act_wrap(out, p)
  return (out, [out])


def find_term(t, op):
  """first sub-term with the given operator (depth first)"""
  if isinstance(t, Term):
    if t.op == op:
      return t
    for a in list(t.args) + [v for _, v in t.kw]:
      r = find_term(a, op)
      if r is not None:
        return r
  elif isinstance(t, (list, tuple)):
    for a in t:
      r = find_term(a, op)
      if r is not None:
        return r
  return None


def stock_source(path, clsname, methods):
  """Source of the named methods of a stock Keras class (tf_keras 2.x, the implementation qkeras' recurrent cells were
  derived from), wrapped in a class the interpreter can execute: the statement's 'stock layer' made executable."""
  import ast as _ast
  import textwrap
  src = open(path).read()
  tree = _ast.parse(src)
  out = ["import tensorflow as tf", "import tensorflow.keras.backend as backend", "", "class Stock(object):"]
  for node in tree.body:
    if isinstance(node, _ast.ClassDef) and node.name == clsname:
      for m in node.body:
        if isinstance(m, _ast.FunctionDef) and m.name in methods:
          seg = _ast.get_source_segment(src, m)
          out.append(textwrap.indent(textwrap.dedent(" " * m.col_offset + seg), "  "))
  return "\n".join(out) + "\n"


TF_KERAS = "/venv/lib/python3.12/site-packages/tf_keras/src/layers/"


def relational(cls_path, weights, extra_attrs=None, call_args=None, bias_flag="use_bias", extra_check=None, stock=None):
  """call(weights w, quantizers present) == call(weights q(w), no quantizers): the layer with quantizers computes what
  the same layer computes on pre-quantized weights (the quantizer-free body is the stock Keras computation, K1')."""
  def make(pattern):
    def scenario(ip):
      s = Scen()
      cls = ip.find(cls_path)

      def build(with_q):
        attrs = {}
        for (wname, qname), present in zip(weights, pattern["q"]):
          w = Term(wname)
          if with_q:
            attrs[wname] = w
            attrs[qname] = "set" if present else None
            attrs[qname + "_internal"] = qfun(qname) if present else None
          else:
            attrs[wname] = Term(qname, (w,)) if present else w
            attrs[qname] = None
            attrs[qname + "_internal"] = None
        if bias_flag:
          attrs[bias_flag] = pattern["use_bias"]
        if not pattern["use_bias"]:
          attrs["bias"] = None
        attrs["activation"] = qfun("act") if pattern["act"] else None
        for k, v in (extra_attrs or {}).items():
          attrs[k] = v
        return Obj(cls, attrs, label=cls_path.split("::")[-1])
      res = []
      for with_q in (True, False):
        lay = build(with_q)
        args = call_args(ip, with_q, pattern) if call_args else [X]
        r = run_call(ip, ip.getattr(lay, "call"), args)
        if r[0] != "return":
          s.claim("no_raise", False)
          s.info["raised"] = "%s (with_quantizers=%s)" % (r[1], with_q)
          return s
        res.append(r[1])
      s.claim("no_raise", True)
      qnames = {qn for _, qn in weights}

      def commute(t):
        """quantizers act element-wise (up to a size-1 axis): q(expand_dims(w, k)) is expand_dims(q(w), k)"""
        if isinstance(t, Term):
          args = tuple(commute(a) for a in t.args)
          kw = tuple((k, commute(v)) for k, v in t.kw)
          if t.op in qnames and len(args) == 1 and isinstance(args[0], Term) and args[0].op.endswith("expand_dims"):
            inner = args[0]
            return Term(inner.op, (Term(t.op, (inner.args[0],)),) + tuple(inner.args[1:]), inner.kw)
          return Term(t.op, args, kw)
        if isinstance(t, (list, tuple)):
          return type(t)(commute(x) for x in t)
        return t
      res = [commute(r) for r in res]
      same = res[0] == res[1] if not isinstance(res[0], (tuple, list)) else (
          len(res[0]) == len(res[1]) and all((a == b) if not isinstance(a, list) else list(a) == list(b) for a, b in zip(res[0], res[1])))
      if not same:
        s.info["raised"] = "term mismatch: with quantizers %r / on pre-quantized weights %r" % (res[0], res[1])
      s.claim("same_as_prequantized", bool(same))
      # every weight the layer owns takes part in the result (guards the quantizer-free body that K1' trusts)
      used = [wn for wn, _ in weights if wn != "__state__" and (wn != "bias" or pattern["use_bias"])]
      missing = [wn for wn in used if (wn + "()") not in repr(res[0])]
      if missing:
        s.info["raised"] = "weights never used in the result: %s" % missing
      s.claim("weights_all_used", not missing)
      if extra_check is not None:
        for cname, ok in extra_check(res[0]):
          s.claim(cname, bool(ok))
      if stock is not None:
        # the stock Keras cell (its own source, executed by the same interpreter) on the pre-quantized weights and states
        fname, sclass, methods = stock
        sm = ip.load_source("stock_" + sclass, stock_source(TF_KERAS + fname, sclass, methods))
        ref = build(False)
        so = Obj(sm.env.vars["Stock"], dict(ref.attrs), label="stock " + sclass)
        args = call_args(ip, False, pattern) if call_args else [X]
        rs = run_call(ip, ip.getattr(so, "call"), args)
        if rs[0] != "return":
          s.info["raised"] = "stock %s.call: %s" % (sclass, rs[1])
          s.claim("same_as_stock_layer", False)
        else:
          st = commute(rs[1])
          eq = repr(st) == repr(res[0])
          if not eq:
            s.info["raised"] = "term mismatch: quantized cell %r / stock cell on pre-quantized weights %r" % (res[0], st)
          s.claim("same_as_stock_layer", eq)
      # the quantizers are really used: with a quantizer present the result must mention it
      if any(pattern["q"][i] for i in range(len(weights)) if weights[i][0] != "bias" or pattern["use_bias"]):
        s.claim("quantizer_applied", any(qn in repr(res[0]) for (wn, qn), pr in zip(weights, pattern["q"]) if pr))
      return s
    return scenario
  return make


def patterns(nq):
  for qs in itertools.product((True, False), repeat=nq):
    for ub in (True, False):
      for act in (True, False):
        yield {"q": qs, "use_bias": ub, "act": act}


def pname(p):
  return "q%s_b%d_a%d" % ("".join("1" if x else "0" for x in p["q"]), p["use_bias"], p["act"])


def conv_attrs(names):
  d = {}
  for n in names:
    d[n] = hp(n)
  return d


def cases(tier):
  out = []
  QL = "qkeras/qlayers.py::"
  QC = "qkeras/qconvolutional.py::"

  def add(target, cls, make, nq, bias_idx=None):
    for p in patterns(nq):
      # the bias quantizer is the last quantizer; without a bias its presence is irrelevant: keep one variant
      if bias_idx is not None and not p["use_bias"] and p["q"][bias_idx]:
        continue
      out.append(Case(PROP, target, pname(p), make(p), replay_kind=None, assumptions=ASSUME, term_mode=True))

  add(QL + "QDense.call", "QDense",
      dense_like(QL + "QDense", "QDense", [("kernel", "kernel_quantizer"), ("bias", "bias_quantizer")], spec_dense), 2, 1)
  add(QC + "QConv1D.call", "QConv1D",
      dense_like(QC + "QConv1D", "QConv1D", [("kernel", "kernel_quantizer"), ("bias", "bias_quantizer")], spec_conv1d,
                 extra_attrs={"strides": (hp("s0"),), "padding": hp("padding"), "data_format": hp("data_format"),
                              "dilation_rate": (hp("d0"),)}), 2, 1)
  for groups in (1, 2):
    for mask in (None, Term("mask")):
      tag = "QConv2D.call[groups%d%s]" % (groups, "" if mask is None else ",mask")
      for p in patterns(2):
        if not p["use_bias"] and p["q"][1]:
          continue
        mk = dense_like(QC + "QConv2D", "QConv2D", [("kernel", "kernel_quantizer"), ("bias", "bias_quantizer")], spec_conv2d,
                        extra_attrs={"_mask": mask, "groups": groups, "data_format": hp("data_format"),
                                     "convolution_op": Builtin("convolution_op", lambda ip, x, k: Term("stock.convolution_op", (x, k)))})
        out.append(Case(PROP, QC + "QConv2D.call", "g%d_m%d_%s" % (groups, mask is not None, pname(p)), mk(p),
                        replay_kind=None, assumptions=ASSUME, term_mode=True))
  add(QC + "QDepthwiseConv2D.call", "QDepthwiseConv2D",
      dense_like(QC + "QDepthwiseConv2D", "QDepthwiseConv2D",
                 [("depthwise_kernel", "depthwise_quantizer"), ("bias", "bias_quantizer")], spec_depthwise,
                 extra_attrs=conv_attrs(["strides", "padding", "dilation_rate", "data_format"])), 2, 1)
  add(QC + "QSeparableConv2D.call", "QSeparableConv2D",
      dense_like(QC + "QSeparableConv2D", "QSeparableConv2D",
                 [("depthwise_kernel", "depthwise_quantizer"), ("pointwise_kernel", "pointwise_quantizer"),
                  ("bias", "bias_quantizer")], spec_separable2d,
                 extra_attrs=conv_attrs(["strides", "padding", "dilation_rate", "data_format"])), 3, 2)
  # layers checked relationally (result with quantizers == result of the same body on pre-quantized weights)
  tr_attrs = conv_attrs(["filters"])
  tr_attrs.update({"padding": "valid", "data_format": "channels_last", "output_padding": None})
  tr_attrs.update({"strides": (hp("s0"), hp("s1")), "dilation_rate": (hp("d0"), hp("d1")), "kernel_size": (hp("k0"), hp("k1"))})
  def tr_geometry(t):
    c = find_term(t, "K.conv2d_transpose")
    if c is None:
      return [("uses_conv2d_transpose", False)]
    kw = dict(c.kw)
    return [("uses_conv2d_transpose", True),
            ("transpose_hyper_parameters", tuple(kw.get("strides", ())) == (hp("s0"), hp("s1")) and kw.get("padding") == "valid"
             and kw.get("data_format") == "channels_last" and tuple(kw.get("dilation_rate", ())) == (hp("d0"), hp("d1")))]
  add(QC + "QConv2DTranspose.call", "QConv2DTranspose",
      relational(QC + "QConv2DTranspose", [("kernel", "kernel_quantizer"), ("bias", "bias_quantizer")], extra_attrs=tr_attrs,
                 extra_check=tr_geometry), 2, 1)
  sep1 = conv_attrs(["padding", "data_format"])
  sep1.update({"strides": (hp("s0"),), "dilation_rate": (hp("d0"),)})
  def sep1_geometry(t):
    """stock SeparableConv1D (K1, made explicit): the 1-D problem is run as a 2-D one with a dummy axis inserted BEFORE
    the length axis, so strides are (s, s) and the dilation is (1, d): the user's dilation acts on the length axis"""
    c = find_term(t, "K.separable_conv2d")
    if c is None:
      return [("uses_separable_conv2d", False)]
    kw = dict(c.kw)
    return [("uses_separable_conv2d", True),
            ("dilation_on_length_axis", tuple(kw.get("dilation_rate", ())) == (1, hp("d0"))),
            ("strides_both_axes", tuple(kw.get("strides", ())) == (hp("s0"), hp("s0"))),
            ("padding_and_format", kw.get("padding") == hp("padding") and kw.get("data_format") == hp("data_format"))]
  add(QC + "QSeparableConv1D.call", "QSeparableConv1D",
      relational(QC + "QSeparableConv1D", [("depthwise_kernel", "depthwise_quantizer"), ("pointwise_kernel", "pointwise_quantizer"),
                                           ("bias", "bias_quantizer")], extra_attrs=sep1, extra_check=sep1_geometry), 3, 2)
  # recurrent cells: kernel / recurrent kernel / bias / state quantizers (state = the incoming states)
  def cell_args(nstates):
    def f(ip, with_q, pattern):
      sts = [Term("state%d" % i) for i in range(nstates)]
      if not with_q and pattern["q"][3]:
        sts = [Term("state_quantizer", (t,)) for t in sts]
      return [X, sts]
    return f
  cell_w = [("kernel", "kernel_quantizer"), ("recurrent_kernel", "recurrent_quantizer"), ("bias", "bias_quantizer"),
            ("__state__", "state_quantizer")]
  for cname, nst in (("QLSTMCell", 2), ("QGRUCell", 1)):
    for impl in (1, 2):
      for reset_after in ((False, True) if cname == "QGRUCell" else (None,)):
        cell_attrs = {"implementation": impl, "dropout": 0.0, "recurrent_dropout": 0.0, "units": 3,
                      "recurrent_activation": qfun("rec_act"),
                      "get_dropout_mask_for_cell": Builtin("dp", lambda ip_, *a, **k: None),
                      "get_recurrent_dropout_mask_for_cell": Builtin("rdp", lambda ip_, *a, **k: None)}
        if reset_after is not None:
          cell_attrs["reset_after"] = reset_after
        for p in patterns(4):
          if not p["act"]:
            continue                      # the cells always apply their activation
          if not p["use_bias"] and p["q"][2]:
            continue
          stock = ("rnn/lstm.py", "LSTMCell", ("call", "_compute_carry_and_output", "_compute_carry_and_output_fused")) \
              if cname == "QLSTMCell" else ("rnn/gru.py", "GRUCell", ("call",))
          mk = relational("qkeras/qrecurrent.py::" + cname, cell_w, extra_attrs=cell_attrs, call_args=cell_args(nst), stock=stock)
          nm = "impl%d%s_%s" % (impl, "" if reset_after is None else "_ra%d" % reset_after, pname(p))
          out.append(Case(PROP, "qkeras/qrecurrent.py::%s.call" % cname, nm, mk(p), replay_kind=None,
                          assumptions=ASSUME, term_mode=True))
  # pooling layers: y = stock_pool(x * area) * q(1 / area) (QAveragePooling2D), sum(x) * q(1 / area) (global), then activation
  def pooling(cls_name, with_q, act):
    def scenario(ip):
      s = Scen()
      cls = ip.find("qkeras/qpooling.py::" + cls_name)
      qf = qfun("average_quantizer")
      attrs = {"average_quantizer": "set" if with_q else None, "average_quantizer_internal": qf if with_q else None,
               "activation": qfun("act") if act else None, "pool_size": (2, 3), "data_format": "channels_last",
               "keepdims": False,
               "compute_pooling_area": Builtin("compute_pooling_area", lambda ip_, input_shape=None: 6)}
      lay = Obj(cls, attrs, label=cls_name)
      r = run_call(ip, ip.getattr(lay, "call"), [X])
      s.claim("no_raise", r[0] == "return")
      if r[0] != "return":
        s.info["raised"] = str(r[1])
        return s
      got = r[1]
      inv = 1.0 / 6
      if cls_name == "QAveragePooling2D":
        if with_q:
          exp = T("mult", T("super(QAveragePooling2D).call", T("mult", X, 6)), T("average_quantizer", inv))
        else:
          exp = T("super(QAveragePooling2D).call", X)
      else:
        if with_q:
          exp = T("mult", T("K.sum", X, axis=[1, 2], keepdims=False), T("average_quantizer", inv))
        else:
          exp = T("super(QGlobalAveragePooling2D).call", X)
      if act:
        exp = Term("act", (exp,))
      if not (got == exp):
        s.info["raised"] = "term mismatch: got %r expected %r" % (got, exp)
      s.claim("term", got == exp)
      return s
    return scenario
  for cn in ("QAveragePooling2D", "QGlobalAveragePooling2D"):
    for wq_ in (True, False):
      for act in (True, False):
        out.append(Case(PROP, "qkeras/qpooling.py::%s.call" % cn, "q%d_a%d" % (wq_, act), pooling(cn, wq_, act),
                        replay_kind=None, assumptions=ASSUME, term_mode=True))
  # QScaleShift tests the *_internal attributes directly
  def scaleshift(p):
    def scenario(ip):
      s = Scen()
      cls = ip.find("qkeras/qmac.py::QScaleShift")
      attrs = {"weight": Term("weight"), "bias": Term("bias") if p["use_bias"] else None, "use_bias": p["use_bias"],
               "weight_quantizer_internal": qfun("weight_quantizer") if p["q"][0] else None,
               "bias_quantizer_internal": qfun("bias_quantizer") if p["q"][1] else None,
               "activation": qfun("act") if p["act"] else None}
      lay = Obj(cls, attrs)
      r = run_call(ip, ip.getattr(lay, "call"), [X])
      s.claim("no_raise", r[0] == "return")
      if r[0] != "return":
        s.info["raised"] = str(r[1])
        return s
      wq = Term("weight_quantizer", (attrs["weight"],)) if p["q"][0] else attrs["weight"]
      exp = T("mult", X, wq)
      if p["use_bias"]:
        bq = Term("bias_quantizer", (attrs["bias"],)) if p["q"][1] else attrs["bias"]
        exp = T("add", bq, exp)
      exp = act_wrap(exp, p)
      if not (r[1] == exp):
        s.info["raised"] = "term mismatch: got %r expected %r" % (r[1], exp)
      s.claim("term", r[1] == exp)
      return s
    return scenario
  for p in patterns(2):
    if not p["use_bias"] and p["q"][1]:
      continue
    out.append(Case(PROP, "qkeras/qmac.py::QScaleShift.call", pname(p), scaleshift(p), replay_kind=None,
                    assumptions=ASSUME, term_mode=True))

  # QSimpleRNNCell
  def rnn(p):
    def scenario(ip):
      s = Scen()
      cls = ip.find("qkeras/qrecurrent.py::QSimpleRNNCell")
      names = [("kernel", "kernel_quantizer"), ("recurrent_kernel", "recurrent_quantizer"), ("bias", "bias_quantizer"),
               ("state", "state_quantizer")]
      attrs, q = {}, {}
      for (w, qn), present in zip(names, p["q"]):
        if w != "state":
          attrs[w] = Term(w)
        attrs[qn] = "set" if present else None
        attrs[qn + "_internal"] = qfun(qn) if present else None
        q[w] = (lambda t, _n=qn: Term(_n, (t,))) if present else (lambda t: t)
      if not p["use_bias"]:
        attrs["bias"] = None
      attrs["activation"] = qfun("act") if p["act"] else None
      attrs["get_dropout_mask_for_cell"] = Builtin("dp", lambda ip_, *a, **k: None)
      attrs["get_recurrent_dropout_mask_for_cell"] = Builtin("rdp", lambda ip_, *a, **k: None)
      lay = Obj(cls, attrs)
      r = run_call(ip, ip.getattr(lay, "call"), [X, [Term("state0")]])
      s.claim("no_raise", r[0] == "return")
      if r[0] != "return":
        s.info["raised"] = str(r[1])
        return s
      exp = spec_simplernn(q, attrs, p)
      ok = isinstance(r[1], tuple) and len(r[1]) == 2 and r[1][0] == exp[0] and list(r[1][1]) == exp[1]
      if not ok:
        s.info["raised"] = "term mismatch: got %r expected %r" % (r[1], exp)
      s.claim("term", ok)
      return s
    return scenario
  for p in patterns(4):
    if not p["use_bias"] and p["q"][2]:
      continue
    out.append(Case(PROP, "qkeras/qrecurrent.py::QSimpleRNNCell.call", pname(p), rnn(p), replay_kind=None,
                    assumptions=ASSUME, term_mode=True))

  # constructor: the reported quantizers are the ones applied, in weight order
  def ctor(clsname, target, kwnames, nweights):
    def scenario(ip):
      s = Scen()
      cls = ip.find(target)
      ip.overrides["qkeras.qlayers::get_auto_range_constraint_initializer"] = lambda ip_, fv, a, k: (a[1], a[2])
      qobjs = [qfun(n) for n in kwnames]
      kw = {n: qo for n, qo in zip(kwnames, qobjs)}
      r = run_call(ip, cls, [Term("units_or_filters")] + ([Term("kernel_size")] if "Conv" in clsname else []), kw)
      s.claim("no_raise", r[0] == "return")
      if r[0] != "return":
        s.info["raised"] = str(r[1])
        return s
      lay = r[1]
      rq = run_call(ip, ip.getattr(lay, "get_quantizers"), [])
      ok = rq[0] == "return" and len(rq[1]) == nweights and all(a is b for a, b in zip(rq[1], qobjs))
      s.claim("quantizers_order", ok)
      internal_ok = all(lay.attrs.get(n + "_internal") is qo for n, qo in zip(kwnames, qobjs))
      s.claim("internal_are_the_given", internal_ok)
      return s
    return scenario
  out.append(Case(PROP, QL + "QDense.__init__", "quantizers", ctor("QDense", QL + "QDense", ["kernel_quantizer", "bias_quantizer"], 2),
                  replay_kind=None, assumptions=ASSUME, term_mode=True))
  out.append(Case(PROP, QC + "QConv2D.__init__", "quantizers", ctor("QConv2D", QC + "QConv2D", ["kernel_quantizer", "bias_quantizer"], 2),
                  replay_kind=None, assumptions=ASSUME, term_mode=True))
  out.append(Case(PROP, QC + "QConv1D.__init__", "quantizers", ctor("QConv1D", QC + "QConv1D", ["kernel_quantizer", "bias_quantizer"], 2),
                  replay_kind=None, assumptions=ASSUME, term_mode=True))
  return out
