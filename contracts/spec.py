"""Shared specification vocabulary (DESIGN section 3).

Spec functions are pure z3 builders.  They are written from the property
statements and the class documentation, NOT derived from the code under test.
"""
import z3

from pyvc import interp as I
from pyvc.values import *  # noqa

POW2 = I.POW2
IPOW2 = I.IPOW2


def zi(v):
  """python/symbolic value -> z3 Int."""
  if isinstance(v, z3.ExprRef):
    return v
  if isinstance(v, SNum):
    if not v.is_int_sort:
      raise Unsupported("spec: expected an integer-valued field, got %r" % (v,))
    return v.e
  if isinstance(v, SBool):
    return z3.If(v.e, z3.IntVal(1), z3.IntVal(0))
  if isinstance(v, bool):
    return z3.IntVal(int(v))
  if isinstance(v, int):
    return z3.IntVal(v)
  if isinstance(v, float) and v == int(v):
    return z3.IntVal(int(v))
  raise Unsupported("spec: expected integer, got %r" % (v,))


def zr(v):
  if isinstance(v, z3.ExprRef):
    return z3.ToReal(v) if v.sort() == z3.IntSort() else v
  if isinstance(v, SNum):
    return v.real()
  if isinstance(v, (int, float)) and not isinstance(v, bool):
    return zreal(v)
  if isinstance(v, bool):
    return z3.RealVal(int(v))
  raise Unsupported("spec: expected number, got %r" % (v,))


# ----------------------------------------------------------------- lattices
class Lat(object):
  """A set of reals a data type can hold."""
  kind = None


class Fixed(Lat):
  """{ k * 2^-f | lo <= k <= hi }   (f, lo, hi: z3 Int terms)."""
  kind = "fixed"

  def __init__(self, f, lo, hi, n=None, s=None):
    self.f, self.lo, self.hi, self.n, self.s = f, lo, hi, n, s


class Po2(Lat):
  """{ s * 2^e | emin <= e <= emax, s in {1} or {-1, 1} }."""
  kind = "po2"

  def __init__(self, emin, emax, signed):
    self.emin, self.emax, self.signed = emin, emax, signed   # signed: z3 Bool


class Finite(Lat):
  kind = "finite"

  def __init__(self, values):
    self.values = list(values)


class Float(Lat):
  kind = "float"


def fixed_lattice(bits, int_bits, signed):
  """Fixed-point format (DESIGN 3, Fx): n = bits - signed non-sign bits,
  step 2^(int_bits - n), codes [-signed*2^n, 2^n - 1]."""
  b, i, s = zi(bits), zi(int_bits), zi(signed)
  n = b - s
  f = n - i
  lo = -s * I.IPOW2(n)
  hi = I.IPOW2(n) - 1
  return Fixed(f, lo, hi, n, s)


def po2_exponent_interval(bits, signed, need_exponent_sign_bit):
  """Exponent interval of quantized_po2 / quantized_relu_po2 as documented in
  qkeras (class docs + _get_min_max_exponents doc): the exponent field has
  bits - signed bits, one of which is the exponent's own sign bit unless
  max_value <= 1 (need_exponent_sign_bit = 0).  Returns (emin, emax, eff)."""
  b, s = zi(bits), zi(signed)
  eff = z3.simplify(b - s - need_exponent_sign_bit)
  return -I.IPOW2(eff), I.IPOW2(eff) - 1, eff


class Elem(object):
  """Generic element of a lattice: value = mant * 2^ex  (mant, ex z3 Ints)."""

  def __init__(self, mant, ex, constraints, is_min_code=None, names=()):
    self.mant, self.ex, self.cs = mant, ex, constraints
    self.is_min_code = is_min_code
    self.names = names

  def value(self):
    return z3.ToReal(self.mant) * I.POW2(self.ex)


def element(lat, prefix):
  """A universally quantified element of lat (fresh constants named by prefix)."""
  if lat.kind == "fixed":
    k = z3.Int(prefix + "_k")
    return Elem(k, -lat.f, [lat.lo <= k, k <= lat.hi], is_min_code=(k == lat.lo), names={prefix + "_k": k})
  if lat.kind == "po2":
    e = z3.Int(prefix + "_e")
    sg = z3.Int(prefix + "_s")
    # magnitudes below the library's epsilon floor (1e-7, i.e. exponents < -24) are only emitted as
    # the smallest code 2^emin, so exponents strictly between emin and -24 are not operand values
    cs = [lat.emin <= e, e <= lat.emax, z3.Or(e == lat.emin, e >= -24),
          z3.Or(sg == 1, z3.And(lat.signed, sg == -1))]
    return Elem(sg, e, cs, names={prefix + "_e": e, prefix + "_s": sg})
  if lat.kind == "finite":
    v = z3.Int(prefix + "_v")
    return Elem(v, z3.IntVal(0), [z3.Or(*[v == c for c in lat.values])], names={prefix + "_v": v})
  raise Unsupported("element of %s lattice" % lat.kind)


def fits(mant, ex, lat):
  """Sufficient and (for odd mantissas) necessary condition for
  mant * 2^ex to be a member of lat.  Returns (goal, hint_terms)."""
  if lat.kind == "float":
    return z3.BoolVal(True), []
  if lat.kind == "fixed":
    sh = ex + lat.f
    # The code of the value in the target format is mant * 2^sh, an integer because sh >= 0
    # (witness argument).  Its range  lo <= mant * 2^sh <= hi  with lo = -s*2^n, hi = 2^n - 1
    # is stated after multiplying through by 2^-sh > 0 (2^a * 2^b = 2^(a+b)), which keeps the
    # clause linear in mant:   -s * 2^(n-sh) <= mant <= 2^(n-sh) - 2^(-sh).
    m = z3.ToReal(mant)
    g = z3.Or(mant == 0,
              z3.And(sh >= 0,
                     -z3.ToReal(lat.s) * I.POW2(lat.n - sh) <= m,
                     m <= I.POW2(lat.n - sh) - I.POW2(-sh)))
    zero_ok = z3.And(lat.lo <= 0, 0 <= lat.hi)
    g = z3.And(z3.Implies(mant == 0, zero_ok), g)
    return g, [sh, lat.n, lat.n - sh, -sh]
  if lat.kind == "po2":
    g = z3.And(z3.Or(mant == 1, z3.And(lat.signed, mant == -1)),
               lat.emin <= ex, ex <= lat.emax)
    return g, []
  if lat.kind == "finite":
    g = z3.And(ex == 0, z3.Or(*[mant == c for c in lat.values]))
    return g, []
  raise Unsupported("fits in %s" % lat.kind)


# ------------------------------------------------- value ranges (sums)
def value_range(lat):
  """(lo, hi, res): every value of lat lies in [lo, hi] (reals, both attained)
  and is an integer multiple of 2^res (res attained by some odd multiple)."""
  if lat.kind == "fixed":
    i = lat.n - lat.f
    return (-z3.ToReal(lat.s) * I.POW2(i), I.POW2(i) - I.POW2(-lat.f), -lat.f)
  if lat.kind == "po2":
    hi = I.POW2(lat.emax)
    lo = z3.If(lat.signed, -hi, I.POW2(lat.emin))
    return (lo, hi, lat.emin)
  if lat.kind == "finite":
    return (z3.RealVal(min(lat.values)), z3.RealVal(max(lat.values)), z3.IntVal(0))
  raise Unsupported("value_range of %s" % lat.kind)


def range_fits(vlo, vhi, res, lat):
  """Every real in [vlo, vhi] that is a multiple of 2^res is a member of lat
  (sufficient; necessary when the interval ends and an odd multiple occur).
  Returns (resolution_goal, range_goal, hints)."""
  if lat.kind == "float":
    return z3.BoolVal(True), z3.BoolVal(True), []
  if lat.kind == "fixed":
    i = lat.n - lat.f
    res_ok = res + lat.f >= 0
    # membership = on the grid (res_ok) and -s*2^i <= v < 2^i ; the strict upper bound together
    # with the grid gives v <= 2^i - 2^-f
    rng = z3.And(-z3.ToReal(lat.s) * I.POW2(i) <= vlo, vhi < I.POW2(i))
    return res_ok, rng, [i, -lat.f, lat.n]
  raise Unsupported("range_fits into %s" % lat.kind)
