"""C01 / C02 - fixed-point quantizers: representable codes, nearest-code projection.

The module serves both properties (cases(tier, prop)); c02.py re-exports it.

Functions under contract (qkeras/quantizers.py):
  quantized_bits.__call__ (alpha None / constant), .max, .min
  quantized_relu.__call__, .max, .min
  quantized_linear.__call__, ._scale_clip_and_round, .get_clip_bounds, .max, .min
  quantized_tanh.__call__, quantized_sigmoid.__call__, .max, .min
  _round_through (inlined), BaseQuantizer.build

Spec (DESIGN 3, Fx): n non-sign bits, step = 2^(integer - n), code k = clip(rnd(p), lo, hi) with
p = surrogate(x)/step.  rnd is any function with |rnd(p) - p| <= 1/2 (ties either way).

C01 clauses: code (ret = scale*step*k with lo <= k <= hi, k integer), enclosed (min() <= ret <= max())
C02 clauses: code (same equality: the output IS the nearest/saturated code), nearest, sat_lo, sat_hi
             (facts about that code), mono (two runs), idem (run on own output)
"""
import z3

from pyvc.contract import Case, Scen, run_call
from pyvc.values import *  # noqa
from pyvc import interp as I
from . import quant as Q
from .quant import P, RND, R, clipz

TGT = Q.QF

ASSUME = ["A1 float32 arithmetic treated as real arithmetic (exact under the property's 2^24-step premise)",
          "tf.round modelled as rnd with |rnd(p)-p| <= 1/2 (ties unspecified)",
          "A3 CPython semantics as encoded by pyvc.interp"]


def half():
  return z3.RealVal("1/2")


# ------------------------------------------------------------ quantized_bits
def qbits_setup(ip, s, kn, sym, alpha_kind, use_ste=True, f=1.0, stochastic=False):
  bits, integer = z3.Int("bits"), z3.Int("integer")
  s.vars.update({"bits": bits, "integer": integer})
  ip.assume(z3.And(bits >= 1, integer >= 0, bits - int(kn) >= 0))
  alpha = None
  scale = z3.RealVal(1)
  if alpha_kind == "const":
    a = z3.Real("alpha")
    s.vars["alpha"] = a
    ip.assume(a > 0)
    alpha = SNum(a, "float")
    scale = a
  q = ip.call(Q.qcls(ip, "quantized_bits"), [SNum(bits), SNum(integer), sym, kn, alpha, stochastic],
              {"use_ste": use_ste, "qnoise_factor": f})
  n = bits - int(kn)
  s.replay = {"class": "quantized_bits",
              "kwargs": {"bits": bits, "integer": integer, "symmetric": sym, "keep_negative": bool(kn),
                         "alpha": (None if alpha is None else alpha.e), "use_stochastic_rounding": stochastic,
                         "use_ste": use_ste, "qnoise_factor": f}}
  return q, bits, integer, n, scale


def qbits_spec(x, n, integer, kn, sym, scale):
  """(k, p, lo, hi, value) of the spec for n > 0."""
  p = x * P(n - integer)
  lo = -int(kn) * (I.IPOW2(n) - int(sym))
  hi = I.IPOW2(n) - 1
  k = clipz(RND(p), lo, hi)
  return k, p, lo, hi, scale * z3.ToReal(k) * P(integer - n)


def qbits_scenario(prop, kn, sym, alpha_kind, use_ste):
  def scenario(ip):
    s = Scen()
    q, bits, integer, n, scale = qbits_setup(ip, s, kn, sym, alpha_kind, use_ste)
    x = Q.tensor("x")
    s.vars["x"] = x.e
    r = Q.call(ip, q, x)
    s.claim("no_raise", r[0] == "return")
    if r[0] != "return":
      s.info["raised"] = str(r[1])
      return s
    ret = Q.value(r)
    s.hints.extend([n, integer, n - integer, integer - n])
    npos = ip.truth(SBool(n > 0))
    if npos:
      k, p, lo, hi, spec = qbits_spec(x.e, n, integer, kn, sym, scale)
      rnd_axiom(ip, p)
      s.vars.update({"p": p, "k": k})
      s.replay["format"] = {"unit": scale * P(integer - n), "lo": R(lo), "hi": R(hi), "surrogate": "identity"}
      s.claim("code", ret == spec)
      if prop == "C02":
        kr = z3.ToReal(k)
        s.claim("nearest", z3.Implies(z3.And(z3.ToReal(lo) <= p, p <= z3.ToReal(hi)),
                                      z3.And(kr - p <= half(), p - kr <= half())))
        s.claim("sat_lo", z3.Implies(p < z3.ToReal(lo), k == lo))
        s.claim("sat_hi", z3.Implies(p > z3.ToReal(hi), k == hi))
    else:
      vals = [scale, -scale] if kn else [scale, z3.RealVal(0)]
      s.claim("code", z3.Or(*[ret == v for v in vals]))
      if prop == "C02":
        # 1-bit sign format: non-negative inputs map to the upper code, negatives to the lower
        s.claim("nearest", z3.If(x.e >= 0, ret == vals[0], ret == vals[1]))
    if prop == "C01":
      mx = Q.method(ip, q, "max")
      mn = Q.method(ip, q, "min")
      if mx[0] == "return" and mn[0] == "return":
        # composed with the `code` clause (proved separately): under ret == spec value
        hyp = (ret == spec) if npos else z3.BoolVal(True)
        s.claim("enclosed", z3.Implies(hyp, z3.And(Q.num_value(mn[1]) <= ret, ret <= Q.num_value(mx[1]))))
        if npos:
          s.mono = [(z3.ToReal(k), z3.ToReal(hi), P(integer - n)), (z3.ToReal(lo), z3.ToReal(k), P(integer - n))]
      else:
        s.claim("enclosed", False)
    if prop == "C02":
      # monotone: second run on x2 >= x
      x2 = Q.tensor("x2")
      s.vars["x2"] = x2.e
      r2 = Q.call(ip, q, x2)
      if r2[0] == "return":
        ret2 = Q.value(r2)
        if npos:
          p2 = x2.e * P(n - integer)
          rnd_axiom(ip, p2)
          k2 = clipz(RND(p2), lo, hi)
          s.mono.extend([(z3.ToReal(k), z3.ToReal(k2), scale * P(integer - n)), (x.e, x2.e, P(n - integer))])
        s.claim("mono", z3.Implies(x.e <= x2.e, ret <= ret2))
      else:
        s.claim("mono", False)
      # idempotent: q(q(x)) == q(x)  (claimed by the property for data-independent scale;
      # for a constant alpha this is the documented finding)
      r3 = Q.call(ip, q, SNum(ret, "tensor", None, {"shape": (1,)}))
      if r3[0] == "return":
        s.claim("idem", Q.value(r3) == ret)
      else:
        s.claim("idem", False)
    return s
  return scenario


# ------------------------------------------------- generic clause generator
def rnd_axiom(ip, p):
  from pyvc import lib as L
  ip.assume(L.rnd_axiom_formula(p))


def generic_scenario(prop, build, idem=True, enclosed=True):
  """build(ip, s) -> (q, spec) where spec(x_expr) -> dict(value=, k=, p=, lo=, hi=, unit=, hints=[...])
  describing the format's code for input x: value = unit * k, k = clip(rnd(p), lo, hi)."""
  def scenario(ip):
    s = Scen()
    q, spec = build(ip, s)
    x = Q.tensor("x")
    s.vars["x"] = x.e
    r = Q.call(ip, q, x)
    s.claim("no_raise", r[0] == "return")
    if r[0] != "return":
      s.info["raised"] = str(r[1])
      return s
    ret = Q.value(r)
    sp = spec(ip, x.e)
    s.hints.extend(sp.get("hints", []))
    s.cong.extend(sp.get("cong", []))
    if "int_code" in sp:
      # the smallest leaky code -slope*2^n must itself be an integer code
      s.claim("int_code", sp["int_code"])
    s.vars.update({"p": sp["p"], "k": sp["k"]})
    s.claim("code", ret == sp["value"])
    k, p, lo, hi = sp["k"], sp["p"], sp["lo"], sp["hi"]
    if s.replay is not None:
      fmt = dict(s.replay.get("format", {}))
      fmt.update({"unit": sp["unit"], "lo": R(lo), "hi": R(hi), "surrogate": sp.get("surrogate", "identity")})
      s.replay["format"] = fmt
    kr = R(k)
    if prop == "C02":
      s.claim("nearest", z3.Implies(z3.And(R(lo) <= p, p <= R(hi)),
                                    z3.And(kr - p <= half(), p - kr <= half())))
      if "sat_lo" not in sp.get("skip", ()):
        s.claim("sat_lo", z3.Implies(p < R(lo), kr == R(lo)))
      s.claim("sat_hi", z3.Implies(p > R(hi), kr == R(hi)))
      x2 = Q.tensor("x2")
      s.vars["x2"] = x2.e
      r2 = Q.call(ip, q, x2)
      if r2[0] == "return":
        sp2 = spec(ip, x2.e)
        s.cong.extend(sp2.get("cong", []))
        s.mono.extend([(kr, R(sp2["k"]), sp["unit"]), (R(sp2["k"]), kr, sp["unit"])])
        s.mono.extend(sp.get("mono2", lambda a, b: [])(x.e, x2.e))
        s.claim("mono", z3.Implies(x.e <= x2.e, ret <= Q.value(r2)))
      else:
        s.claim("mono", False)
      if idem:
        r3 = Q.call(ip, q, SNum(ret, "tensor", None, {"shape": (1,)}))
        s.claim("idem", r3[0] == "return" and Q.value(r3) == ret)
    if prop == "C01" and enclosed:
      mx = Q.method(ip, q, "max")
      mn = Q.method(ip, q, "min")
      if mx[0] == "return" and mn[0] == "return":
        s.mono.extend([(kr, R(hi), sp["unit"]), (R(lo), kr, sp["unit"])])
        s.claim("enclosed", z3.Implies(ret == sp["value"],
                                       z3.And(Q.num_value(mn[1]) <= ret, ret <= Q.num_value(mx[1]))))
      else:
        s.info["raised"] = "max/min raised: %s %s" % (mx[1], mn[1])
        s.claim("enclosed", False)
    return s
  return scenario


# ------------------------------------------------------------ quantized_relu
def qrelu_build(slope, use_ste):
  def build(ip, s):
    bits, integer = z3.Int("bits"), z3.Int("integer")
    s.vars.update({"bits": bits, "integer": integer})
    sgn = 1 if slope else 0
    ip.assume(z3.And(bits - sgn >= 1, integer >= 0))
    q = ip.call(Q.qcls(ip, "quantized_relu"), [SNum(bits), SNum(integer), 0, slope], {"use_ste": use_ste})
    n = bits - sgn
    s.replay = {"class": "quantized_relu", "kwargs": {"bits": bits, "integer": integer, "use_sigmoid": 0,
                                                      "negative_slope": slope, "use_ste": use_ste},
                "format": {"step": P(integer - n), "probe": -4 * P(integer)}}

    def spec(ip_, x):
      p = x * P(n - integer)
      rnd_axiom(ip_, p)
      hi = I.IPOW2(n) - 1
      kpos = clipz(RND(p), z3.IntVal(0), hi)
      hints = [n, integer, n - integer, integer - n]
      if not slope:
        return dict(value=z3.ToReal(kpos) * P(integer - n), k=kpos, p=p, lo=z3.IntVal(0), hi=hi,
                    unit=P(integer - n), hints=hints, surrogate="identity")
      sl = zreal(slope)
      ps = I.mul_norm(p, sl)
      rnd_axiom(ip_, ps)
      lo = -sl * z3.ToReal(I.IPOW2(n))          # -slope * 2^n  (an integer: slope is 2^-j, j <= n assumed)
      kneg = clipz(z3.ToReal(RND(ps)), lo, z3.RealVal(0))
      k = z3.ToReal(kpos) + kneg
      # the leaky surrogate in code units: p for x >= 0, slope*p for x < 0
      psur = z3.If(x >= 0, p, ps)
      j = int(round(-__import__("math").log2(slope)))
      return dict(value=k * P(integer - n), k=k, p=psur, lo=lo, hi=hi, unit=P(integer - n),
                  hints=hints + [n - integer - j, n - 1, n - 2],
                  cong=[(x, P(n - integer), z3.RealVal(2 ** j) * P(n - integer - j))],
                  int_code=(n >= j), skip=("sat_lo",), surrogate="leaky:%s" % slope)
    return q, spec
  return build


# ---------------------------------------------------------- quantized_linear
def qlinear_build(kn, sym, alpha_kind):
  def build(ip, s):
    bits, integer = z3.Int("bits"), z3.Int("integer")
    s.vars.update({"bits": bits, "integer": integer})
    ip.assume(z3.And(bits - int(kn) >= 1, integer >= 0))
    alpha, a = None, z3.RealVal(1)
    if alpha_kind == "const":
      a = z3.Real("alpha")
      s.vars["alpha"] = a
      ip.assume(a > 0)
      alpha = SNum(a, "float")
    q = ip.call(Q.qcls(ip, "quantized_linear"), [SNum(bits), SNum(integer), sym, kn, alpha], {})
    n = bits - int(kn)
    s.replay = {"class": "quantized_linear", "kwargs": {"bits": bits, "integer": integer, "symmetric": sym,
                                                        "keep_negative": bool(kn), "alpha": None if alpha is None else a}}

    def spec(ip_, x):
      unit = a * P(integer - n)
      p = x * P(n - integer) / a if alpha is not None else x * P(n - integer)
      rnd_axiom(ip_, p)
      lo = -int(kn) * (I.IPOW2(n) - int(sym))
      hi = I.IPOW2(n) - 1
      k = clipz(RND(p), lo, hi)
      return dict(value=unit * z3.ToReal(k), k=k, p=p, lo=lo, hi=hi, unit=unit,
                  hints=[n, integer, n - integer, integer - n])
    return q, spec
  return build


# ------------------------------------------------------ tanh / sigmoid
def qtanh_build(sym, real):
  def build(ip, s):
    bits = z3.Int("bits")
    s.vars["bits"] = bits
    ip.assume(bits >= 2)
    q = ip.call(Q.qcls(ip, "quantized_tanh"), [SNum(bits), False, sym, real], {})
    n = bits - 1
    s.replay = {"class": "quantized_tanh", "kwargs": {"bits": bits, "symmetric": bool(sym), "use_real_tanh": real}}

    def spec(ip_, x):
      if real:
        t = z3.Function("tanh", z3.RealSort(), z3.RealSort())(x)
      else:
        t = 2 * clipz(z3.RealVal("1/2") * x + z3.RealVal("1/2"), z3.RealVal(0), z3.RealVal(1)) - 1
      p = t * z3.ToReal(I.IPOW2(n))
      rnd_axiom(ip_, p)
      lo = -I.IPOW2(n) + int(sym)
      hi = I.IPOW2(n) - 1
      k = clipz(RND(p), lo, hi)
      out = dict(value=z3.ToReal(k) * P(-n), k=k, p=p, lo=lo, hi=hi, unit=P(-n), hints=[n, -n],
                 surrogate="real_tanh" if real else "hard_tanh")
      if real:
        f = z3.Function("tanh", z3.RealSort(), z3.RealSort())
        out["mono2"] = lambda a, b: []
        out["surrogate_mono"] = f
      return out
    return q, spec
  return build


def qsigmoid_build(sym, real):
  def build(ip, s):
    bits = z3.Int("bits")
    s.vars["bits"] = bits
    ip.assume(bits >= 1)
    q = ip.call(Q.qcls(ip, "quantized_sigmoid"), [SNum(bits), sym, real], {})
    n = bits
    s.replay = {"class": "quantized_sigmoid", "kwargs": {"bits": bits, "symmetric": bool(sym), "use_real_sigmoid": real}}

    def spec(ip_, x):
      if real:
        t = z3.Function("sigmoid", z3.RealSort(), z3.RealSort())(x)
      else:
        t = clipz(z3.RealVal("1/2") * x + z3.RealVal("1/2"), z3.RealVal(0), z3.RealVal(1))
      p = t * z3.ToReal(I.IPOW2(n))
      rnd_axiom(ip_, p)
      lo = z3.IntVal(int(sym))
      hi = I.IPOW2(n) - 1
      k = clipz(RND(p), lo, hi)
      return dict(value=z3.ToReal(k) * P(-n), k=k, p=p, lo=lo, hi=hi, unit=P(-n), hints=[n, -n],
                  surrogate="real_sigmoid" if real else "hard_sigmoid")
    return q, spec
  return build


def range_scenario(cls, variant=None):
  """q.range() enumerates exactly the code set of the format: with the array read through ONE generic element
  (index idx, lo <= idx < hi, see pyvc/lib.generic_array) the clauses are
    sound      the element is step * k for an integer code k inside [lo_code, hi_code]
    complete   every code k of the format is the element at an explicitly given index inside the array
    injective  two indexes with equal elements are equal (so the array has no duplicates and its length is the number of codes)
  together with C01 `code` (every output is such a code) and C02 `idem` (every code is an output) this is
  "range() enumerates exactly the reachable set"."""
  def scenario(ip):
    s = Scen()
    bits, integer = z3.Int("bits"), z3.Int("integer")
    s.vars.update({"bits": bits, "integer": integer})
    ip.assume(z3.And(bits >= 1, integer >= 0))
    ip.generic_indexes, ip.concat_parts = [], []
    if cls == "quantized_bits":
      ip.assume(bits >= 2)
      q = ip.call(Q.qcls(ip, cls), [SNum(bits), SNum(integer), 0, 1], {})
      n = bits - 1
      lo, hi = -I.IPOW2(n), I.IPOW2(n) - 1
      step = P(integer - n)
      s.hints.extend([n, bits, integer - n, -bits + integer + 1])
    elif cls == "quantized_relu":
      q = ip.call(Q.qcls(ip, cls), [SNum(bits), SNum(integer)], {})
      lo, hi = z3.IntVal(0), I.IPOW2(bits) - 1
      step = P(integer - bits)
      s.hints.extend([bits, integer - bits, -bits + integer])
    else:
      kn, sym = variant
      ip.assume(bits - kn >= 1)
      q = ip.call(Q.qcls(ip, cls), [SNum(bits), SNum(integer), sym, kn], {})
      n = bits - kn
      lo, hi = (-I.IPOW2(n) + sym if kn else z3.IntVal(0)), I.IPOW2(n) - 1
      step = P(integer - n)
      s.hints.extend([n, integer - n])
    r = run_call(ip, ip.getattr(q, "range"), [])
    s.claim("no_raise", r[0] == "return")
    if r[0] != "return":
      s.info["raised"] = str(r[1])
      return s
    if not ip.generic_indexes:
      s.claim("sound", False)
      s.info["raised"] = "range() did not build its result from an index array"
      return s
    v = Q.num_value(r[1])
    if cls == "quantized_linear":
      piece = ip.concat_parts[-1] if ip.concat_parts else 0
      idx, ilo, ihi = ip.generic_indexes[piece]
    else:
      idx, ilo, ihi = ip.generic_indexes[0]
    s.vars["idx"] = idx
    k = z3.Int("k")
    s.vars["k"] = k
    if cls == "quantized_bits":
      code_of = z3.If(idx >= I.IPOW2(n), idx - I.IPOW2(bits), idx)
      index_of = z3.If(k >= 0, k, k + I.IPOW2(bits))
      dom = z3.And(lo <= k, k <= hi)
      s.hints.extend([bits, n])
      ip.assume(I.IPOW2(bits) == 2 * I.IPOW2(n))
    elif cls == "quantized_relu":
      code_of, index_of, dom = idx, k, z3.And(lo <= k, k <= hi)
    else:
      code_of, index_of = idx, k
      dom = z3.And(0 <= k, k <= hi) if piece == 0 else z3.And(lo <= k, k <= -1)
    s.claim("sound", z3.And(v == step * z3.ToReal(code_of), lo <= code_of, code_of <= hi))
    at = lambda i: z3.substitute(v, (idx, i))
    s.claim("complete", z3.Implies(dom, z3.And(ilo <= index_of, index_of < ihi, at(index_of) == step * z3.ToReal(k))))
    j = z3.Int("idx2")
    s.vars["idx2"] = j
    s.claim("injective", z3.Implies(z3.And(ilo <= j, j < ihi, at(j) == v), j == idx))
    s.claim("length", (ihi - ilo) == (hi - lo + 1) if cls != "quantized_linear" else
            ((ihi - ilo) == hi + 1 if piece == 0 else (ihi - ilo) == -lo))
    return s
  return scenario


def bounds(vars_):
  cs = []
  for k, v in vars_.items():
    if k in ("bits",):
      cs.append(v <= 5)
    elif k in ("integer",):
      cs.append(v <= 4)
  return cs


def cases(tier, prop="C01"):
  out = []
  for kn in (True, False):
    for sym in (0, 1):
      for ak in ("none", "const"):
        for ste in (True, False):
          name = "kn%d_sym%d_alpha%s_%s" % (kn, sym, ak, "ste" if ste else "noste")
          out.append(Case(prop, TGT + "quantized_bits.__call__", name,
                          qbits_scenario(prop, kn, sym, ak, ste), bounds=bounds,
                          replay_kind="q_fixed", assumptions=ASSUME, lo=-12, hi=12))
  def add(target, name, build, precise=False, **kw):
    out.append(Case(prop, TGT + target, name, generic_scenario(prop, build, **kw), bounds=bounds,
                    replay_kind="q_fixed", assumptions=ASSUME + (["tf.round rounds ties to even (modelled exactly here)"] if precise else []),
                    lo=-12, hi=12, precise_ties=precise))
  for slope in (0.0, 0.25):
    for ste in (True, False):
      add("quantized_relu.__call__", "slope%s_%s" % (str(slope).replace(".", "p"), "ste" if ste else "noste"),
          qrelu_build(slope, ste), idem=(slope == 0.0))
  for kn in (True, False):
    for sym in (0, 1):
      for ak in ("none", "const"):
        add("quantized_linear.__call__", "kn%d_sym%d_alpha%s" % (kn, sym, ak), qlinear_build(kn, sym, ak))
  for sym in (0, 1):
    for real in (False, True):
      add("quantized_tanh.__call__", "sym%d_%s" % (sym, "real" if real else "hard"), qtanh_build(sym, real), idem=False)
      add("quantized_sigmoid.__call__", "sym%d_%s" % (sym, "real" if real else "hard"), qsigmoid_build(sym, real), idem=False)
  if prop == "C01":
    out.append(Case(prop, TGT + "quantized_bits.range", "enumeration", range_scenario("quantized_bits"), bounds=bounds,
                    replay_kind="c01_range", assumptions=ASSUME, lo=-12, hi=12))
    out.append(Case(prop, TGT + "quantized_relu.range", "enumeration", range_scenario("quantized_relu"), bounds=bounds,
                    replay_kind="c01_range", assumptions=ASSUME, lo=-12, hi=12))
    for kn in (1, 0):
      for sym in (0, 1):
        out.append(Case(prop, TGT + "quantized_linear.range", "enumeration_kn%d_sym%d" % (kn, sym),
                        range_scenario("quantized_linear", (kn, sym)), bounds=bounds, replay_kind="c01_range",
                        assumptions=ASSUME, lo=-12, hi=12))
  return out
