"""C01 / C02 - fixed-point quantizers: representable codes, nearest-code projection.

The module serves both properties (cases(tier, prop)); c02.py re-exports it.

Functions under contract (qkeras/quantizers.py):
  quantized_bits.__call__ (alpha None / constant), .max, .min
  quantized_relu.__call__, .max, .min
  quantized_linear.__call__, ._scale_clip_and_round, .get_clip_bounds, .max, .min
  quantized_tanh.__call__, quantized_sigmoid.__call__, .max, .min
  _round_through (inlined), BaseQuantizer.build

Spec (DESIGN 3, Fx): n non-sign bits, step = 2^(integer - n), code k = clip(rnd(p), lo, hi) with
p = surrogate(x)/step.  rnd is any function with |rnd(p) - p| <= 1/2 (ties either way).

C01 clauses: code (ret = scale*step*k with lo <= k <= hi, k integer), enclosed (min() <= ret <= max())
C02 clauses: code (same equality: the output IS the nearest/saturated code), nearest, sat_lo, sat_hi
             (facts about that code), mono (two runs), idem (run on own output)
"""
import z3

from pyvc.contract import Case, Scen, run_call
from pyvc.values import *  # noqa
from pyvc import interp as I
from . import quant as Q
from .quant import P, RND, R, clipz

TGT = Q.QF

ASSUME = ["A1 float32 arithmetic treated as real arithmetic (exact under the property's 2^24-step premise)",
          "tf.round modelled as rnd with |rnd(p)-p| <= 1/2 (ties unspecified)",
          "A3 CPython semantics as encoded by pyvc.interp"]


def half():
  return z3.RealVal("1/2")


# ------------------------------------------------------------ quantized_bits
def qbits_setup(ip, s, kn, sym, alpha_kind, use_ste=True, f=1.0, stochastic=False):
  bits, integer = z3.Int("bits"), z3.Int("integer")
  s.vars.update({"bits": bits, "integer": integer})
  ip.assume(z3.And(bits >= 1, integer >= 0, bits - int(kn) >= 0))
  alpha = None
  scale = z3.RealVal(1)
  if alpha_kind == "const":
    a = z3.Real("alpha")
    s.vars["alpha"] = a
    ip.assume(a > 0)
    alpha = SNum(a, "float")
    scale = a
  q = ip.call(Q.qcls(ip, "quantized_bits"), [SNum(bits), SNum(integer), sym, kn, alpha, stochastic],
              {"use_ste": use_ste, "qnoise_factor": f})
  n = bits - int(kn)
  s.replay = {"class": "quantized_bits",
              "kwargs": {"bits": bits, "integer": integer, "symmetric": sym, "keep_negative": bool(kn),
                         "alpha": (None if alpha is None else alpha.e), "use_stochastic_rounding": stochastic,
                         "use_ste": use_ste, "qnoise_factor": f}}
  return q, bits, integer, n, scale


def qbits_spec(x, n, integer, kn, sym, scale):
  """(k, p, lo, hi, value) of the spec for n > 0."""
  p = x * P(n - integer)
  lo = -int(kn) * (I.IPOW2(n) - int(sym))
  hi = I.IPOW2(n) - 1
  k = clipz(RND(p), lo, hi)
  return k, p, lo, hi, scale * z3.ToReal(k) * P(integer - n)


def qbits_scenario(prop, kn, sym, alpha_kind, use_ste):
  def scenario(ip):
    s = Scen()
    q, bits, integer, n, scale = qbits_setup(ip, s, kn, sym, alpha_kind, use_ste)
    x = Q.tensor("x")
    s.vars["x"] = x.e
    r = Q.call(ip, q, x)
    s.claim("no_raise", r[0] == "return")
    if r[0] != "return":
      s.info["raised"] = str(r[1])
      return s
    ret = Q.value(r)
    s.hints.extend([n, integer, n - integer, integer - n])
    npos = ip.truth(SBool(n > 0))
    if npos:
      k, p, lo, hi, spec = qbits_spec(x.e, n, integer, kn, sym, scale)
      ip.assume(z3.And(z3.ToReal(RND(p)) - p <= half(), p - z3.ToReal(RND(p)) <= half()))
      s.vars.update({"p": p, "k": k})
      s.claim("code", ret == spec)
      if prop == "C02":
        kr = z3.ToReal(k)
        s.claim("nearest", z3.Implies(z3.And(z3.ToReal(lo) <= p, p <= z3.ToReal(hi)),
                                      z3.And(kr - p <= half(), p - kr <= half())))
        s.claim("sat_lo", z3.Implies(p < z3.ToReal(lo), k == lo))
        s.claim("sat_hi", z3.Implies(p > z3.ToReal(hi), k == hi))
    else:
      vals = [scale, -scale] if kn else [scale, z3.RealVal(0)]
      s.claim("code", z3.Or(*[ret == v for v in vals]))
      if prop == "C02":
        # 1-bit sign format: non-negative inputs map to the upper code, negatives to the lower
        s.claim("nearest", z3.If(x.e >= 0, ret == vals[0], ret == vals[1]))
    if prop == "C01":
      mx = Q.method(ip, q, "max")
      mn = Q.method(ip, q, "min")
      if mx[0] == "return" and mn[0] == "return":
        s.claim("enclosed", z3.And(Q.num_value(mn[1]) <= ret, ret <= Q.num_value(mx[1])))
        if npos:
          s.mono = [(z3.ToReal(k), z3.ToReal(hi), P(integer - n)), (z3.ToReal(lo), z3.ToReal(k), P(integer - n))]
      else:
        s.claim("enclosed", False)
    if prop == "C02":
      # monotone: second run on x2 >= x
      x2 = Q.tensor("x2")
      s.vars["x2"] = x2.e
      r2 = Q.call(ip, q, x2)
      if r2[0] == "return":
        ret2 = Q.value(r2)
        if npos:
          p2 = x2.e * P(n - integer)
          ip.assume(z3.And(z3.ToReal(RND(p2)) - p2 <= half(), p2 - z3.ToReal(RND(p2)) <= half()))
          k2 = clipz(RND(p2), lo, hi)
          s.mono.extend([(z3.ToReal(k), z3.ToReal(k2), scale * P(integer - n)), (x.e, x2.e, P(n - integer))])
        s.claim("mono", z3.Implies(x.e <= x2.e, ret <= ret2))
      else:
        s.claim("mono", False)
      # idempotent: q(q(x)) == q(x)  (claimed by the property for data-independent scale;
      # for a constant alpha this is the documented finding)
      r3 = Q.call(ip, q, SNum(ret, "tensor", None, {"shape": (1,)}))
      if r3[0] == "return":
        s.claim("idem", Q.value(r3) == ret)
      else:
        s.claim("idem", False)
    return s
  return scenario


def bounds(vars_):
  cs = []
  for k, v in vars_.items():
    if k in ("bits",):
      cs.append(v <= 5)
    elif k in ("integer",):
      cs.append(v <= 4)
  return cs


def cases(tier, prop="C01"):
  out = []
  for kn in (True, False):
    for sym in (0, 1):
      for ak in ("none", "const"):
        for ste in (True, False):
          name = "kn%d_sym%d_alpha%s_%s" % (kn, sym, ak, "ste" if ste else "noste")
          out.append(Case(prop, TGT + "quantized_bits.__call__", name,
                          qbits_scenario(prop, kn, sym, ak, ste), bounds=bounds,
                          replay_kind="q_fixed", assumptions=ASSUME, lo=-12, hi=12))
  return out
