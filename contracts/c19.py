"""C19 - qtools operation counts are the true MAC counts and energy totals add up.

Functions under contract:
  qtools_util.get_operation_count (per class branch), is_merge_layers, is_shape_alternation_layers
  qenergy.memory_read_energy / memory_write_energy (non-negative, zero for 'fixed' placement)
  run_qtools.QTools.extract_energy_sum / extract_energy_profile (sum of the selected entries)
Spec macs(kind, geometry): number of scalar multiply(-accumulate) operations for ONE input sample
  conv2d        H_o*W_o*C_o*K_h*K_w*(C_i/groups)          conv1d   T_o*C_o*K*C_i
  conv2d_transp H_i*W_i*C_i*K_h*K_w*C_o                    depthwise H_o*W_o*K_h*K_w*C_i*depth_multiplier
  dense         N_i*N_o                                    avgpool  H_o*W_o*C*P_h*P_w ; global: H*W*C
  merge/activation/batch-norm: one operation per element
Assumed (K4): layer.compute_output_shape returns the Keras output shape (symbolic positive dims here),
layer.get_weights()[0].shape is the Keras kernel shape (K_h, K_w, C_i/groups, C_o).
"""
import z3

from pyvc.contract import Case, Scen, run_call
from pyvc.values import *  # noqa
from pyvc import interp as I
from . import quant as Q

PROP = "C19"
QU = "qkeras/qtools/qtools_util.py::"
ASSUME = ["K4: compute_output_shape / get_weights shapes are those of the stock Keras layer",
          "closed-form MAC counts equal the loop-nest counts (standard identities)"]


def ints(ip, s, names, lo=1):
  out = []
  for n in names:
    v = z3.Int(n)
    s.vars[n] = v
    ip.assume(z3.And(v >= lo, v <= 4096))
    out.append(v)
  return out


def layer_stub(name, out_shape, wshape=None, **attrs):
  cls = ExtClass(name)
  a = {"name": "layer_" + name.lower()}
  a.update(attrs)
  a["compute_output_shape"] = Builtin("compute_output_shape", lambda ip, shp: out_shape)
  if wshape is not None:
    w = Obj(ExtClass("ndarray"), {"shape": wshape})
    a["get_weights"] = Builtin("get_weights", lambda ip: [w])
  return Obj(cls, a, label=name)


def count_scenario(kind):
  def scenario(ip):
    s = Scen()
    f = ip.find(QU + "get_operation_count")
    S = lambda v: SNum(v, "int")

    def geo(n=2):
      # the layer's own hyper-parameters, symbolic: geometry enters the count only through the output shape (a dilated or
      # strided kernel still has Kh*Kw taps per output element), so the result must not depend on them (seed c19-8)
      d = ints(ip, s, ["dilation_%d" % i for i in range(n)] + ["stride_%d" % i for i in range(n)])
      return {"dilation_rate": tuple(S(v) for v in d[:n]), "strides": tuple(S(v) for v in d[n:]), "padding": "same"}
    if kind in ("QConv2D", "Conv2D", "QConv2DBatchnorm"):
      hi, wi, cig, g, ho, wo, co, kh, kw = ints(ip, s, ["Hi", "Wi", "Cig", "groups", "Ho", "Wo", "Co", "Kh", "Kw"])
      ci = cig * g
      layer = layer_stub(kind, (None, S(ho), S(wo), S(co)), (S(kh), S(kw), S(cig), S(co)), groups=S(g), **geo())
      r = run_call(ip, f, [layer, (None, S(hi), S(wi), SNum(ci, "int"))])
      spec = ho * wo * co * kh * kw * cig
    elif kind in ("QConv2DTranspose", "Conv2DTranspose"):
      hi, wi, ci, ho, wo, co, kh, kw = ints(ip, s, ["Hi", "Wi", "Ci", "Ho", "Wo", "Co", "Kh", "Kw"])
      layer = layer_stub(kind, (None, S(ho), S(wo), S(co)), (S(kh), S(kw), S(co), S(ci)), **geo())
      r = run_call(ip, f, [layer, (None, S(hi), S(wi), S(ci))])
      spec = hi * wi * ci * kh * kw * co
    elif kind in ("QConv1D", "Conv1D"):
      ti, ci, to, co, k = ints(ip, s, ["Ti", "Ci", "To", "Co", "K"])
      layer = layer_stub(kind, (None, S(to), S(co)), (S(k), S(ci), S(co)), **geo(1))
      r = run_call(ip, f, [layer, (None, S(ti), S(ci))])
      spec = to * co * k * ci
    elif kind in ("QDepthwiseConv2D", "DepthwiseConv2D"):
      hi, wi, ci, dm, ho, wo, kh, kw = ints(ip, s, ["Hi", "Wi", "Ci", "depth_multiplier", "Ho", "Wo", "Kh", "Kw"])
      layer = layer_stub(kind, (None, S(ho), S(wo), SNum(ci * dm, "int")), (S(kh), S(kw), S(ci), S(dm)), **geo())
      r = run_call(ip, f, [layer, (None, S(hi), S(wi), S(ci))])
      spec = ho * wo * kh * kw * ci * dm
    elif kind in ("QDense", "Dense"):
      ni, no = ints(ip, s, ["Ni", "No"])
      layer = layer_stub(kind, (None, S(no)))
      r = run_call(ip, f, [layer, (None, S(ni))])
      spec = ni * no
    elif kind == "Dense_se":
      ni, no = ints(ip, s, ["Ni", "No"])
      layer = layer_stub("Dense", (None, 1, 1, S(no)))
      r = run_call(ip, f, [layer, (None, 1, 1, S(ni))])
      spec = ni * no
    elif kind in ("AveragePooling2D", "AvgPool2D"):
      hi, wi, c, ho, wo, ph, pw = ints(ip, s, ["Hi", "Wi", "C", "Ho", "Wo", "Ph", "Pw"])
      layer = layer_stub(kind, (None, S(ho), S(wo), S(c)), pool_size=(S(ph), S(pw)))
      r = run_call(ip, f, [layer, (None, S(hi), S(wi), S(c))])
      spec = ho * wo * c * ph * pw
    elif kind in ("GlobalAveragePooling2D", "QGlobalAveragePooling2D", "GlobalAvgPool2D"):
      hi, wi, c = ints(ip, s, ["Hi", "Wi", "C"])
      layer = layer_stub(kind, (None, S(c)))
      r = run_call(ip, f, [layer, (None, S(hi), S(wi), S(c))])
      spec = hi * wi * c
    elif kind in ("Add", "Multiply", "Activation", "QActivation", "BatchNormalization", "QBatchNormalization"):
      hi, wi, c = ints(ip, s, ["Hi", "Wi", "C"])
      layer = layer_stub(kind, (None, S(hi), S(wi), S(c)))
      shape = (None, S(hi), S(wi), S(c))
      r = run_call(ip, f, [layer, [shape, shape] if kind in ("Add", "Multiply") else shape])
      spec = hi * wi * c
    else:
      raise ValueError(kind)
    s.claim("no_raise", r[0] == "return")
    if r[0] != "return":
      s.info["raised"] = str(r[1])
      return s
    s.claim("count", Q.num_value(r[1]) == z3.ToReal(spec))
    s.replay = {"kind": kind}
    return s
  return scenario


def mem_scenario(fn, mode, rd_wr, io):
  def scenario(ip):
    s = Scen()
    f = ip.find("qkeras/qtools/qenergy/qenergy.py::" + fn)
    d1, d2, bits = ints(ip, s, ["d1", "d2", "bits"], lo=1)
    (msz,) = ints(ip, s, ["min_sram"], lo=0)
    shape = (None, SNum(d1, "int"), SNum(d2, "int"))
    r = run_call(ip, f, [io, shape, mode, SNum(msz, "int"), rd_wr, SNum(bits, "int")])
    s.claim("no_raise", r[0] == "return")
    if r[0] != "return":
      s.info["raised"] = str(r[1])
      return s
    v = Q.num_value(r[1])
    s.claim("nonneg", v >= 0)
    if mode == "fixed" and not io:
      s.claim("fixed_is_free", v == 0)
    # documented function of the tensor size (docstrings of memory_read/write_energy and of QTools.pe):
    #   a model input / output tensor lives in DRAM when rd_wr_on_io, else in SRAM, whatever the placement option;
    #   other tensors follow the placement option; 'fixed' costs nothing;
    #   a DRAM access costs dram(total_bits); an SRAM access costs ceil(total_bits * sram_mul_factor) * sram(log2(max(total_bits, min_sram_size)));
    #   with rd_wr_on_io a DRAM read is followed by an SRAM write and a DRAM write is preceded by an SRAM read.
    eff = ("dram" if rd_wr else "sram") if io else mode
    total = z3.ToReal(d1 * d2 * bits)
    big = z3.If(total >= z3.ToReal(msz), total, z3.ToReal(msz))
    ip.assume(big > 0)
    lg = I.LOG2(big)

    def poly(coeffs, x):
      acc = z3.RealVal(0)
      for c in coeffs:
        acc = acc * x + zreal(c)
      return acc
    pos = lambda e: z3.If(e >= 0, e, z3.RealVal(0))
    dram = pos(poly([20.3125, 0], total))
    sram_unit = pos(poly([0.02455, -0.2656, 0.8661], lg))
    from pyvc import lib as L
    words = L.fresh_ceil(ip, total * zreal(1 / 64.))
    words = z3.ToReal(words) if words.sort() == z3.IntSort() else words
    sram = words * sram_unit
    if eff == "fixed":
      spec = z3.RealVal(0)
    elif eff == "sram":
      spec = sram
    else:
      spec = dram + (sram if rd_wr else 0)
    if spec is not None:
      s.vars["energy"] = v
      s.claim("documented_value", v == spec)
    return s
  return scenario


def sum_scenario(which):
  def scenario(ip):
    s = Scen()
    cls = ip.find("qkeras/qtools/run_qtools.py::QTools")
    qt = Obj(cls, {})
    names = ["inputs", "outputs", "parameters", "op_cost"]
    ed = {}
    vals = {}
    for i, (ln, cn) in enumerate((("d0", "QDense"), ("a0", "QActivation"), ("bn", "QBatchNormalization"),
                                  ("fl", "Flatten"), ("un", "Unlisted"))):
      e = {}
      for k in names:
        v = z3.Real("e_%s_%s" % (ln, k))
        s.vars["e_%s_%s" % (ln, k)] = v
        ip.assume(v >= 0)
        e[k] = SNum(v, "float")
        vals[(ln, k)] = v
      ed[ln] = {"class_name": cn, "energy": e}
    ed["total_cost"] = 123
    # a class may be configured with an EMPTY selection (free layer); unlisted classes use "default"
    cfg = {"default": ["inputs", "parameters", "op_cost"], "QActivation": ["outputs"],
           "QBatchNormalization": ["parameters"], "Flatten": []}
    sel = {"d0": cfg["default"], "a0": cfg["QActivation"], "bn": cfg["QBatchNormalization"], "fl": [],
           "un": cfg["default"]}
    tot = sum((vals[(ln, k)] for ln in sel for k in sel[ln]), z3.RealVal(0))
    if which == "sum":
      r = run_call(ip, ip.getattr(qt, "extract_energy_sum"), [cfg, ed])
      s.claim("no_raise", r[0] == "return")
      if r[0] == "return":
        v = Q.num_value(r[1])
        # int() truncation of the exact sum of the selected entries
        s.claim("sum_selected", z3.And(v <= tot, tot < v + 1))
    else:
      r = run_call(ip, ip.getattr(qt, "extract_energy_profile"), [cfg, ed])
      s.claim("no_raise", r[0] == "return")
      if r[0] == "return":
        prof = r[1]
        ok = []
        for ln in sel:
          t = sum((vals[(ln, k)] for k in sel[ln]), z3.RealVal(0))
          ok.append(Q.num_value(prof[ln]["total"]) == t)
        s.claim("profile_totals", z3.And(*ok))
        s.claim("profile_layers", sorted(prof.keys()) == sorted(sel.keys()))
    return s
  return scenario


QE = "qkeras/qtools/qenergy/qenergy.py::"


def energy_scenario(fp_acc=False):
  """energy_estimate on a six-layer model (QDense, QActivation, Add, AveragePooling2D, QBatchNormalization, one layer
  that is not in the data-type map).  memory_read_energy / memory_write_energy / parameter_read_energy are replaced by
  their contracts (a non-negative value per call; their own bodies are the mem_* cases); the operator stubs carry symbolic
  gate_factor / gate_bits / operation counts.  Claims: every entry is the documented function of the reported types,
  counts and sizes (up to the two-decimal rounding), entries are non-negative, unlisted layers contribute nothing,
  total_cost is the integer part of the sum of all entries."""
  def scenario(ip):
    s = Scen()
    f = ip.find(QE + "energy_estimate")
    IQ = ip.find("qkeras/qtools/quantized_operators/quantizer_impl.py::IQuantizer")
    calls = {"rd": [], "wr": [], "par": []}

    def contract(kind):
      def ov(ip_, fv, a, k):
        v = z3.Real("%s_%d" % (kind, len(calls[kind])))
        s.vars[str(v)] = v
        ip_.assume(v >= 0)
        calls[kind].append((list(a), dict(k), v))
        return SNum(v, "float")
      return ov
    ip.overrides["qkeras.qtools.qenergy.qenergy::memory_read_energy"] = contract("rd")
    ip.overrides["qkeras.qtools.qenergy.qenergy::memory_write_energy"] = contract("wr")
    ip.overrides["qkeras.qtools.qenergy.qenergy::parameter_read_energy"] = contract("par")

    def iq(bits, fp=False):
      q = ip.call(IQ, [], {})
      ip.setattr(q, "bits", bits)
      ip.setattr(q, "is_floating_point", fp)
      return q

    def sym_int(n, lo=1, hi=64):
      v = z3.Int(n)
      s.vars[n] = v
      ip.assume(z3.And(v >= lo, v <= hi))
      return v

    def sym_real(n):
      v = z3.Real(n)
      s.vars[n] = v
      ip.assume(z3.And(v >= 0, v <= 4))
      return v

    def op_stub(pfx, mode, fp=False):
      gf, gb = sym_real(pfx + "_gate_factor"), sym_int(pfx + "_gate_bits")
      ob = 32 if fp else SNum(sym_int(pfx + "_out_bits"))
      o = Obj(ExtClass("Operator"), {"gate_factor": SNum(gf, "float"), "gate_bits": SNum(gb), "output": iq(ob, fp),
                                    "implemented_as": Builtin("implemented_as", lambda ip_: mode)})
      return o, gf, gb

    def pos(e):
      return z3.If(e >= 0, e, z3.RealVal(0))

    def cost(op, mode, b):
      b = z3.ToReal(b) if b.sort() == z3.IntSort() else b
      if op == "fp32":
        return zreal(0.9) if mode == "add" else zreal(3.7)
      if mode == "mul":
        return pos(zreal(0.002994791667) * b * b + zreal(0.001041666667) * b)
      return pos(zreal(0.003125) * b)
    L = lambda c, n, **a: Obj(ExtClass(c), dict(a, name=n), label=n)
    shp = (None, 4, 4, 3)
    dense, act, add = L("QDense", "d0", input_shape=(None, 8)), L("QActivation", "a0", input_shape=(None, 8)), \
        L("Add", "add0", input_shape=[shp, shp, shp])
    pool, bn, free = L("AveragePooling2D", "p0", input_shape=shp), L("QBatchNormalization", "bn0", input_shape=shp), \
        L("Flatten", "fl0", input_shape=shp)
    n_d, n_a, n_add, n_p, n_bn = [sym_int("count_" + n, 0, 4096) for n in ("d0", "a0", "add0", "p0", "bn0")]
    mult, m_gf, m_gb = op_stub("mult", "mul")
    acc_bits = sym_int("acc_bits")
    acc = Obj(ExtClass("Accumulator"), {"output": iq(32 if fp_acc else SNum(acc_bits), fp_acc)})
    merge, g_gf, g_gb = op_stub("merge", "add")
    pacc_bits = sym_int("pool_acc_bits")
    pacc = Obj(ExtClass("Accumulator"), {"output": iq(SNum(pacc_bits))})
    div, d_gf, d_gb = op_stub("div", "shifter")
    bmul, b_gf, b_gb = op_stub("bnmul", "mul")
    inq = lambda: iq(8)
    item = lambda cnt, **k: dict({"input_quantizer_list": [inq()], "operation_count": SNum(cnt), "output_shapes": shp,
                                  "output_quantizer": iq(8)}, **k)
    m = {dense: item(n_d, multiplier=mult, accumulator=acc),
         act: item(n_a),
         add: dict(item(n_add, multiplier=merge), input_quantizer_list=[inq(), inq(), inq()]),
         pool: item(n_p, accumulator=pacc),
         bn: item(n_bn, internal_divide_quantizer=div, internal_multiplier=bmul)}
    model = Obj(ExtClass("Model"), {"layers": [dense, act, free, add, pool, bn]})
    layer_map = {"output_layers": [bn], "input_layers": [dense], "layer_data_type_map": m}
    r = run_call(ip, f, [model, layer_map, "dram", "sram", 0, True])
    s.claim("no_raise", r[0] == "return")
    if r[0] != "return":
      s.info["raised"] = str(r[1])
      return s
    res = r[1]
    s.claim("layers_reported", sorted(k for k in res if k != "total_cost") == ["a0", "add0", "bn0", "d0", "p0"])
    # one read per input tensor, one write and one parameter read per reported layer, with the reported types
    n_in = {"d0": 1, "a0": 1, "add0": 3, "p0": 1, "bn0": 1}
    order = ["d0", "a0", "add0", "p0", "bn0"]
    s.claim("memory_calls", len(calls["rd"]) == 7 and len(calls["wr"]) == 5 and len(calls["par"]) == 5 and
            all(c[0][0] is (i == 0) for i, c in enumerate(calls["rd"])) and            # is_input_layer only for d0
            all(c[0][2] == "sram" for c in calls["rd"]) and all(c[0][2] == "sram" for c in calls["wr"]) and
            all(c[0][0] is (i == 4) for i, c in enumerate(calls["wr"])) and            # is_output_layer only for bn0
            all(c[0][2] == "dram" for c in calls["par"]))
    if not (len(calls["rd"]) == 7 and len(calls["wr"]) == 5 and len(calls["par"]) == 5):
      return s
    rd = iter(calls["rd"])
    ins = {n: sum((next(rd)[2] for _ in range(n_in[n])), z3.RealVal(0)) for n in order}
    outs = {n: calls["wr"][i][2] for i, n in enumerate(order)}
    pars = {n: calls["par"][i][2] for i, n in enumerate(order)}
    R_ = z3.ToReal
    acc_cost = cost("fp32" if fp_acc else "fpm", "add", acc_bits)
    ops = {"d0": R_(n_d) * (m_gf * cost("fpm", "mul", m_gb) + acc_cost),
           "a0": z3.RealVal(0),
           "add0": 2 * R_(n_add) * g_gf * cost("fpm", "add", g_gb),
           "p0": R_(n_p) * cost("fpm", "add", pacc_bits),
           "bn0": (d_gf * cost("fpm", "shifter", d_gb) + b_gf * cost("fpm", "mul", b_gb)) * R_(n_bn)}
    eps = z3.RealVal("5/1000")
    near = lambda a, b: z3.And(a - b <= eps, b - a <= eps)
    goals, nonneg = [], []
    for n in order:
      e = res[n]["energy"]
      for key, spec in (("inputs", ins[n]), ("outputs", outs[n]), ("parameters", pars[n]), ("op_cost", ops[n])):
        v = Q.num_value(e[key])
        goals.append(near(v, spec))
        nonneg.append(v >= 0)
    s.claim("entries_documented", z3.And(*goals))
    s.claim("entries_nonneg", z3.And(*nonneg))
    tot = sum((ins[n] + outs[n] + pars[n] + ops[n] for n in order), z3.RealVal(0))
    tc = Q.num_value(res["total_cost"])
    s.claim("total_is_sum", z3.And(tc <= tot, tot < tc + 1, tc >= 0))
    s.claim("class_names", all(res[n]["class_name"] == c for n, c in (("d0", "QDense"), ("a0", "QActivation"), ("add0", "Add"),
                                                                     ("p0", "AveragePooling2D"), ("bn0", "QBatchNormalization"))))
    return s
  return scenario


def param_scenario(kind):
  """parameter_read_energy: one memory read per stored tensor with the tensor's shape and its quantizer's width, under
  the weight placement, never treated as an input tensor; batch normalisation reads only the statistics that have a
  quantizer.  kind: 'dense_bias' | 'dense_nobias' | 'bn_all' | 'bn_partial' | 'other'."""
  def scenario(ip):
    s = Scen()
    f = ip.find(QE + "parameter_read_energy")
    calls = []

    def ov(ip_, fv, a, k):
      v = z3.Real("rd_%d" % len(calls))
      s.vars[str(v)] = v
      ip_.assume(v >= 0)
      calls.append((list(a), dict(k), v))
      return SNum(v, "float")
    ip.overrides["qkeras.qtools.qenergy.qenergy::memory_read_energy"] = ov
    wb, bb = z3.Int("weight_bits"), z3.Int("bias_bits")
    s.vars.update({"weight_bits": wb, "bias_bits": bb})
    ip.assume(z3.And(wb >= 1, wb <= 32, bb >= 1, bb <= 32))
    Qb = lambda b: Obj(ExtClass("Quantizer"), {"bits": SNum(b)})
    msz = z3.Int("min_sram")
    s.vars["min_sram"] = msz
    ip.assume(msz >= 0)
    if kind.startswith("dense"):
      layer = Obj(ExtClass("QDense"), {"name": "d0"})
      item = {"weight_quantizer": Qb(wb), "w_shapes": (8, 4), "bias_quantizer": Qb(bb) if kind == "dense_bias" else None,
              "b_shapes": (4,)}
      want = [((8, 4), wb)] + ([((4,), bb)] if kind == "dense_bias" else [])
    elif kind.startswith("bn"):
      gamma = [Obj(ExtClass("ndarray"), {"__len__": Builtin("__len__", lambda ip_: 6)})]
      layer = Obj(ExtClass("QBatchNormalization"), {"name": "bn0", "get_weights": Builtin("get_weights", lambda ip_: [[0] * 6] * 4)})
      qs = [Qb(wb), Qb(bb), Qb(wb), Qb(bb)] if kind == "bn_all" else [Qb(wb), None, None, Qb(bb)]
      item = dict(zip(["gamma_quantizer", "beta_quantizer", "mean_quantizer", "variance_quantizer"], qs))
      want = [(6, q.attrs["bits"].e) for q in qs if q is not None]
    else:
      layer = Obj(ExtClass("Flatten"), {"name": "fl0"})
      item = {}
      want = []
    r = run_call(ip, f, [layer, item, "dram", SNum(msz), True])
    s.claim("no_raise", r[0] == "return")
    if r[0] != "return":
      s.info["raised"] = str(r[1])
      return s
    ok = len(calls) == len(want)
    goals = []
    if ok:
      for (a, k, v), (shape, bits) in zip(calls, want):
        ok = ok and a[0] is False and (tuple(a[1]) if isinstance(a[1], (tuple, list)) else a[1]) == shape and a[2] == "dram" \
            and a[4] is True and k.get("is_tensor") is False
        goals.append(Q.num_value(a[5]) == z3.ToReal(bits))
        goals.append(Q.num_value(a[3]) == z3.ToReal(msz))
    s.claim("one_read_per_stored_tensor", z3.And(*goals) if (ok and goals) else ok)
    s.claim("sum_of_reads", Q.num_value(r[1]) == sum((c[2] for c in calls), z3.RealVal(0)))
    return s
  return scenario


def extract_scenario(kind):
  """estimate.extract_model_operations (the estimator behind print_qstats) on a one-layer model: number_of_operations
  is the MAC count of the layer for all symbolic geometries.  unfold_model / create_activation_cache /
  get_operation_type / get_quant_mode are replaced by trivial contracts (they do not touch the count); the layer is a
  stub whose input tensor, compute_output_shape and get_weights follow the stock Keras layer (K4)."""
  def scenario(ip):
    s = Scen()
    f = ip.find("qkeras/estimate.py::extract_model_operations")
    S = lambda v: SNum(v, "int")
    ip.overrides["qkeras.bn_folding_utils::unfold_model"] = lambda ip_, fv, a, k: a[0]
    ip.overrides["qkeras.estimate::create_activation_cache"] = lambda ip_, fv, a, k: {}
    ip.overrides["qkeras.estimate::get_operation_type"] = lambda ip_, fv, a, k: ("mult", 4, 4, 8)
    ip.overrides["qkeras.estimate::get_quant_mode"] = lambda ip_, fv, a, k: (0, 4, 1)
    nq = 2
    cls = kind
    if kind == "QConv2D":
      hi, wi, ci, ho, wo, co, kh, kw = ints(ip, s, ["Hi", "Wi", "Ci", "Ho", "Wo", "Co", "Kh", "Kw"])
      ishape, oshape = (None, S(hi), S(wi), S(ci)), (None, S(ho), S(wo), S(co))
      ws = [(S(kh), S(kw), S(ci), S(co)), (S(co),)]
      spec = ho * wo * co * kh * kw * ci
    elif kind == "QConv1D":
      ti, ci, to, co, k = ints(ip, s, ["Ti", "Ci", "To", "Co", "K"])
      ishape, oshape = (None, S(ti), S(ci)), (None, S(to), S(co))
      ws = [(S(k), S(ci), S(co)), (S(co),)]
      spec = to * co * k * ci
    elif kind == "QDepthwiseConv2D":
      hi, wi, ci, dm, ho, wo, kh, kw = ints(ip, s, ["Hi", "Wi", "Ci", "depth_multiplier", "Ho", "Wo", "Kh", "Kw"])
      ishape, oshape = (None, S(hi), S(wi), S(ci)), (None, S(ho), S(wo), SNum(ci * dm, "int"))
      ws = [(S(kh), S(kw), S(ci), S(dm)), (SNum(ci * dm, "int"),)]
      spec = ho * wo * kh * kw * ci * dm
    elif kind == "QSeparableConv2D":
      hi, wi, ci, ho, wo, co, kh, kw = ints(ip, s, ["Hi", "Wi", "Ci", "Ho", "Wo", "Co", "Kh", "Kw"])
      ishape, oshape = (None, S(hi), S(wi), S(ci)), (None, S(ho), S(wo), S(co))
      ws = [(S(kh), S(kw), S(ci), 1), (1, 1, S(ci), S(co)), (S(co),)]
      spec = ho * wo * kh * kw * ci + ho * wo * ci * co          # depthwise pass + 1x1 pointwise pass
      nq = 3
    elif kind == "QSeparableConv1D":
      ti, ci, to, co, k = ints(ip, s, ["Ti", "Ci", "To", "Co", "K"])
      ishape, oshape = (None, S(ti), S(ci)), (None, S(to), S(co))
      ws = [(S(k), S(ci), 1), (1, S(ci), S(co)), (S(co),)]
      spec = to * k * ci + to * ci * co
      nq = 3
    elif kind in ("QDense", "QDense_se", "QDense_nobias"):
      ni, no = ints(ip, s, ["Ni", "No"], lo=1)
      if kind == "QDense_se":            # squeeze-and-excite: (batch, 1, 1, channels)
        ishape, oshape = (None, 1, 1, S(ni)), (None, 1, 1, S(no))
      else:
        ishape, oshape = (None, S(ni)), (None, S(no))
      ws = [(S(ni), S(no))] + ([] if kind == "QDense_nobias" else [(S(no),)])
      spec = ni * no
      cls = "QDense"
    else:
      raise ValueError(kind)
    tin = Obj(ExtClass("Tensor"), {"experimental_ref": Builtin("experimental_ref", lambda ip_: "ref_in"),
                                   "get_shape": Builtin("get_shape", lambda ip_: ishape)})
    tout = Obj(ExtClass("Tensor"), {"experimental_ref": Builtin("experimental_ref", lambda ip_: "ref_out")})
    weights = [Obj(ExtClass("ndarray"), {"shape": w}) for w in ws]
    quant = Obj(ExtClass("quantized_bits"), {"bits": 4})
    layer = Obj(ExtClass(cls), {"name": "layer0", "input": tin, "output": tout,
                                 "compute_output_shape": Builtin("compute_output_shape", lambda ip_, shp: oshape),
                                 "get_weights": Builtin("get_weights", lambda ip_: list(weights)),
                                 "get_quantizers": Builtin("get_quantizers", lambda ip_: [quant] * nq)})
    inp = Obj(ExtClass("InputLayer"), {"name": "in0"})
    model = Obj(ExtClass("Model"), {"layers": [inp, layer]})
    r = run_call(ip, f, [model])
    s.replay = {"kind": kind}
    s.claim("no_raise", r[0] == "return")
    if r[0] != "return":
      s.info["raised"] = str(r[1])
      return s
    ops = r[1]
    s.claim("layer_reported", list(ops.keys()) == ["layer0"])
    if "layer0" not in ops:
      return s
    s.claim("count", Q.num_value(ops["layer0"]["number_of_operations"]) == z3.ToReal(spec))
    s.replay = {"kind": kind}
    return s
  return scenario


# documented operator-strength table of estimate.get_operation_type (its docstring): rows = weight mode, columns = input
# mode, in the order qb(n), +/-exp, t(-1,0,+1), b(-1,+1), b(0,1), float.  '*' multiplier, '<< >>' barrel shifter, '+' adder,
# a cell containing '?' is a mux, otherwise '^' is an xor; any float operand needs a floating-point multiplier.
OPTYPE_DOC = [["*", "<< >>,-", "?,-", "?,-", "?", "*f"],
              ["<< >>,-", "+", "?,-", "^", "?,-", "*f"],
              ["?,-", "?,-", "?,^", "?,^", "^", "*f"],
              ["?,-", "^", "?,^", "^", "^", "*f"],
              ["?", "?,-", "^", "^", "^", "*f"],
              ["*f", "*f", "*f", "*f", "*f", "*f"]]
QCLASSES = ["quantized_bits", "quantized_tanh", "quantized_ulaw", "quantized_relu", "bernoulli", "stochastic_ternary",
            "ternary", "stochastic_binary", "binary", "quantized_po2", "quantized_relu_po2", None]


def doc_cell(c):
  return ("fmult" if c == "*f" else "mult" if c == "*" else "barrel" if c.startswith("<<") else "adder" if c == "+"
          else "mux" if "?" in c else "xor")


def optype_scenario(wcls):
  """estimate.get_operation_type with the real get_quant_mode for one weight-quantizer class against every input-quantizer
  class, bit widths and integer bits symbolic: the reported (mode, bits, sign) triple of each operand is the documented one
  (comment table of get_quant_mode) and the operator is the documented cell of the strength table."""
  def scenario(ip):
    s = Scen()
    f = ip.find("qkeras/estimate.py::get_operation_type")
    wb, wi, xb, xi = ints(ip, s, ["w_bits", "w_int", "x_bits", "x_int"], lo=0)
    for v in (wb, xb):
      ip.assume(z3.And(v >= 1, v <= 32))
    for v in (wi, xi):
      ip.assume(v <= 32)

    def quant(cls, b, i):
      if cls is None:
        return None
      return Obj(ip.find("qkeras/quantizers.py::" + cls), {"bits": SNum(b, "int"), "integer": SNum(i, "int")})

    def spec(cls, b, i):
      if cls is None:
        return z3.IntVal(5), z3.IntVal(32), 1
      if cls in ("quantized_bits", "quantized_tanh", "quantized_ulaw"):
        return z3.If(z3.And(b == 2, i == 1), 2, 0), b, 1
      if cls == "quantized_relu":
        return z3.If(z3.And(b == 1, i == 1), 4, 0), b, 0
      if cls in ("quantized_po2", "quantized_relu_po2"):
        return z3.IntVal(1), b, 1 if cls == "quantized_po2" else 0
      return {"bernoulli": (z3.IntVal(4), z3.IntVal(1), 0), "stochastic_ternary": (z3.IntVal(2), z3.IntVal(2), 1),
              "ternary": (z3.IntVal(2), z3.IntVal(2), 1), "stochastic_binary": (z3.IntVal(3), z3.IntVal(1), 1),
              "binary": (z3.IntVal(3), z3.IntVal(1), 1)}[cls]

    ok_ret, g_modes, g_bits, g_op, ok_sign = True, [], [], [], True
    for xcls in QCLASSES:
      tin = Obj(ExtClass("Tensor"), {"experimental_ref": Builtin("experimental_ref", lambda ip_: "ref_in")})
      wq = quant(wcls, wb, wi)
      layer = Obj(ExtClass("QDense"), {"name": "layer0", "input": tin,
                                       "get_quantizers": Builtin("get_quantizers", lambda ip_, wq=wq: [wq, None])})
      xq = quant(xcls, xb, xi)
      # an unquantized input is recorded in the cache as the 'linear' activation function would be: a float tensor
      cache = {"ref_in": xq if xq is not None else Obj(ExtClass("function"), {"__name__": "linear"})}
      r = run_call(ip, f, [layer, cache])
      if r[0] != "return" or not isinstance(r[1], tuple) or len(r[1]) != 4:
        ok_ret = False
        s.info.setdefault("raised", []).append("%s x %s: %s" % (wcls, xcls, r[1]))
        continue
      op, modes, bits, signs = r[1]
      (wm, wbits, ws), (xm, xbits, xs) = spec(wcls, wb, wi), spec(xcls, xb, xi)
      g_modes.append(z3.And(Q.num_value(modes[0]) == z3.ToReal(wm), Q.num_value(modes[1]) == z3.ToReal(xm)))
      g_bits.append(z3.And(Q.num_value(bits[0]) == z3.ToReal(wbits), Q.num_value(bits[1]) == z3.ToReal(xbits)))
      ok_sign = ok_sign and tuple(signs) == (ws, xs)
      # the operator: the path fixes the modes, so `op` is a concrete string; it must be the documented cell of the
      # documented modes
      if not isinstance(op, str):
        raise I.Unsupported("symbolic operator name %r" % (op,))
      g_op.append(z3.Or(*[z3.And(wm == a, xm == b_) for a in range(6) for b_ in range(6)
                          if doc_cell(OPTYPE_DOC[a][b_]) == op]))
    s.claim("returns_four_fields", ok_ret)
    s.claim("operand_modes_as_documented", z3.And(*g_modes) if g_modes else False)
    s.claim("operand_bits_as_documented", z3.And(*g_bits) if g_bits else False)
    s.claim("operand_signs_as_documented", ok_sign)
    s.claim("operator_is_documented_cell", z3.And(*g_op) if g_op else False)
    return s
  return scenario


def pe_scenario(kw):
  """run_qtools.QTools.pe: the energy report is qenergy.energy_estimate of THIS object's model and layer map under exactly
  the placement options the caller gave (weights / activations placement are not interchangeable).  energy_estimate is
  replaced by a spy (its own contract is the energy_estimate cases)."""
  def scenario(ip):
    s = Scen()
    cls = ip.find("qkeras/qtools/run_qtools.py::QTools")
    model, lmap = Obj(ExtClass("Model"), {}), {"layer_data_type_map": {}}
    qt = Obj(cls, {"_model": model, "_layer_map": lmap})
    msz = z3.Int("min_sram_size")
    s.vars["min_sram_size"] = msz
    ip.assume(msz >= 0)
    seen = []
    report = {"total_cost": 7}

    def spy(ip_, fv, a, k):
      seen.append((list(a), dict(k)))
      return report
    ip.overrides["qkeras.qtools.qenergy.qenergy::energy_estimate"] = spy
    args = dict(kw)
    if "min_sram_size" in args:
      args["min_sram_size"] = SNum(msz, "int")
    r = run_call(ip, ip.getattr(qt, "pe"), [], args)
    s.claim("no_raise", r[0] == "return")
    if r[0] != "return":
      s.info["raised"] = str(r[1])
      return s
    s.claim("returns_the_estimate", r[1] is report and len(seen) == 1)
    if len(seen) != 1:
      return s
    a, k = seen[0]
    names = ["model", "layer_map", "weights_on_memory", "activations_on_memory", "min_sram_size", "rd_wr_on_io"]
    got = dict(zip(names, a))
    got.update(k)
    want = {"weights_on_memory": "dram", "activations_on_memory": "dram", "min_sram_size": 0, "rd_wr_on_io": True}
    want.update(kw)
    ok = got.get("model") is model and got.get("layer_map") is lmap
    for n in ("weights_on_memory", "activations_on_memory", "rd_wr_on_io"):
      ok = ok and got.get(n) == want[n] and type(got.get(n)) is type(want[n])
    s.claim("options_forwarded", ok)
    g = got.get("min_sram_size")
    s.claim("min_sram_size_forwarded", (Q.num_value(g) == z3.ToReal(msz)) if "min_sram_size" in kw else (g == 0))
    return s
  return scenario


def bounds(vars_):
  return [v <= 6 for k, v in vars_.items()]


KINDS = ["QConv2D", "Conv2D", "QConv2DBatchnorm", "QConv2DTranspose", "Conv2DTranspose", "QConv1D", "Conv1D",
         "QDepthwiseConv2D", "DepthwiseConv2D", "QDense", "Dense", "Dense_se", "AveragePooling2D", "AvgPool2D",
         "GlobalAveragePooling2D", "QGlobalAveragePooling2D", "Add", "Multiply", "Activation", "QActivation",
         "BatchNormalization", "QBatchNormalization"]


def cases(tier):
  out = []
  for k in KINDS:
    out.append(Case(PROP, QU + "get_operation_count", k, count_scenario(k), bounds=bounds, replay_kind="c19_count",
                    assumptions=ASSUME))
  for fn in ("memory_read_energy", "memory_write_energy"):
    for mode in ("dram", "sram", "fixed"):
      for rd_wr in (True, False):
        for io in (True, False):
          out.append(Case(PROP, "qkeras/qtools/qenergy/qenergy.py::" + fn, "%s_rdwr%d_io%d" % (mode, rd_wr, io),
                          mem_scenario(fn, mode, rd_wr, io), bounds=bounds, replay_kind=None, assumptions=ASSUME))
  for fp in (False, True):
    out.append(Case(PROP, QE + "energy_estimate", "six_layers" + ("_fp32acc" if fp else ""), energy_scenario(fp),
                    replay_kind="c19_energy", assumptions=ASSUME + ["memory_read_energy / memory_write_energy / "
                                                            "parameter_read_energy replaced by their contracts (non-negative "
                                                            "value per call) inside energy_estimate",
                                                            "float('{0:.2f}'.format(x)) is x rounded to two decimals"]))
  for k in ("QConv2D", "QConv1D", "QDepthwiseConv2D", "QSeparableConv2D", "QSeparableConv1D", "QDense", "QDense_se",
            "QDense_nobias"):
    out.append(Case(PROP, "qkeras/estimate.py::extract_model_operations", k, extract_scenario(k), bounds=bounds,
                    replay_kind="c19_extract", assumptions=ASSUME + [
                        "unfold_model / create_activation_cache / get_operation_type / get_quant_mode replaced by "
                        "trivial contracts inside extract_model_operations"]))
  for wc in QCLASSES:
    out.append(Case(PROP, "qkeras/estimate.py::get_operation_type", "w_" + str(wc), optype_scenario(wc),
                    replay_kind=None, assumptions=ASSUME + [
                        "quantizers are instances of the real classes built without running __init__ (only bits / integer are read)"]))
  for k in ("dense_bias", "dense_nobias", "bn_all", "bn_partial", "other"):
    out.append(Case(PROP, QE + "parameter_read_energy", k, param_scenario(k), replay_kind=None,
                    assumptions=ASSUME + ["memory_read_energy replaced by its contract inside parameter_read_energy"]))
  for i, kw in enumerate(({}, {"weights_on_memory": "sram", "activations_on_memory": "dram", "min_sram_size": 1},
                          {"weights_on_memory": "fixed", "activations_on_memory": "sram", "rd_wr_on_io": False},
                          {"weights_on_memory": "dram", "activations_on_memory": "sram", "min_sram_size": 1, "rd_wr_on_io": False})):
    out.append(Case(PROP, "qkeras/qtools/run_qtools.py::QTools.pe", "options%d" % i, pe_scenario(kw), replay_kind=None,
                    assumptions=ASSUME + ["energy_estimate replaced by a spy inside QTools.pe"]))
  for w in ("sum", "profile"):
    out.append(Case(PROP, "qkeras/qtools/run_qtools.py::QTools.extract_energy_" + w, "three_layers", sum_scenario(w),
                    bounds=bounds, replay_kind=None, assumptions=ASSUME))
  return out
