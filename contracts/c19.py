"""C19 - qtools operation counts are the true MAC counts and energy totals add up.

Functions under contract:
  qtools_util.get_operation_count (per class branch), is_merge_layers, is_shape_alternation_layers
  qenergy.memory_read_energy / memory_write_energy (non-negative, zero for 'fixed' placement)
  run_qtools.QTools.extract_energy_sum / extract_energy_profile (sum of the selected entries)
Spec macs(kind, geometry): number of scalar multiply(-accumulate) operations for ONE input sample
  conv2d        H_o*W_o*C_o*K_h*K_w*(C_i/groups)          conv1d   T_o*C_o*K*C_i
  conv2d_transp H_i*W_i*C_i*K_h*K_w*C_o                    depthwise H_o*W_o*K_h*K_w*C_i*depth_multiplier
  dense         N_i*N_o                                    avgpool  H_o*W_o*C*P_h*P_w ; global: H*W*C
  merge/activation/batch-norm: one operation per element
Assumed (K4): layer.compute_output_shape returns the Keras output shape (symbolic positive dims here),
layer.get_weights()[0].shape is the Keras kernel shape (K_h, K_w, C_i/groups, C_o).
"""
import z3

from pyvc.contract import Case, Scen, run_call
from pyvc.values import *  # noqa
from pyvc import interp as I
from . import quant as Q

PROP = "C19"
QU = "qkeras/qtools/qtools_util.py::"
ASSUME = ["K4: compute_output_shape / get_weights shapes are those of the stock Keras layer",
          "closed-form MAC counts equal the loop-nest counts (standard identities)"]


def ints(ip, s, names, lo=1):
  out = []
  for n in names:
    v = z3.Int(n)
    s.vars[n] = v
    ip.assume(z3.And(v >= lo, v <= 4096))
    out.append(v)
  return out


def layer_stub(name, out_shape, wshape=None, **attrs):
  cls = ExtClass(name)
  a = {"name": "layer_" + name.lower()}
  a.update(attrs)
  a["compute_output_shape"] = Builtin("compute_output_shape", lambda ip, shp: out_shape)
  if wshape is not None:
    w = Obj(ExtClass("ndarray"), {"shape": wshape})
    a["get_weights"] = Builtin("get_weights", lambda ip: [w])
  return Obj(cls, a, label=name)


def count_scenario(kind):
  def scenario(ip):
    s = Scen()
    f = ip.find(QU + "get_operation_count")
    S = lambda v: SNum(v, "int")
    if kind in ("QConv2D", "Conv2D", "QConv2DBatchnorm"):
      hi, wi, cig, g, ho, wo, co, kh, kw = ints(ip, s, ["Hi", "Wi", "Cig", "groups", "Ho", "Wo", "Co", "Kh", "Kw"])
      ci = cig * g
      layer = layer_stub(kind, (None, S(ho), S(wo), S(co)), (S(kh), S(kw), S(cig), S(co)), groups=S(g))
      r = run_call(ip, f, [layer, (None, S(hi), S(wi), SNum(ci, "int"))])
      spec = ho * wo * co * kh * kw * cig
    elif kind in ("QConv2DTranspose", "Conv2DTranspose"):
      hi, wi, ci, ho, wo, co, kh, kw = ints(ip, s, ["Hi", "Wi", "Ci", "Ho", "Wo", "Co", "Kh", "Kw"])
      layer = layer_stub(kind, (None, S(ho), S(wo), S(co)), (S(kh), S(kw), S(co), S(ci)))
      r = run_call(ip, f, [layer, (None, S(hi), S(wi), S(ci))])
      spec = hi * wi * ci * kh * kw * co
    elif kind in ("QConv1D", "Conv1D"):
      ti, ci, to, co, k = ints(ip, s, ["Ti", "Ci", "To", "Co", "K"])
      layer = layer_stub(kind, (None, S(to), S(co)), (S(k), S(ci), S(co)))
      r = run_call(ip, f, [layer, (None, S(ti), S(ci))])
      spec = to * co * k * ci
    elif kind in ("QDepthwiseConv2D", "DepthwiseConv2D"):
      hi, wi, ci, dm, ho, wo, kh, kw = ints(ip, s, ["Hi", "Wi", "Ci", "depth_multiplier", "Ho", "Wo", "Kh", "Kw"])
      layer = layer_stub(kind, (None, S(ho), S(wo), SNum(ci * dm, "int")), (S(kh), S(kw), S(ci), S(dm)))
      r = run_call(ip, f, [layer, (None, S(hi), S(wi), S(ci))])
      spec = ho * wo * kh * kw * ci * dm
    elif kind in ("QDense", "Dense"):
      ni, no = ints(ip, s, ["Ni", "No"])
      layer = layer_stub(kind, (None, S(no)))
      r = run_call(ip, f, [layer, (None, S(ni))])
      spec = ni * no
    elif kind == "Dense_se":
      ni, no = ints(ip, s, ["Ni", "No"])
      layer = layer_stub("Dense", (None, 1, 1, S(no)))
      r = run_call(ip, f, [layer, (None, 1, 1, S(ni))])
      spec = ni * no
    elif kind in ("AveragePooling2D", "AvgPool2D"):
      hi, wi, c, ho, wo, ph, pw = ints(ip, s, ["Hi", "Wi", "C", "Ho", "Wo", "Ph", "Pw"])
      layer = layer_stub(kind, (None, S(ho), S(wo), S(c)), pool_size=(S(ph), S(pw)))
      r = run_call(ip, f, [layer, (None, S(hi), S(wi), S(c))])
      spec = ho * wo * c * ph * pw
    elif kind in ("GlobalAveragePooling2D", "QGlobalAveragePooling2D", "GlobalAvgPool2D"):
      hi, wi, c = ints(ip, s, ["Hi", "Wi", "C"])
      layer = layer_stub(kind, (None, S(c)))
      r = run_call(ip, f, [layer, (None, S(hi), S(wi), S(c))])
      spec = hi * wi * c
    elif kind in ("Add", "Multiply", "Activation", "QActivation", "BatchNormalization", "QBatchNormalization"):
      hi, wi, c = ints(ip, s, ["Hi", "Wi", "C"])
      layer = layer_stub(kind, (None, S(hi), S(wi), S(c)))
      shape = (None, S(hi), S(wi), S(c))
      r = run_call(ip, f, [layer, [shape, shape] if kind in ("Add", "Multiply") else shape])
      spec = hi * wi * c
    else:
      raise ValueError(kind)
    s.claim("no_raise", r[0] == "return")
    if r[0] != "return":
      s.info["raised"] = str(r[1])
      return s
    s.claim("count", Q.num_value(r[1]) == z3.ToReal(spec))
    s.replay = {"kind": kind}
    return s
  return scenario


def mem_scenario(fn, mode, rd_wr, io):
  def scenario(ip):
    s = Scen()
    f = ip.find("qkeras/qtools/qenergy/qenergy.py::" + fn)
    d1, d2, bits = ints(ip, s, ["d1", "d2", "bits"], lo=1)
    (msz,) = ints(ip, s, ["min_sram"], lo=0)
    shape = (None, SNum(d1, "int"), SNum(d2, "int"))
    r = run_call(ip, f, [io, shape, mode, SNum(msz, "int"), rd_wr, SNum(bits, "int")])
    s.claim("no_raise", r[0] == "return")
    if r[0] != "return":
      s.info["raised"] = str(r[1])
      return s
    v = Q.num_value(r[1])
    s.claim("nonneg", v >= 0)
    if mode == "fixed" and not io:
      s.claim("fixed_is_free", v == 0)
    # documented function of the tensor size (docstrings of memory_read/write_energy and of QTools.pe):
    #   a model input / output tensor lives in DRAM when rd_wr_on_io, else in SRAM, whatever the placement option;
    #   other tensors follow the placement option; 'fixed' costs nothing;
    #   a DRAM access costs dram(total_bits); an SRAM access costs ceil(total_bits * sram_mul_factor) * sram(log2(max(total_bits, min_sram_size)));
    #   with rd_wr_on_io a DRAM read is followed by an SRAM write and a DRAM write is preceded by an SRAM read.
    eff = ("dram" if rd_wr else "sram") if io else mode
    total = z3.ToReal(d1 * d2 * bits)
    big = z3.If(total >= z3.ToReal(msz), total, z3.ToReal(msz))
    ip.assume(big > 0)
    lg = I.LOG2(big)

    def poly(coeffs, x):
      acc = z3.RealVal(0)
      for c in coeffs:
        acc = acc * x + zreal(c)
      return acc
    pos = lambda e: z3.If(e >= 0, e, z3.RealVal(0))
    dram = pos(poly([20.3125, 0], total))
    sram_unit = pos(poly([0.02455, -0.2656, 0.8661], lg))
    from pyvc import lib as L
    words = L.fresh_ceil(ip, total * zreal(1 / 64.))
    words = z3.ToReal(words) if words.sort() == z3.IntSort() else words
    sram = words * sram_unit
    if eff == "fixed":
      spec = z3.RealVal(0)
    elif eff == "sram":
      spec = sram
    else:
      spec = dram + (sram if rd_wr else 0)
    if spec is not None:
      s.vars["energy"] = v
      s.claim("documented_value", v == spec)
    return s
  return scenario


def sum_scenario(which):
  def scenario(ip):
    s = Scen()
    cls = ip.find("qkeras/qtools/run_qtools.py::QTools")
    qt = Obj(cls, {})
    names = ["inputs", "outputs", "parameters", "op_cost"]
    ed = {}
    vals = {}
    for i, (ln, cn) in enumerate((("d0", "QDense"), ("a0", "QActivation"), ("bn", "QBatchNormalization"),
                                  ("fl", "Flatten"), ("un", "Unlisted"))):
      e = {}
      for k in names:
        v = z3.Real("e_%s_%s" % (ln, k))
        s.vars["e_%s_%s" % (ln, k)] = v
        ip.assume(v >= 0)
        e[k] = SNum(v, "float")
        vals[(ln, k)] = v
      ed[ln] = {"class_name": cn, "energy": e}
    ed["total_cost"] = 123
    # a class may be configured with an EMPTY selection (free layer); unlisted classes use "default"
    cfg = {"default": ["inputs", "parameters", "op_cost"], "QActivation": ["outputs"],
           "QBatchNormalization": ["parameters"], "Flatten": []}
    sel = {"d0": cfg["default"], "a0": cfg["QActivation"], "bn": cfg["QBatchNormalization"], "fl": [],
           "un": cfg["default"]}
    tot = sum((vals[(ln, k)] for ln in sel for k in sel[ln]), z3.RealVal(0))
    if which == "sum":
      r = run_call(ip, ip.getattr(qt, "extract_energy_sum"), [cfg, ed])
      s.claim("no_raise", r[0] == "return")
      if r[0] == "return":
        v = Q.num_value(r[1])
        # int() truncation of the exact sum of the selected entries
        s.claim("sum_selected", z3.And(v <= tot, tot < v + 1))
    else:
      r = run_call(ip, ip.getattr(qt, "extract_energy_profile"), [cfg, ed])
      s.claim("no_raise", r[0] == "return")
      if r[0] == "return":
        prof = r[1]
        ok = []
        for ln in sel:
          t = sum((vals[(ln, k)] for k in sel[ln]), z3.RealVal(0))
          ok.append(Q.num_value(prof[ln]["total"]) == t)
        s.claim("profile_totals", z3.And(*ok))
        s.claim("profile_layers", sorted(prof.keys()) == sorted(sel.keys()))
    return s
  return scenario


def bounds(vars_):
  return [v <= 6 for k, v in vars_.items()]


KINDS = ["QConv2D", "Conv2D", "QConv2DBatchnorm", "QConv2DTranspose", "Conv2DTranspose", "QConv1D", "Conv1D",
         "QDepthwiseConv2D", "DepthwiseConv2D", "QDense", "Dense", "Dense_se", "AveragePooling2D", "AvgPool2D",
         "GlobalAveragePooling2D", "QGlobalAveragePooling2D", "Add", "Multiply", "Activation", "QActivation",
         "BatchNormalization", "QBatchNormalization"]


def cases(tier):
  out = []
  for k in KINDS:
    out.append(Case(PROP, QU + "get_operation_count", k, count_scenario(k), bounds=bounds, replay_kind="c19_count",
                    assumptions=ASSUME))
  for fn in ("memory_read_energy", "memory_write_energy"):
    for mode in ("dram", "sram", "fixed"):
      for rd_wr in (True, False):
        for io in (True, False):
          out.append(Case(PROP, "qkeras/qtools/qenergy/qenergy.py::" + fn, "%s_rdwr%d_io%d" % (mode, rd_wr, io),
                          mem_scenario(fn, mode, rd_wr, io), bounds=bounds, replay_kind=None, assumptions=ASSUME))
  for w in ("sum", "profile"):
    out.append(Case(PROP, "qkeras/qtools/run_qtools.py::QTools.extract_energy_" + w, "three_layers", sum_scenario(w),
                    bounds=bounds, replay_kind=None, assumptions=ASSUME))
  return out
