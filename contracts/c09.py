"""C09 - quantizer configuration round-trip reproduces the same quantization function.

State-level contracts.  For each registered quantizer class K and each option variant:
  q  = K(**args)                      (numeric options symbolic, the others varied one at a time)
  q2 = K.from_config(q.get_config())  and  q3 = get_quantizer({"class_name": K, "config": cfg})
Clauses:
  no_raise             the round trip does not raise
  attr_<a>             for every attribute a in R(K) - the attributes READ by __call__/max/min and the
                       methods/properties they reach, computed from the AST - q2.a == q.a
                       (equal read state => equal function, frame argument)
  via_get_quantizer    the generic lookup route yields the same state
  registry             every @register_quantizer class is found under its own name (one case)
Assumed (K2): keras deserialize_keras_object looks class_name up in module_objects and calls from_config.
"""
import ast

import z3

from pyvc.contract import Case, Scen, run_call
from pyvc.values import *  # noqa
from pyvc import interp as I
from . import quant as Q

PROP = "C09"
ASSUME = ["K2: deserialize_keras_object(dict, module_objects) = module_objects[class_name].from_config(config)",
          "equal values of every attribute read by __call__/max/min imply equal outputs (frame argument; self.scale is an output)",
          "non-numeric options are varied one at a time from the defaults (numeric options are symbolic simultaneously)"]

CLASSES = ["quantized_linear", "quantized_bits", "bernoulli", "ternary", "stochastic_ternary", "binary",
           "stochastic_binary", "quantized_relu", "quantized_ulaw", "quantized_tanh", "quantized_sigmoid",
           "quantized_po2", "quantized_relu_po2", "quantized_hswish"]

# alternatives for options whose default is None / bool / str (value builders get the scenario)
ALT = {
    "alpha": ["auto", "auto_po2", ("real", "alpha"), ("real", "alpha_nd")],     # alpha_nd: a per-channel numpy array
    "scale_axis": [0, [0, 1]],
    "elements_per_scale": [2, [2, 3]],
    "min_po2_exponent": [-3, 0],        # 0 is a legal value everywhere below: truthiness tests must not drop it
    "max_po2_exponent": [3, 0],
    "max_value": [2.0, 0.5],
    "relu_upper_bound": [6.0],
    "threshold": [0.5, 0.0],
    "var_name": ["v"],
    "log2_rounding": ["floor"],
    "negative_slope": [0.25],
    "post_training_scale": [("real", "pts")],
}
SKIP_PARAMS = {"var_name"}       # naming only; never read by __call__


def read_set(ip, cls, roots=("__call__", "max", "min")):
  """Attributes read (self.X loads) by __call__/max/min/range and everything they reach through self."""
  seen, attrs = set(), set()
  work = list(roots)

  def find(name):
    v, owner = cls.lookup(name)
    return v

  while work:
    m = work.pop()
    if m in seen:
      continue
    seen.add(m)
    fv = find(m)
    if not isinstance(fv, FuncVal):
      continue
    for c in cls.mro():
      if isinstance(c, ClassVal) and m in c.ns and isinstance(c.ns[m], FuncVal):
        node = c.ns[m].node
        for n in ast.walk(node):
          if isinstance(n, ast.Attribute) and isinstance(n.value, ast.Name) and n.value.id == "self":
            tgt = find(n.attr)
            if isinstance(tgt, FuncVal):
              work.append(n.attr)
            elif isinstance(n.ctx, ast.Load):
              attrs.add(n.attr)
  return attrs - {"built"}     # scale is compared as constructed (None, or the frozen post-training scale)


def sym_for(ip, s, name, default):
  """Symbolic value for a numeric option."""
  if isinstance(default, bool) or default is None or isinstance(default, str):
    return default
  if name in ("negative_slope", "use_sigmoid", "symmetric", "keep_negative", "use_stochastic_rounding",
              "number_of_unrolls"):
    return default
  if isinstance(default, int):
    v = z3.Int("a_" + name)
    s.vars["a_" + name] = v
    lo = 2 if name == "bits" else 0
    ip.assume(z3.And(v >= lo, v <= 64))
    return SNum(v, "int")
  if isinstance(default, float):
    if name in ("negative_slope",):
      return default
    v = z3.Real("a_" + name)
    s.vars["a_" + name] = v
    if name == "qnoise_factor":
      ip.assume(z3.And(v >= 0, v <= 1))
    else:
      ip.assume(v >= 0)
    return SNum(v, "float")
  return default


def alt_value(ip, s, spec):
  if isinstance(spec, tuple) and spec[0] == "real":
    v = z3.Real("alt_" + spec[1])
    s.vars["alt_" + spec[1]] = v
    ip.assume(v > 0)
    if spec[1] == "alpha_nd":
      return SNum(v, "float", None, {"ndarray": True, "shape": (1, 3)})
    if spec[1] == "pts":
      # a per-row frozen scale: numpy array of shape (4, 1)
      return SNum(v, "float", None, {"ndarray": True, "shape": (4, 1)})
    return SNum(v, "float")
  return spec


def same(ip, a, b):
  a, b = ip.deref(a), ip.deref(b)
  if a is b:
    return True
  if isinstance(a, SNum) and isinstance(b, (SNum, int, float)) or isinstance(b, SNum) and isinstance(a, (int, float)):
    sa = a.tag.get("shape") if isinstance(a, SNum) and isinstance(a.tag, dict) else None
    sb = b.tag.get("shape") if isinstance(b, SNum) and isinstance(b.tag, dict) else None
    if sa is not None and sb is not None and tuple(sa) != tuple(sb):
      return False       # same values laid out in a different array shape broadcast differently
    kind = lambda v: ("list" if v.tag.get("pylist") else "ndarray" if v.tag.get("ndarray") else "scalar") \
        if isinstance(v, SNum) and isinstance(v.tag, dict) else "scalar"
    if "list" in (kind(a), kind(b)) and kind(a) != kind(b):
      return False       # an array that came back as a nested Python list is a different value (isinstance tests differ)
    return Q.num_value(a) == Q.num_value(b)
  if isinstance(a, SBool) and isinstance(b, SBool):
    return a.e == b.e
  if isinstance(a, (list, tuple)) and isinstance(b, (list, tuple)):
    if len(a) != len(b):
      return False
    rs = [same(ip, x, y) for x, y in zip(a, b)]
    if any(r is False for r in rs):
      return False
    zs = [r for r in rs if r is not True]
    return z3.And(*zs) if zs else True
  if is_sym(a) or is_sym(b):
    return False
  try:
    if type(a) != type(b) and not (isinstance(a, (int, float)) and isinstance(b, (int, float))):
      return False
    return bool(a == b)
  except Exception:  # pylint: disable=broad-except
    return False


def variants(params):
  """[(label, {param: alt spec})]: baseline plus each non-numeric option changed individually."""
  out = [("defaults", {})]
  for name, default in params:
    if name in SKIP_PARAMS:
      continue
    if isinstance(default, bool):
      out.append(("%s=%s" % (name, not default), {name: (not default)}))
    elif isinstance(default, int) and name in ("symmetric", "use_sigmoid", "use_stochastic_rounding"):
      out.append(("%s=%s" % (name, 1 - default), {name: 1 - default}))
    elif name in ALT and (default is None or isinstance(default, (str, float, int))):
      # (int: quantized_relu_po2 spells its default negative_slope as the int 0 - seed c09-6)
      for i, a in enumerate(ALT[name]):
        lab = a if not isinstance(a, tuple) else (a[0] if a[1] != "alpha_nd" else "ndarray")
        if isinstance(a, list):
          lab = "list" + "_".join(str(t) for t in a)
        extra = {}
        if name == "post_training_scale":
          extra = {"alpha": "auto_po2"}
        if name == "scale_axis":
          extra = {"alpha": "auto"}
        if name in ("elements_per_scale", "min_po2_exponent", "max_po2_exponent"):
          extra = {"alpha": "auto_po2"}
          if name == "elements_per_scale":
            extra["scale_axis"] = 0 if not isinstance(a, list) else [0, 1]
        d = {name: a}
        d.update(extra)
        out.append(("%s=%s" % (name, lab), d))
  return out


def class_params(ip, clsname):
  cls = Q.qcls(ip, clsname)
  init, _ = cls.lookup("__init__")
  a = init.node.args
  names = [p.arg for p in a.args][1:]
  defaults = [None] * (len(names) - len(init.defaults)) + list(init.defaults)
  return cls, list(zip(names, defaults))


def rt_scenario(clsname, label, changes):
  def scenario(ip):
    s = Scen()
    cls, params = class_params(ip, clsname)
    kw = {}
    for name, default in params:
      if name in changes:
        kw[name] = alt_value(ip, s, changes[name])
      else:
        kw[name] = sym_for(ip, s, name, default)
    r = run_call(ip, cls, [], kw)
    if r[0] != "return":
      # the variant itself is rejected by the constructor: nothing to round-trip
      s.claim("constructible", True)
      s.info["raised"] = "constructor: %s" % (r[1],)
      return s
    q = r[1]
    s.replay = {"class": clsname, "kwargs": dict(kw)}
    if "post_training_scale" in changes:
      s.replay["pts_shape"] = [4, 1]
    if isinstance(changes.get("alpha"), tuple) and changes["alpha"][1] == "alpha_nd":
      s.replay["alpha_shape"] = [1, 3]
    rc = run_call(ip, ip.getattr(q, "get_config"), [])
    if rc[0] != "return":
      s.claim("no_raise", False)
      s.info["raised"] = "get_config: %s" % (rc[1],)
      return s
    cfg = rc[1]
    r2 = run_call(ip, ip.getattr(cls, "from_config"), [dict(cfg)])
    s.claim("no_raise", r2[0] == "return")
    if r2[0] != "return":
      s.info["raised"] = "from_config: %s" % (r2[1],)
      return s
    q2 = r2[1]
    rs = read_set(ip, cls)
    diffs = []
    for a in sorted(rs):
      if a not in q.attrs and a not in q2.attrs:
        continue
      if same(ip, q.attrs.get(a, "<missing>"), q2.attrs.get(a, "<missing>")) is False:
        diffs.append(a)
    if diffs:
      s.info["raised"] = "attributes not restored by the round trip: %s" % diffs
    # generic lookup route
    gq = ip.getattr(ip.get_module(Q.QZ), "get_quantizer")
    r3 = run_call(ip, gq, [{"class_name": clsname, "config": dict(cfg)}])
    if r3[0] == "return" and isinstance(r3[1], Obj):
      q3 = r3[1]
      d3 = [a for a in sorted(rs) if (a in q2.attrs or a in q3.attrs) and
            same(ip, q2.attrs.get(a, "<missing>"), q3.attrs.get(a, "<missing>")) is not True]
      s.claim("via_get_quantizer", type(q3) is type(q2) and q3.cls is q2.cls and not [a for a in d3 if same(ip, q2.attrs.get(a, "<missing>"), q3.attrs.get(a, "<missing>")) is False])
    else:
      s.info["raised"] = "get_quantizer: %s" % (r3[1],)
      s.claim("via_get_quantizer", False)
    # the property: same outputs (and the same scale) on every input
    x = Q.tensor("x", shape=(4, 6))
    s.vars["x"] = x.e

    def run(qq):
      ip.draw_counter = 0
      return Q.call(ip, qq, x)
    o1 = run(q)
    if o1[0] != "return":
      # the original itself rejects this configuration at call time: nothing to compare
      s.info["raised"] = "original raises at call: %s" % (o1[1],)
      s.claim("same_output", True)
      return s
    s.replay["probe_shape"] = [4, 6]
    if not diffs:
      # every attribute read by __call__/max/min (and what they reach) was restored: same code on the
      # same state computes the same function (frame argument) - no solver needed
      s.claim("same_output", True)
      s.claim("state_restored", True)
    else:
      s.claim("state_restored_or_irrelevant", True)
      o2 = run(q2)
      if o2[0] != "return":
        s.info["raised"] = "rebuilt quantizer raises at call: %s" % (o2[1],)
        s.claim("same_output", False)
        return s
      s.claim("same_output", Q.value(o1) == Q.value(o2))
      sc1, sc2 = q.attrs.get("scale"), q2.attrs.get("scale")
      if sc1 is not None or sc2 is not None:
        s.claim("same_scale", same(ip, sc1, sc2))
    return s
  return scenario


def registry_scenario():
  def scenario(ip):
    s = Scen()
    mod = ip.get_module(Q.QZ)
    reg = ip.get_module("qkeras.quantizer_registry")
    lookup = ip.getattr(reg, "lookup_quantizer")
    decorated = [n.name for n in mod.tree.body if isinstance(n, ast.ClassDef) and
                 any("register_quantizer" in ast.unparse(d) for d in n.decorator_list)]
    s.claim("all_14_decorated", sorted(decorated) == sorted(CLASSES))
    ok = True
    for name in decorated:
      r = run_call(ip, lookup, [name])
      if r[0] != "return" or r[1] is not ip.getattr(mod, name):
        ok = False
        s.info["raised"] = "lookup(%s) -> %r" % (name, r[1])
    s.claim("registry", ok)
    r = run_call(ip, lookup, ["no_such_quantizer"])
    s.claim("missing_raises", r[0] == "raise" and r[1].name == "KeyError")
    return s
  return scenario


def _phase1(ip):
  ip.learning_phase = 1


def cases(tier):
  out = []
  ip = None
  from pyvc import contract as C
  ip = C.new_interp()
  for c in CLASSES:
    _, params = class_params(ip, c)
    for label, changes in variants(params):
      out.append(Case(PROP, Q.QF + c + ".get_config", label, rt_scenario(c, label, changes),
                      replay_kind="c09_rt", assumptions=ASSUME, setup=_phase1))
  out.append(Case(PROP, "qkeras/quantizer_registry.py::lookup_quantizer", "all", registry_scenario(),
                  replay_kind=None, assumptions=ASSUME))
  return out
