"""C15 - batch-norm folding preserves the network function at inference.

Element mode (real algebra): one kernel element / one output channel.  The convolution for fixed inputs and
hyper-parameters is an uninterpreted function conv(k) of the kernel value, LINEAR in the kernel (K1; the
instances conv(s*k) = s*conv(k) needed are supplied explicitly), rsqrt is uninterpreted and positive,
quantizers are uninterpreted functions.

Functions under contract: QConv2DBatchnorm.call / get_folded_weights,
                          QDepthwiseConv2DBatchnorm.call / get_folded_weights   (training = False)
Clauses:
  fold_q      with quantizers: ret = act( conv(Qk(k * inv)) + Qb((b - mean) * inv + beta) ),  inv = gamma*rsqrt(var+eps)
  fold_noq    without quantizers: ret = gamma*(conv(k) + b - mean)*rsqrt(var+eps) + beta   (= conv then batch norm)
  folded_weights  get_folded_weights returns [k*inv, (b - mean)*inv + beta]
both folding modes, use_bias on/off, scale (gamma) on/off.
"""
import z3

from pyvc.contract import Case, Scen, run_call
from pyvc.values import *  # noqa
from pyvc import lib as L
from . import quant as Q

PROP = "C15"
ASSUME = ["K1: convolution is linear in the kernel for fixed inputs (instances supplied explicitly)",
          "Keras BatchNormalization exposes gamma/beta/moving_mean/moving_variance/epsilon/axis and _moments (K4)",
          "A1 real arithmetic"]

QK = z3.Function("Qkernel", z3.RealSort(), z3.RealSort())
QB = z3.Function("Qbias", z3.RealSort(), z3.RealSort())
ACT = z3.Function("Qact", z3.RealSort(), z3.RealSort())


def qstub(f):
  return Builtin(str(f), lambda ip, x: SNum(f(Q.num_value(x)), "tensor"))


def mk_layer(ip, s, target, kernel_attr, mode, quant, use_bias, scale, depthwise):
  cls = ip.find(target)
  R_ = lambda n: z3.Real(n)
  k, b, g, be, mu, var, eps, bmu, bvar = [R_(n) for n in ("k", "b", "gamma", "beta", "mov_mean", "mov_var", "eps",
                                                           "batch_mean", "batch_var")]
  for n, v in zip(("k", "b", "gamma", "beta", "mov_mean", "mov_var", "eps"), (k, b, g, be, mu, var, eps)):
    s.vars[n] = v
  ip.assume(z3.And(var >= 0, eps > 0, bvar >= 0))
  TN = lambda v: SNum(v, "tensor", None, {"shape": (3, 3, 2, 4)})
  bn = Obj(ExtClass("BatchNormalization"), {
      "gamma": TN(g) if scale else None, "beta": TN(be), "moving_mean": TN(mu), "moving_variance": TN(var),
      "epsilon": SNum(eps, "float"), "axis": [3], "_param_dtype": "float32",
      "_get_training_value": Builtin("_get_training_value", lambda ip_, t=None: bool(t) if t is not None else False),
      "_moments": Builtin("_moments", lambda ip_, x, axes, keep_dims=False: (TN(bmu), TN(bvar))),
      "__call__": lambda ip_, o, a, kw: None})
  it = Obj(ExtClass("Variable"), {"assign_add": Builtin("assign_add", lambda ip_, v: None)})
  hpn = lambda n: Term("hp:" + n)
  attrs = {kernel_attr: TN(k), "bias": TN(b) if use_bias else None, "use_bias": use_bias, "batchnorm": bn,
           "ema_freeze_delay": None, "_iteration": it, "folding_mode": mode, "strides": hpn("strides"),
           "padding": hpn("padding"), "data_format": hpn("data_format"), "dilation_rate": hpn("dilation_rate"),
           "activation": qstub(ACT) if quant else None}
  if depthwise:
    attrs.update({"depthwise_quantizer": "set" if quant else None,
                  "depthwise_quantizer_internal": qstub(QK) if quant else None,
                  "bias_quantizer": "set" if quant else None,
                  "bias_quantizer_internal": qstub(QB) if quant else None})
  else:
    attrs.update({"kernel_quantizer": "set" if quant else None,
                  "kernel_quantizer_internal": qstub(QK) if quant else None,
                  "bias_quantizer": "set" if quant else None,
                  "bias_quantizer_internal": qstub(QB) if quant else None})
  lay = Obj(cls, attrs)
  return lay, (k, b if use_bias else z3.RealVal(0), g if scale else z3.RealVal(1), be, mu, var, eps)


def call_scenario(target, kernel_attr, mode, quant, use_bias, scale, depthwise):
  def scenario(ip):
    s = Scen()
    lay, (k, b, g, be, mu, var, eps) = mk_layer(ip, s, target, kernel_attr, mode, quant, use_bias, scale, depthwise)
    r = run_call(ip, ip.getattr(lay, "call"), [Term("inputs")], {"training": False})
    s.claim("no_raise", r[0] == "return")
    if r[0] != "return":
      s.info["raised"] = str(r[1])
      return s
    ret = r[1]
    if not isinstance(ret, SNum):
      s.info["raised"] = "call returned %r" % (ret,)
      s.claim("fold", False)
      return s
    ret_e = Q.num_value(ret)
    # the conv operator used by the code for this layer (same inputs/hyper-parameters on both calls)
    convs = [f for (kind, key), f in L._LIN_FUNS.items()]
    inv = g * L.RSQRT(var + eps)
    goals = []
    for conv in convs:
      if quant:
        goals.append(ret_e == ACT(conv(QK(k * inv)) + QB((b - mu) * inv + be)))
      else:
        goals.append(ret_e == g * (conv(k) + b - mu) * L.RSQRT(var + eps) + be)
        # linearity instance: conv(inv * k) == inv * conv(k)
        ip.assume(conv(inv * k) == inv * conv(k))
        ip.assume(conv(k * inv) == inv * conv(k))
    s.claim("fold_q" if quant else "fold_noq", z3.Or(*goals) if goals else False)
    # every convolution the layer performs (the one feeding the statistics and the one producing the output) carries the
    # layer's own hyper-parameters
    want = {n: repr(lay.attrs[n]) for n in ("strides", "padding", "dilation_rate", "data_format") if n in lay.attrs}
    bad = []
    for (kind, key) in L._LIN_FUNS:
      for n, v in want.items():
        if ("('%s', %r)" % (n, v)) not in key and ("('%s', \"%s\")" % (n, v)) not in key:
          bad.append("%s call without %s=%s: %s" % (kind, n, v, key[:200]))
    if bad:
      s.info["raised"] = "; ".join(bad[:3])
    s.claim("conv_hyper_parameters", bool(L._LIN_FUNS) and not bad)
    return s
  return scenario


def weights_scenario(target, kernel_attr, use_bias, scale, depthwise):
  def scenario(ip):
    s = Scen()
    lay, (k, b, g, be, mu, var, eps) = mk_layer(ip, s, target, kernel_attr, "ema_stats_folding", False, use_bias, scale, depthwise)
    r = run_call(ip, ip.getattr(lay, "get_folded_weights"), [])
    s.claim("no_raise", r[0] == "return")
    if r[0] != "return":
      s.info["raised"] = str(r[1])
      return s
    fk, fb = r[1][0], r[1][1]
    inv = g * L.RSQRT(var + eps)
    s.claim("folded_weights", z3.And(Q.num_value(fk) == k * inv, Q.num_value(fb) == (b - mu) * inv + be))
    return s
  return scenario


def unfold_scenario(kind, use_bias):
  """unfold_model on [folded layer, plain layer]: Keras clone_model is replaced by its contract (applies clone_function to
  every layer, keeps the order).  The folded layer must become the plain quantized layer with the SAME quantizers and
  hyper-parameters, use_bias forced on, and receive exactly get_folded_weights(); other layers are rebuilt from their
  config and receive their own weights."""
  def scenario(ip):
    from . import c13
    s = Scen()
    bu = ip.get_module("qkeras.bn_folding_utils")
    ip.overrides["qkeras.quantizers::get_quantizer"] = c13.gq_contract
    ip.overrides["qkeras.qlayers::get_auto_range_constraint_initializer"] = lambda ip_, fv, a, k: (a[1], a[2])
    ip.term_hooks = {"get_config": lambda ip_, recv, a, k: dict(recv.kw) if isinstance(recv, Term) else {},
                     "numpy": lambda ip_, recv, a, k: recv}
    if kind == "conv":
      modname, cname, plain, wq = "qkeras.qconv2d_batchnorm", "QConv2DBatchnorm", "QConv2D", "kernel_quantizer"
    else:
      modname, cname, plain, wq = ("qkeras.qdepthwiseconv2d_batchnorm", "QDepthwiseConv2DBatchnorm", "QDepthwiseConv2D",
                                   "depthwise_quantizer")
    cls = ip.get_module(modname).env.vars[cname]
    init, _ = cls.lookup("__init__")
    params = [a.arg for a in init.node.args.args[1:]]
    kw = {}
    for p_ in params:
      if p_ == "use_bias":
        kw[p_] = use_bias
      elif p_ in c13.CONCRETE:
        kw[p_] = c13.CONCRETE[p_]
      elif p_.endswith("_quantizer"):
        kw[p_] = Obj(ExtClass("quantizer"), {"name": "q_" + p_}, label="q_" + p_)
      else:
        kw[p_] = Term("v:" + p_)
    kw["name"] = Term("v:name")
    r = run_call(ip, cls, [], kw)
    s.claim("constructs", r[0] == "return")
    if r[0] != "return":
      s.info["raised"] = str(r[1])
      return s
    folded = r[1]
    fw = [Term("folded_kernel"), Term("folded_bias")]
    ip.setattr(folded, "get_folded_weights", Builtin("get_folded_weights", lambda ip_: list(fw)))
    in0 = Term("in_shape0") if kind == "conv" else (None, 8, 8, 3)     # QDepthwiseConv2D.build inspects the shape
    ip.setattr(folded, "input_shape", in0)
    dense_cls = ip.get_module("qkeras.qlayers").env.vars["QDense"]
    other = ip.call(dense_cls, [], {"units": Term("v:units"),
                                    "kernel_quantizer": Obj(ExtClass("quantizer"), {"name": "qk"}, label="qk"),
                                    "name": Term("v:dense")})
    ip.setattr(other, "input_shape", Term("in_shape1"))
    ip.setattr(other, "get_weights", Builtin("get_weights", lambda ip_: Term("dense_weights")))
    model = Obj(ExtClass("Model"), {"layers": [folded, other], "input_shape": (None, Term("h"), Term("w"), Term("c"))})

    def clone_contract(ip_, m, input_tensors=None, clone_function=None):
      new = [ip_.call(clone_function, [l], {}) for l in ip_.getattr(m, "layers")]
      return Obj(ExtClass("Model"), {"layers": new})
    ip.setattr(bu, "clone_model", Builtin("clone_model", clone_contract))
    ip.setattr(bu, "Input", Builtin("Input", lambda ip_, shape=None, **k: Term("Input", (shape,))))
    r = run_call(ip, bu.env.vars["unfold_model"], [model])
    s.claim("no_raise", r[0] == "return")
    if r[0] != "return":
      s.info["raised"] = str(r[1])
      return s
    new_layers = ip.getattr(r[1], "layers")
    n0, n1 = new_layers[0], new_layers[1]
    plain_cls = ip.get_module("qkeras.qconvolutional").env.vars[plain]
    s.claim("becomes_plain_layer", isinstance(n0, Obj) and n0.cls is plain_cls)
    if not (isinstance(n0, Obj) and n0.cls is plain_cls):
      return s
    same = lambda a: c13.same_val(n0.attrs.get(a), folded.attrs.get(a))
    for a in (wq, wq + "_internal", "bias_quantizer", "bias_quantizer_internal", "activation", "strides", "padding",
              "dilation_rate", "kernel_size", "data_format") + (("filters",) if kind == "conv" else ("depth_multiplier",)):
      if a in folded.attrs:
        s.claim("keeps_" + a, same(a))
    s.claim("bias_forced_on", n0.attrs.get("use_bias") is True)
    calls0 = n0.attrs.get("__calls__", [])
    sets0 = [a for n_, a in calls0 if n_ == "set_weights"]
    s.claim("folded_weights_installed", len(sets0) == 1 and list(sets0[0][0]) == fw)
    if kind == "conv":
      s.claim("built_on_source_shape", [a for n_, a in calls0 if n_ == "build"] == [(in0,)])
    s.claim("other_layer_rebuilt", isinstance(n1, Obj) and n1.cls is dense_cls and n1 is not other and
            c13.same_val(n1.attrs.get("kernel_quantizer_internal"), other.attrs.get("kernel_quantizer_internal")) and
            c13.same_val(n1.attrs.get("units"), other.attrs.get("units")))
    sets1 = [a for n_, a in n1.attrs.get("__calls__", []) if n_ == "set_weights"] if isinstance(n1, Obj) else []
    s.claim("other_layer_weights_copied", sets1 == [(Term("dense_weights"),)])
    return s
  return scenario


FOLD_GRAPH_STUB = """
class EdgeView(object):
  def __init__(self, g):
    self.g = g
  def __call__(self, n):
    return [(n, v) for v in self.g.succ[n]]
  def __getitem__(self, uv):
    return self.g.adj[uv[0]][uv[1]]

class DiGraph(object):
  # contract of networkx.DiGraph as far as convert_to_folded_model and qgraph.GraphRemoveNode use it
  def __init__(self):
    self.nodes = {}
    self.adj = {}
    self.pred = {}
    self.succ = {}
    self.order = []
    self.edges = EdgeView(self)
  def add_node(self, n, **attrs):
    self.nodes[n] = attrs
    self.adj[n] = {}
    self.pred[n] = []
    self.succ[n] = []
    self.order.append(n)
  def add_edge(self, u, v, **attrs):
    if v not in self.adj[u]:
      self.succ[u].append(v)
      self.pred[v].append(u)
    self.adj[u][v] = attrs
  def add_edges_from(self, triples):
    for (u, v, attrs) in triples:
      self.add_edge(u, v, **dict(attrs))
  def remove_node(self, n):
    for u in list(self.pred[n]):
      self.succ[u].remove(n)
      del self.adj[u][n]
    for w in list(self.succ[n]):
      self.pred[w].remove(n)
    del self.nodes[n]
    del self.adj[n]
    del self.pred[n]
    del self.succ[n]
    self.order.remove(n)
  def predecessors(self, n):
    return iter(list(self.pred[n]))
  def successors(self, n):
    return iter(list(self.succ[n]))
  def __getitem__(self, u):
    return self.adj[u]
  def topological_order(self):
    return list(self.order)
"""


def fold_scenario(topology):
  """convert_to_folded_model on stub graphs (qgraph's graph construction replaced by the graph, networkx by a stub
  contract, layers by callables that record what they are applied to): a Conv2D / DepthwiseConv2D is folded exactly when
  a BatchNormalization is its ONLY consumer; the rebuilt model applies every remaining layer to the outputs of its
  predecessors, a folded convolution taking the place of its batch normalisation.
  topology: 'chain' | 'residual' (conv feeds bn and a skip branch) | 'two' (conv-bn-dwconv-bn) | 'dense_bn'"""
  def scenario(ip):
    s = Scen()
    gm = ip.load_source("c15_fold_graph_stub", FOLD_GRAPH_STUB)
    g = ip.call(gm.env.vars["DiGraph"], [], {})
    add_node, add_edge = ip.getattr(g, "add_node"), ip.getattr(g, "add_edge")
    applied = {}

    def tensor(label):
      t = Obj(ExtClass("KerasTensor"), {"label": label}, label=label)
      ref = Obj(ExtClass("Ref"), {"deref": Builtin("deref", lambda ip_, t=t: t)})
      t.attrs["ref"] = Builtin("ref", lambda ip_, ref=ref: ref)
      return t
    layers = {}

    def node(i, cls, name):
      if cls is None:
        lay = None
      else:
        lay = Obj(ExtClass(cls), {"name": name}, label=name)

        def call(ip_, inputs, name=name):
          ins = [x.attrs["label"] for x in inputs] if isinstance(inputs, list) else [inputs.attrs["label"]]
          applied[name] = ins
          return tensor(name + ":out")
        lay.attrs["__call__"] = lambda ip_, obj_, args_, kwargs_, call=call: call(ip_, *args_)
      layers[i] = lay
      ip.call(add_node, [i], {"layer": [lay], "type": [cls], "out_quantizer": None})
    tin = tensor("input")
    edge = lambda u, v: ip.call(add_edge, [u, v], {"shape": (None, 4, 4, 3), "tensor": ip.call(ip.getattr(tin, "ref"), [], {}),
                                                   "quantizer": None})
    node(-1, None, None)
    if topology == "chain":
      node(0, "Conv2D", "c1"); node(1, "BatchNormalization", "b1"); node(2, "Activation", "a1")
      es, fold = [(-1, 0), (0, 1), (1, 2), (2, -2)], ["c1"]
      flow = {"c1": ["input"], "a1": ["c1:out"]}
    elif topology == "residual":
      node(0, "Conv2D", "c1"); node(1, "BatchNormalization", "b1"); node(2, "Conv2D", "c2"); node(3, "Add", "add")
      es, fold = [(-1, 0), (0, 1), (0, 2), (1, 3), (2, 3), (3, -2)], []
      flow = {"c1": ["input"], "b1": ["c1:out"], "c2": ["c1:out"], "add": ["b1:out", "c2:out"]}
    elif topology == "two":
      node(0, "Conv2D", "c1"); node(1, "BatchNormalization", "b1"); node(2, "DepthwiseConv2D", "d2")
      node(3, "BatchNormalization", "b2"); node(4, "Activation", "a1")
      es, fold = [(-1, 0), (0, 1), (1, 2), (2, 3), (3, 4), (4, -2)], ["c1", "d2"]
      flow = {"c1": ["input"], "d2": ["c1:out"], "a1": ["d2:out"]}
    else:
      node(0, "Dense", "d1"); node(1, "BatchNormalization", "b1")
      es, fold = [(-1, 0), (0, 1), (1, -2)], []
      flow = {"d1": ["input"], "b1": ["d1:out"]}
    node(-2, None, None)
    for u, v in es:
      edge(u, v)
    model = Obj(ExtClass("Model"), {"layers": [l for l in layers.values() if l is not None], "inputs": [tin],
                                    "get_config": Builtin("get_config", lambda ip_: {"layers": []})})
    ip.overrides["qkeras.utils::clone_model"] = lambda ip_, fv, a, k: a[0]
    ip.overrides["qkeras.qtools.qgraph::GenerateGraphFromModel"] = lambda ip_, fv, a, k: (g, None)
    for fn in ("GraphAddSingleSourceSingleSink", "GraphRemoveNodeWithNodeType", "GraphPropagateActivationsToEdges"):
      ip.overrides["qkeras.qtools.qgraph::" + fn] = lambda ip_, fv, a, k: None
    r = run_call(ip, ip.find("qkeras/utils.py::convert_to_folded_model"), [model])
    s.claim("no_raise", r[0] == "return")
    if r[0] != "return":
      s.info["raised"] = str(r[1])
      return s
    new_model, folded = r[1]
    if list(folded) != fold:
      s.info["raised"] = "folded %r, expected %r" % (list(folded), fold)
    s.claim("folds_exactly_sole_consumer_bn", list(folded) == fold)
    if applied != flow:
      s.info["raised"] = "rebuilt dataflow %r, expected %r" % (applied, flow)
    s.claim("rebuilt_dataflow", applied == flow)
    return s
  return scenario


def cases(tier):
  out = []
  layers = [("qkeras/qconv2d_batchnorm.py::QConv2DBatchnorm", "kernel", False),
            ("qkeras/qdepthwiseconv2d_batchnorm.py::QDepthwiseConv2DBatchnorm", "depthwise_kernel", True)]
  for target, kattr, dw in layers:
    for mode in ("batch_stats_folding", "ema_stats_folding"):
      for quant in (True, False):
        for ub in (True, False):
          for sc in (True, False):
            name = "%s_%s_bias%d_scale%d" % (mode.split("_")[0], "q" if quant else "noq", ub, sc)
            out.append(Case(PROP, target + ".call", name, call_scenario(target, kattr, mode, quant, ub, sc, dw),
                            replay_kind=None, assumptions=ASSUME, term_mode=True))
    for ub in (True, False):
      for sc in (True, False):
        out.append(Case(PROP, target + ".get_folded_weights", "bias%d_scale%d" % (ub, sc),
                        weights_scenario(target, kattr, ub, sc, dw), replay_kind=None, assumptions=ASSUME, term_mode=True))
  for topo in ("chain", "residual", "two", "dense_bn"):
    out.append(Case(PROP, "qkeras/utils.py::convert_to_folded_model", topo, fold_scenario(topo), replay_kind=None,
                    assumptions=ASSUME + ["qgraph.GenerateGraphFromModel and the graph clean-up passes replaced by the "
                                          "resulting graph; networkx.DiGraph as a stub contract; layers are callables "
                                          "recording their inputs; tf.keras Model(inputs, outputs) as a record"]))
  for kind in ("conv", "depthwise"):
    for ub in (True, False):
      out.append(Case(PROP, "qkeras/bn_folding_utils.py::unfold_model", "%s_bias%d" % (kind, ub), unfold_scenario(kind, ub),
                      replay_kind=None, term_mode=True,
                      assumptions=ASSUME + ["K2: clone_model applies clone_function to every layer and keeps their order",
                                            "K1: Keras base constructors store / report their keyword arguments; build and set_weights of the new layers are recorded"]))
  return out
