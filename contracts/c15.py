"""C15 - batch-norm folding preserves the network function at inference.

Element mode (real algebra): one kernel element / one output channel.  The convolution for fixed inputs and
hyper-parameters is an uninterpreted function conv(k) of the kernel value, LINEAR in the kernel (K1; the
instances conv(s*k) = s*conv(k) needed are supplied explicitly), rsqrt is uninterpreted and positive,
quantizers are uninterpreted functions.

Functions under contract: QConv2DBatchnorm.call / get_folded_weights,
                          QDepthwiseConv2DBatchnorm.call / get_folded_weights   (training = False)
Clauses:
  fold_q      with quantizers: ret = act( conv(Qk(k * inv)) + Qb((b - mean) * inv + beta) ),  inv = gamma*rsqrt(var+eps)
  fold_noq    without quantizers: ret = gamma*(conv(k) + b - mean)*rsqrt(var+eps) + beta   (= conv then batch norm)
  folded_weights  get_folded_weights returns [k*inv, (b - mean)*inv + beta]
both folding modes, use_bias on/off, scale (gamma) on/off.
"""
import z3

from pyvc.contract import Case, Scen, run_call
from pyvc.values import *  # noqa
from pyvc import lib as L
from . import quant as Q

PROP = "C15"
ASSUME = ["K1: convolution is linear in the kernel for fixed inputs (instances supplied explicitly)",
          "Keras BatchNormalization exposes gamma/beta/moving_mean/moving_variance/epsilon/axis and _moments (K4)",
          "A1 real arithmetic"]

QK = z3.Function("Qkernel", z3.RealSort(), z3.RealSort())
QB = z3.Function("Qbias", z3.RealSort(), z3.RealSort())
ACT = z3.Function("Qact", z3.RealSort(), z3.RealSort())


def qstub(f):
  return Builtin(str(f), lambda ip, x: SNum(f(Q.num_value(x)), "tensor"))


def mk_layer(ip, s, target, kernel_attr, mode, quant, use_bias, scale, depthwise):
  cls = ip.find(target)
  R_ = lambda n: z3.Real(n)
  k, b, g, be, mu, var, eps, bmu, bvar = [R_(n) for n in ("k", "b", "gamma", "beta", "mov_mean", "mov_var", "eps",
                                                           "batch_mean", "batch_var")]
  for n, v in zip(("k", "b", "gamma", "beta", "mov_mean", "mov_var", "eps"), (k, b, g, be, mu, var, eps)):
    s.vars[n] = v
  ip.assume(z3.And(var >= 0, eps > 0, bvar >= 0))
  TN = lambda v: SNum(v, "tensor", None, {"shape": (3, 3, 2, 4)})
  bn = Obj(ExtClass("BatchNormalization"), {
      "gamma": TN(g) if scale else None, "beta": TN(be), "moving_mean": TN(mu), "moving_variance": TN(var),
      "epsilon": SNum(eps, "float"), "axis": [3], "_param_dtype": "float32",
      "_get_training_value": Builtin("_get_training_value", lambda ip_, t=None: bool(t) if t is not None else False),
      "_moments": Builtin("_moments", lambda ip_, x, axes, keep_dims=False: (TN(bmu), TN(bvar))),
      "__call__": lambda ip_, o, a, kw: None})
  it = Obj(ExtClass("Variable"), {"assign_add": Builtin("assign_add", lambda ip_, v: None)})
  hpn = lambda n: Term("hp:" + n)
  attrs = {kernel_attr: TN(k), "bias": TN(b) if use_bias else None, "use_bias": use_bias, "batchnorm": bn,
           "ema_freeze_delay": None, "_iteration": it, "folding_mode": mode, "strides": hpn("strides"),
           "padding": hpn("padding"), "data_format": hpn("data_format"), "dilation_rate": hpn("dilation_rate"),
           "activation": qstub(ACT) if quant else None}
  if depthwise:
    attrs.update({"depthwise_quantizer": "set" if quant else None,
                  "depthwise_quantizer_internal": qstub(QK) if quant else None,
                  "bias_quantizer": "set" if quant else None,
                  "bias_quantizer_internal": qstub(QB) if quant else None})
  else:
    attrs.update({"kernel_quantizer": "set" if quant else None,
                  "kernel_quantizer_internal": qstub(QK) if quant else None,
                  "bias_quantizer": "set" if quant else None,
                  "bias_quantizer_internal": qstub(QB) if quant else None})
  lay = Obj(cls, attrs)
  return lay, (k, b if use_bias else z3.RealVal(0), g if scale else z3.RealVal(1), be, mu, var, eps)


def call_scenario(target, kernel_attr, mode, quant, use_bias, scale, depthwise):
  def scenario(ip):
    s = Scen()
    lay, (k, b, g, be, mu, var, eps) = mk_layer(ip, s, target, kernel_attr, mode, quant, use_bias, scale, depthwise)
    r = run_call(ip, ip.getattr(lay, "call"), [Term("inputs")], {"training": False})
    s.claim("no_raise", r[0] == "return")
    if r[0] != "return":
      s.info["raised"] = str(r[1])
      return s
    ret = r[1]
    if not isinstance(ret, SNum):
      s.info["raised"] = "call returned %r" % (ret,)
      s.claim("fold", False)
      return s
    ret_e = Q.num_value(ret)
    # the conv operator used by the code for this layer (same inputs/hyper-parameters on both calls)
    convs = [f for (kind, key), f in L._LIN_FUNS.items()]
    inv = g * L.RSQRT(var + eps)
    goals = []
    for conv in convs:
      if quant:
        goals.append(ret_e == ACT(conv(QK(k * inv)) + QB((b - mu) * inv + be)))
      else:
        goals.append(ret_e == g * (conv(k) + b - mu) * L.RSQRT(var + eps) + be)
        # linearity instance: conv(inv * k) == inv * conv(k)
        ip.assume(conv(inv * k) == inv * conv(k))
        ip.assume(conv(k * inv) == inv * conv(k))
    s.claim("fold_q" if quant else "fold_noq", z3.Or(*goals) if goals else False)
    return s
  return scenario


def weights_scenario(target, kernel_attr, use_bias, scale, depthwise):
  def scenario(ip):
    s = Scen()
    lay, (k, b, g, be, mu, var, eps) = mk_layer(ip, s, target, kernel_attr, "ema_stats_folding", False, use_bias, scale, depthwise)
    r = run_call(ip, ip.getattr(lay, "get_folded_weights"), [])
    s.claim("no_raise", r[0] == "return")
    if r[0] != "return":
      s.info["raised"] = str(r[1])
      return s
    fk, fb = r[1][0], r[1][1]
    inv = g * L.RSQRT(var + eps)
    s.claim("folded_weights", z3.And(Q.num_value(fk) == k * inv, Q.num_value(fb) == (b - mu) * inv + be))
    return s
  return scenario


def cases(tier):
  out = []
  layers = [("qkeras/qconv2d_batchnorm.py::QConv2DBatchnorm", "kernel", False),
            ("qkeras/qdepthwiseconv2d_batchnorm.py::QDepthwiseConv2DBatchnorm", "depthwise_kernel", True)]
  for target, kattr, dw in layers:
    for mode in ("batch_stats_folding", "ema_stats_folding"):
      for quant in (True, False):
        for ub in (True, False):
          for sc in (True, False):
            name = "%s_%s_bias%d_scale%d" % (mode.split("_")[0], "q" if quant else "noq", ub, sc)
            out.append(Case(PROP, target + ".call", name, call_scenario(target, kattr, mode, quant, ub, sc, dw),
                            replay_kind=None, assumptions=ASSUME, term_mode=True))
    for ub in (True, False):
      for sc in (True, False):
        out.append(Case(PROP, target + ".get_folded_weights", "bias%d_scale%d" % (ub, sc),
                        weights_scenario(target, kattr, ub, sc, dw), replay_kind=None, assumptions=ASSUME, term_mode=True))
  return out
