"""C06 - quantizers stay trainable: gradients are those of the straight-through surrogate.

Second interpretation of the same extracted ASTs: the input element carries d/dx = 1 and every library
operator propagates the derivative by its rule (pyvc/lib.py: sum/product/quotient rule; stop_gradient,
round, floor, ceil, sign -> 0; clip -> pass-through inside; where -> select; relu; tanh; sigmoid).

Clauses (x away from the kinks of the surrogate):
  grad       d ret / d x equals the documented surrogate derivative of the class
  nonzero    on the unclipped range the gradient is not 0
"""
import z3

from pyvc.contract import Case, Scen, run_call
from pyvc.values import *  # noqa
from pyvc import interp as I
from . import quant as Q
from .quant import P, R

PROP = "C06"
ASSUME = ["derivative rules of TF ops (validated against tf.GradientTape in native/validate_axioms.py)",
          "A1 real arithmetic"]


def setup_grad(ip):
  ip.track_grad = True


def scenario_for(cls, variant):
  def scenario(ip):
    s = Scen()
    bits, integer = z3.Int("bits"), z3.Int("integer")
    f = z3.Real("f")
    s.vars.update({"bits": bits, "integer": integer, "f": f})
    ip.assume(z3.And(bits >= 2, integer >= 0, f >= 0, f <= 1))
    fv = SNum(f, "float")
    x = Q.tensor("x", grad=True)
    s.vars["x"] = x.e
    xe = x.e
    kw = {}
    expected = None
    nonzero_region = None
    rep = {"class": cls, "variant": variant, "bits": bits, "integer": integer, "f": f}
    if cls == "quantized_bits" and not variant.startswith("auto"):
      ste = variant == "ste"
      q = ip.call(Q.qcls(ip, cls), [SNum(bits), SNum(integer)], {"qnoise_factor": fv, "use_ste": ste})
      expected = z3.RealVal(1) if ste else 1 - f
      nonzero_region = z3.BoolVal(True)
    elif cls in ("quantized_linear", "quantized_bits") and variant.startswith("auto"):
      # data-dependent scale: the scale (a group reduction of the input) must not carry a gradient; the derivative of
      # the reduction itself is an unconstrained symbol (pyvc/lib._aggregate), so the claim holds only if the code
      # stops it
      ak = "auto_po2" if "po2" in variant else "auto"
      ste = "noste" not in variant
      kw = {"alpha": ak, "qnoise_factor": fv}
      if cls == "quantized_bits":
        kw["use_ste"] = ste
      q = ip.call(Q.qcls(ip, cls), [SNum(bits), SNum(integer), 1, 1], kw)
      x = Q.tensor("x", grad=True, shape=(3, 4))
      s.vars["x"] = x.e
      xe = x.e
      rep.update({"alpha": ak, "shape": [3, 4], "use_ste": ste})
      s.info["auto"] = (cls, ste)
    elif cls == "quantized_linear":
      q = ip.call(Q.qcls(ip, cls), [SNum(bits), SNum(integer)], {"qnoise_factor": fv})
      n = bits - 1
      unit = P(integer - n)
      lo, hi = -(I.IPOW2(n) - 1), I.IPOW2(n) - 1
      inside = z3.And(xe > z3.ToReal(lo) * unit, xe < z3.ToReal(hi) * unit)
      ip.assume(z3.And(xe != z3.ToReal(lo) * unit, xe != z3.ToReal(hi) * unit))
      expected = z3.If(inside, z3.RealVal(1), 1 - f)      # zero in the clipped region for f = 1 (documented)
      nonzero_region = inside
      s.hints.extend([n, integer, integer - n])
    elif cls == "quantized_relu":
      slope = 0.25 if "leaky" in variant else 0.0
      ste = "noste" not in variant
      clipk = "ub" if "_ub" in variant else ("noclip" if "_noclip" in variant else "q")
      kw2 = {"qnoise_factor": fv, "use_ste": ste}
      if clipk == "ub":
        kw2.update({"relu_upper_bound": 6.0, "is_quantized_clip": False})
      elif clipk == "noclip":
        kw2.update({"is_quantized_clip": False})
      q = ip.call(Q.qcls(ip, cls), [SNum(bits), SNum(integer), 0, slope], kw2)
      n = bits - (1 if slope else 0)
      if clipk == "q":
        top = P(integer) - P(integer - n)
      elif clipk == "ub":
        top = z3.RealVal(6)
      else:
        top = None
      ip.assume(xe != 0)
      if top is not None:
        ip.assume(xe != top)
        sur = z3.If(xe > top, z3.RealVal(0), z3.If(xe > 0, z3.RealVal(1), zreal(slope)))
        nonzero_region = z3.And(xe > 0, xe < top)
      else:
        sur = z3.If(xe > 0, z3.RealVal(1), zreal(slope))
        nonzero_region = xe > 0
      expected = sur if ste else (1 - f) * sur
      s.hints.extend([integer, integer - n])
      rep.update({"clip": clipk})
    elif cls == "quantized_po2":
      ste = "noste" not in variant
      mvv = SNum(P(z3.Int("mvexp")), "float") if "_mv" in variant else None
      if mvv is not None:
        ip.assume(z3.And(z3.Int("mvexp") >= 1, z3.Int("mvexp") <= 20))
        s.vars["mvexp"] = z3.Int("mvexp")
        rep["mvexp"] = z3.Int("mvexp")
      q = ip.call(Q.qcls(ip, cls), [SNum(bits), mvv], {"qnoise_factor": fv, "use_ste": ste})
      expected = z3.RealVal(1) if ste else 1 - f
      nonzero_region = z3.BoolVal(True)
    elif cls == "quantized_relu_po2":
      slope = 0.25 if "leaky" in variant else 0
      ste = "noste" not in variant
      mvv = None
      if "_mv" in variant:
        c = z3.Int("mvexp")
        ip.assume(z3.And(c >= 1, c <= 20))
        s.vars["mvexp"] = c
        rep["mvexp"] = c
        mvv = SNum(P(c), "float")
        s.hints.append(c)
      q = ip.call(Q.qcls(ip, cls), [SNum(bits), mvv, slope], {"qnoise_factor": fv, "use_ste": ste})
      ip.assume(xe != 0)
      base = z3.If(xe > 0, z3.RealVal(1), zreal(slope))
      if mvv is not None:
        ip.assume(xe != P(c))
        base = z3.If(xe > P(c), z3.RealVal(0), base)
        nonzero_region = z3.And(xe > 0, xe < P(c))
      else:
        nonzero_region = xe > 0
      expected = base if ste else (1 - f) * base
    elif cls == "quantized_tanh":
      q = ip.call(Q.qcls(ip, cls), [SNum(bits)], {})
      # hard tanh surrogate 2*clip(x/2+1/2,0,1)-1: slope 1 on (-1,1); output clip [-1, 1-2^-n]
      n = bits - 1
      ip.assume(z3.And(xe != 1, xe != -1))
      inside = z3.And(xe > -1, xe < 1)
      # the output clip additionally zeroes the gradient where the rounded value leaves [-1, 1 - 2^-n]
      expected = None
      nonzero_region = None
      s.info["custom"] = ("tanh", n)
    elif cls == "quantized_sigmoid":
      q = ip.call(Q.qcls(ip, cls), [SNum(bits)], {})
      s.info["custom"] = ("sigmoid", bits)
    elif cls in ("binary", "ternary") and variant.startswith("auto"):
      # data-dependent least-squares scale: it must stay under stop_gradient, so the surrogate is the identity
      # (derivative of the group reduction unconstrained, as for quantized_bits auto; seed c06-7)
      if cls == "binary":
        q = ip.call(Q.qcls(ip, cls), [False, variant], {})
      else:
        q = ip.call(Q.qcls(ip, cls), [variant, None], {})
      x = Q.tensor("x", grad=True, shape=(3, 4))
      s.vars["x"] = x.e
      xe = x.e
      expected = z3.RealVal(1)
      nonzero_region = z3.BoolVal(True)
      rep.update({"alpha": variant, "shape": [3, 4]})
    elif cls in ("binary", "ternary"):
      alpha = None if variant == "unscaled" else 2.0
      if cls == "binary":
        q = ip.call(Q.qcls(ip, cls), [False, alpha], {})
      else:
        q = ip.call(Q.qcls(ip, cls), [alpha, 0.5], {})
      if alpha is None:
        t = z3.Function("tanh", z3.RealSort(), z3.RealSort())(xe)
        expected = 1 - t * t
        nonzero_region = z3.BoolVal(True)
      else:
        expected = z3.RealVal(1)
        nonzero_region = z3.BoolVal(True)
      rep["alpha"] = alpha
    s.replay = rep
    r = Q.call(ip, q, x)
    s.claim("no_raise", r[0] == "return")
    if r[0] != "return":
      s.info["raised"] = str(r[1])
      return s
    g = r[1].grad
    if g is None:
      s.claim("grad", False)
      return s
    if s.info.get("auto"):
      acls, ste = s.info["auto"]
      if acls == "quantized_linear":
        # identity wherever x / quantization_scale is strictly inside the clip interval, (1 - f) outside (documented)
        qs = Q.num_value(ip.getattr(q, "quantization_scale"))
        top = z3.ToReal(I.IPOW2(bits - 1) - 1)
        ip.assume(z3.And(xe != top * qs, xe != -top * qs))
        inside = z3.And(xe > -top * qs, xe < top * qs)
        s.hints.extend([bits - 1, integer])
        s.claim("grad", g == z3.If(inside, z3.RealVal(1), 1 - f))
        s.claim("nonzero", z3.Implies(inside, g != 0))
      else:
        s.claim("grad", g == (z3.RealVal(1) if ste else 1 - f))
        s.claim("nonzero", z3.Implies(z3.BoolVal(ste), g != 0))
      return s
    if s.info.get("custom"):
      kind, n = s.info["custom"]
      # tanh/sigmoid: gradient is the hard surrogate's slope wherever the result is not clipped, else 0;
      # claimed: finite, equal to slope or 0, and equal to the slope strictly inside the surrogate's ramp
      # and the output range
      slope = z3.RealVal(1) if kind == "tanh" else z3.RealVal("1/2")
      ramp = z3.And(xe > -1, xe < 1)
      ip.assume(z3.And(xe != 1, xe != -1))
      ret = Q.value(r)
      top = 1 - P(-n)
      bot = z3.RealVal(-1) if kind == "tanh" else z3.RealVal(0)
      s.hints.extend([n, -n])
      s.claim("grad", z3.Or(g == slope, g == 0))
      s.claim("nonzero", z3.Implies(z3.And(ramp, ret > bot, ret < top), g == slope))
      return s
    s.claim("grad", g == expected)
    if nonzero_region is not None:
      s.claim("nonzero", z3.Implies(nonzero_region, g != 0))
    return s
  return scenario


def bounds(vars_):
  return [v <= 5 for k, v in vars_.items() if k in ("bits", "integer")]


def cases(tier):
  out = []
  table = [("quantized_bits", ["ste", "noste", "auto_ste", "auto_noste", "auto_po2_ste"]),
           ("quantized_linear", ["ste", "auto", "auto_po2"]),
           ("quantized_relu", ["ste", "noste", "leaky_ste", "leaky_noste", "ste_ub", "leaky_ste_ub", "noste_ub",
                               "ste_noclip", "leaky_ste_noclip"]),
           ("quantized_po2", ["ste", "noste", "ste_mv", "noste_mv"]),
           ("quantized_relu_po2", ["plain_ste", "leaky_ste", "plain_noste", "leaky_noste", "plain_ste_mv", "leaky_ste_mv",
                                   "plain_noste_mv", "leaky_noste_mv"]),
           ("quantized_tanh", ["hard"]), ("quantized_sigmoid", ["hard"]),
           ("binary", ["unscaled", "const", "auto", "auto_po2"]), ("ternary", ["unscaled", "const", "auto", "auto_po2"])]
  for cls, variants in table:
    for v in variants:
      out.append(Case(PROP, Q.QF + cls + ".__call__", v, scenario_for(cls, v), bounds=bounds,
                      replay_kind="c06_grad", assumptions=ASSUME, setup=setup_grad,
                      lo=-130 if "po2" in cls else -12, hi=130 if "po2" in cls else 12))
  return out
