"""C04 - binary / ternary quantizers emit only {-s,+s}, {0,s} or {-s,0,+s}, sign-correct.

Functions under contract (qkeras/quantizers.py): binary.__init__/__call__, ternary.__init__/__call__,
stochastic_binary / stochastic_ternary in inference phase, _get_least_squares_scale, _get_scale_mean,
_get_scaling_axis, _clip_po2_scale, _round_through (inlined).

x is the representative element of a tensor of the stated rank; a reduction over the scaling group of that element is an
uninterpreted function per (kind, tensor shape, reduction axes) applied to the element expression (pyvc.lib._aggregate),
so "the scale is computed over the right group" is the statement that the code's aggregate IS the aggregate keyed by the
expected axes (all axes but the channel axis, or the configured scale_axis complement).

Clauses
  code          ret == scale * code,  code = +-1 by the sign of x, 0 counted positive ({0,1} in 0/1 mode);
                ternary: code = sign(x) if |x| >= threshold else 0 (constant alpha), code in {-1,0,1} and code*x >= 0 (auto)
  scale_const   alpha None -> 1, alpha = a -> a
  scale_ls      auto: scale * (mean_G(code^2) + eps) == mean_G(x*code) over the expected group G   (least-squares optimum
                with the library's epsilon regulariser in the denominator)
  scale_group   every least-squares reduction is taken over exactly the expected group
  scale_nonneg  scale >= 0            (uses L-mean: the mean of non-negative elements is non-negative, mean of a constant c is c;
                                       the element-wise premise is proved for a fresh element before the lemma is applied)
  scale_po2     auto_po2: scale == 2^e with e integer, min_po2_exponent <= e <= max_po2_exponent when configured
  state         q.scale after the call is the scale used
"""
import z3

from pyvc.contract import Case, Scen, run_call
from pyvc.values import *  # noqa
from pyvc import interp as I
from pyvc import lib as L
from pyvc import vc as VC
from . import quant as Q
from .quant import P, R

PROP = "C04"
EPS = zreal(1e-07)
ASSUME = ["A1 real arithmetic for float32", "group reductions are uninterpreted functions keyed by (kind, tensor shape, axes) of the element expression",
          "L-mean: mean over a group of elements that are all >= 0 is >= 0; of elements all equal to c is c - proved in lean/Lemmas.lean, re-checked by the thorough tier",
          "tensor extents are concrete in each case (rank and channel position are what the code inspects); K.image_data_format() = channels_last",
          "log/pow: K.pow(2, round(log(s)/log 2)) = 2^rnd(log2 s) (library model)"]


def fresh_copy(expr, x):
  xp = z3.Real("x_other")
  return z3.substitute(expr, (x, xp)), xp


def apply_mean_lemmas(ip, x):
  """For every recorded mean/sum aggregate g = F(e(x)): prove the element-wise premise for a FRESH element of the same
  group (aggregates of the group are constants for it), then assume the lemma's conclusion."""
  used = []
  for kind, e, g, key in list(getattr(ip, "aggs", [])):
    if not (kind.endswith("mean") or kind.endswith("sum")):
      continue
    ep, xp = fresh_copy(e, x)
    goal = z3.Not(ep >= 0)
    r = VC.check_sat([goal] + VC.all_axioms([goal]), timeout_ms=5000, use_external=False).status
    if r == "unsat":
      ip.assume(g >= 0)
      used.append("nonneg")
    for c in (0, 1):
      goal = z3.Not(ep == c)
      r = VC.check_sat([goal] + VC.all_axioms([goal]), timeout_ms=5000, use_external=False).status
      if r == "unsat" and kind.endswith("mean"):
        ip.assume(g == c)
        used.append("const%d" % c)
  return used


def expected_axes(rank, scale_axis):
  if rank == 1:
    return None
  if scale_axis is None:
    return tuple(range(rank - 1))          # channels_last: every axis but the last
  return tuple(i for i in range(rank) if i != scale_axis)


def expected_group(shape, scale_axis, eps):
  """(shape the tensor is viewed in, axes reduced) for `elements_per_scale` = eps along scale_axis (default: last):
  the scale axis of extent d is split into d/eps blocks of eps consecutive elements (block index in place of the axis,
  the position inside the block right after it); one scale per block, i.e. everything but the block index is reduced."""
  rank = len(shape)
  if isinstance(scale_axis, list):
    # several scale axes (ascending), one block size each: every axis is split in place, the block indexes are kept
    es = eps if isinstance(eps, list) else [eps] * len(scale_axis)
    view, keep = [], []
    for i, d in enumerate(shape):
      if i in scale_axis:
        e = es[scale_axis.index(i)]
        keep.append(len(view))
        view.extend([d // e, e])
      else:
        view.append(d)
    return tuple(view), tuple(i for i in range(len(view)) if i not in keep)
  a = rank - 1 if scale_axis is None else scale_axis
  view = tuple(shape[:a]) + (shape[a] // eps, eps) + tuple(shape[a + 1:])
  return view, tuple(i for i in range(len(view)) if i != a)


def binary_scenario(alpha_kind, use_01, shape, scale_axis=None, bounds_po2=None, cls="binary", eps=None):
  def scenario(ip):
    s = Scen()
    ip.aggs = []
    ip.learning_phase = 0
    kw = {"use_01": use_01}
    a = None
    if alpha_kind == "const":
      a = z3.Real("alpha")
      s.vars["alpha"] = a
      ip.assume(a > 0)
      kw["alpha"] = SNum(a, "float")
    elif alpha_kind in ("auto", "auto_po2"):
      kw["alpha"] = alpha_kind
    if scale_axis is not None:
      kw["scale_axis"] = scale_axis
    if eps is not None:
      kw["elements_per_scale"] = eps
      import pyvc.values as _V
      _V.STRICT_SHAPES[0] = True        # the reshape / repeat of the grouping must produce shapes that broadcast
    lo = hi = None
    if bounds_po2:
      # bounds_po2: True/"both", "min" (only min_po2_exponent configured) or "max"
      if bounds_po2 in (True, "both", "min"):
        lo = z3.Int("min_e")
        s.vars["min_e"] = lo
        kw["min_po2_exponent"] = SNum(lo, "int")
        s.hints.append(lo)
      if bounds_po2 in (True, "both", "max"):
        hi = z3.Int("max_e")
        s.vars["max_e"] = hi
        kw["max_po2_exponent"] = SNum(hi, "int")
        s.hints.append(hi)
      if lo is not None and hi is not None:
        ip.assume(lo <= hi)
    if cls == "stochastic_binary":
      kw.pop("use_01")
    q = ip.call(Q.qcls(ip, cls), [], kw)
    x = Q.tensor("x", shape=shape)
    s.vars["x"] = x.e
    s.replay = {"class": cls, "kwargs": {k: (v if not isinstance(v, SNum) else v.e) for k, v in kw.items()},
                "shape": list(shape)}
    if eps is not None and alpha_kind in ("auto", "auto_po2") and not bounds_po2:
      # positions: the element-wise proof below cannot tell repeat from tile (one generic element); bounded native probe
      s.info["native_probes"] = [{"clause": "group_scale_positions", "kind": "c04_eps_probe",
                                  "witness": {"class": cls, "kwargs": {"use_01": use_01, "alpha": alpha_kind, "scale_axis": scale_axis,
                                                                       "elements_per_scale": eps},
                                              "shape": list(shape), "scale_axis": scale_axis, "eps": eps},
                                  "bound": "native run on 3 seeded tensors whose blocks differ in magnitude by powers of 4"}]
    r = Q.call(ip, q, x)
    s.claim("no_raise", r[0] == "return")
    if r[0] != "return":
      s.info["raised"] = str(r[1])
      return s
    ret = Q.value(r)
    xe = x.e
    if alpha_kind == "none" and cls == "binary":
      pass
    code = z3.If(xe >= 0, z3.RealVal(1), z3.RealVal(0 if use_01 else -1))
    sc = ip.getattr(q, "scale")
    sce = Q.num_value(sc)
    s.vars["scale"] = sce
    s.claim("code", ret == sce * code)
    if alpha_kind == "none":
      s.claim("scale_const", sce == 1)
    elif alpha_kind == "const":
      s.claim("scale_const", sce == a)
    else:
      rank = len(shape)
      axes = expected_axes(rank, scale_axis)
      if rank == 1:
        qx, qq = xe * code, code * code
      else:
        # the reduction the code performed over exactly the expected group (the element-wise ops of the library
        # model do not carry extents, so the extent part of the key is whatever the code's reduction recorded)
        if eps is not None:
          view, axes = expected_group(shape, scale_axis, eps)
          keys = [k for _, _, _, k in ip.aggs if k[0] == "K.mean" and k[2] == axes and tuple(k[1]) == view]
          means = [k for kind, _, _, k in ip.aggs if kind == "K.mean"]
          s.claim("scale_group", bool(means) and all(k[2] == axes and tuple(k[1]) == view for k in means))
        else:
          keys = [k for _, _, _, k in ip.aggs if k[0] == "K.mean" and k[2] == axes]
        f = L._AGG_FUNS.get(keys[0]) if keys else None
        if f is None:
          s.claim("scale_ls", False)
          s.info["raised"] = "no reduction over the expected group %r was performed; groups used: %r" % (
              axes, sorted(set(k for _, _, _, k in ip.aggs), key=repr))
          return s
        qx, qq = f(xe * code), f(code * code)
      used = apply_mean_lemmas(ip, xe)
      s.info["lemmas"] = used
      ls = qx / (qq + EPS)
      if alpha_kind == "auto":
        s.claim("scale_ls", sce * (qq + EPS) == qx)
        s.claim("scale_nonneg", sce >= 0)
      else:
        e = z3.Int("scale_exp")
        lg = I.LOG2(ls + EPS)
        ip.assume(L.rnd_axiom_formula(lg))
        raw = I.RND(lg)
        e_spec = raw
        if lo is not None:
          e_spec = z3.If(e_spec < lo, lo, e_spec)
        if hi is not None:
          e_spec = z3.If(e_spec > hi, hi, e_spec)
        s.hints.extend([raw, e_spec])
        s.claim("scale_po2", sce == P(e_spec))
        if bounds_po2:
          s.claim("scale_po2_bounds", z3.And(lo <= e_spec if lo is not None else True, e_spec <= hi if hi is not None else True))
        s.claim("scale_nonneg", sce > 0)
    return s
  return scenario


TERNARY_AUTO_SPEC = """
import numpy as np
import tensorflow as tf
import tensorflow.keras.backend as K
from qkeras.quantizers import _round_through
from qkeras.quantizers import _get_least_squares_scale


def ternary_auto_spec(x, alpha, axis, rounds):
  # the documented iteration (ternary weight networks, arXiv 1605.04711, as described in ternary's docstring and
  # comments): start from scale = 2 max|x| / 3 (rounded to a power of two for auto_po2); in every round the code is
  # sign(x) where the magnitude, rounded to thirds of the CURRENT scale, reaches HALF THE CURRENT scale, and the scale
  # becomes the least-squares optimum for that code
  m = K.max(tf.abs(x), axis=axis, keepdims=True)
  scale = 2 * m / 3.0
  if "po2" in alpha:
    scale = K.pow(2.0, tf.math.round(K.log(scale + K.epsilon()) / np.log(2.0)))
  q = None
  for _ in range(rounds):
    thres = scale / 2.0
    v = scale * _round_through(x / scale, use_stochastic_rounding=False, precision=1. / 3.)
    q = K.cast(tf.abs(v) >= thres, K.floatx()) * tf.sign(x)
    scale = _get_least_squares_scale(alpha, x, q)
  return scale * q, scale
"""


def ternary_scenario(alpha_kind, thr_kind, shape, cls="ternary"):
  def scenario(ip):
    s = Scen()
    ip.aggs = []
    ip.learning_phase = 0
    kw = {}
    a = t = None
    if alpha_kind == "const":
      a = z3.Real("alpha")
      s.vars["alpha"] = a
      ip.assume(a > 0)
      kw["alpha"] = SNum(a, "float")
    elif alpha_kind in ("auto", "auto_po2"):
      kw["alpha"] = alpha_kind
    if thr_kind == "sym":
      t = z3.Real("threshold")
      s.vars["threshold"] = t
      ip.assume(t >= 0)    # 0 is a legal explicit threshold (seed c04-3 treated it as unset)
      kw["threshold"] = SNum(t, "float")
    q = ip.call(Q.qcls(ip, cls), [], kw)
    x = Q.tensor("x", shape=shape)
    s.vars["x"] = x.e
    s.replay = {"class": cls, "kwargs": {k: (v if not isinstance(v, SNum) else v.e) for k, v in kw.items()},
                "shape": list(shape)}
    r = Q.call(ip, q, x)
    s.claim("no_raise", r[0] == "return")
    if r[0] != "return":
      s.info["raised"] = str(r[1])
      return s
    ret = Q.value(r)
    xe = x.e
    ax = z3.If(xe >= 0, xe, -xe)
    sgn = z3.If(xe > 0, z3.RealVal(1), z3.If(xe < 0, z3.RealVal(-1), z3.RealVal(0)))
    sc = ip.getattr(q, "scale")
    sce = Q.num_value(sc)
    s.vars["scale"] = sce
    if alpha_kind in ("none", "const"):
      thr = t if t is not None else Q.num_value(ip.getattr(q, "default_threshold"))
      code = z3.If(ax >= thr, sgn, z3.RealVal(0))
      s.claim("code", ret == sce * code)
      s.claim("zero_iff_below", (ret == 0) == z3.Or(ax < thr, xe == 0))
      s.claim("scale_const", sce == (1 if alpha_kind == "none" else a))
      if t is None:
        s.claim("default_threshold", thr == zreal(0.33))
      return s
    # auto / auto_po2: weights.  Operational postcondition: the result and the exposed scale are those of the documented
    # iteration (executed by the same interpreter on the same input, so the group reductions are the same terms)
    if cls == "ternary":
      sm = ip.load_source("c04_ternary_auto_spec", TERNARY_AUTO_SPEC)
      rank_ = len(shape)
      axis_ = None if rank_ == 1 else list(range(rank_ - 1))
      rounds = ip.getattr(q, "number_of_unrolls")
      rs = run_call(ip, sm.env.vars["ternary_auto_spec"], [x, alpha_kind, axis_, rounds])
      if rs[0] == "return":
        s.claim("documented_iteration", z3.And(ret == Q.num_value(rs[1][0]), sce == Q.num_value(rs[1][1])))
      else:
        s.info["raised"] = "spec: %s" % (rs[1],)
        s.claim("documented_iteration", False)
    used = apply_mean_lemmas(ip, xe)
    s.info["lemmas"] = used
    code = z3.Real("code")
    s.vars["code"] = code
    ip.assume(ret == sce * code)            # definition of the emitted code when scale != 0
    s.claim("code_set", z3.Implies(sce != 0, z3.Or(code == -1, code == 0, code == 1)))
    s.claim("code_sign", z3.Implies(sce > 0, code * xe >= 0))
    s.claim("scale_nonneg", sce >= 0)
    rank = len(shape)
    if rank > 1:
      axes = expected_axes(rank, None)
      means = [k for kind, _, _, k in ip.aggs if kind == "K.mean"]
      s.claim("scale_group", bool(means) and all(k[2] == axes for k in means))
    return s
  return scenario


def bounds(vars_):
  cs = []
  for k, v in vars_.items():
    if k in ("min_e", "max_e"):
      cs.append(z3.And(v >= -6, v <= 6))
  return cs


def cases(tier):
  out = []
  B = Q.QF + "binary.__call__"
  T = Q.QF + "ternary.__call__"
  for use_01 in (False, True):
    for ak in ("none", "const"):
      out.append(Case(PROP, B, "alpha-%s_use01-%d" % (ak, use_01), binary_scenario(ak, use_01, (1,)),
                      replay_kind="c04", assumptions=ASSUME))
    for ak in ("auto", "auto_po2"):
      for shape in ((5,), (3, 4), (2, 3, 4), (2, 2, 3, 4)):
        out.append(Case(PROP, B, "alpha-%s_use01-%d_rank%d" % (ak, use_01, len(shape)),
                        binary_scenario(ak, use_01, shape), replay_kind="c04", assumptions=ASSUME, bounds=bounds,
                        lo=-40, hi=40))
  # requires (documented, asserted by _validate_axis_and_eps): scale_axis is set whenever elements_per_scale is used
  for ak, shape, sa, eps in (("auto", (3, 4), 1, 2), ("auto_po2", (3, 4), 1, 2), ("auto", (4, 6), 0, 2),
                             ("auto", (2, 2, 3, 4), 3, 2), ("auto", (4, 6), [0, 1], [2, 3]), ("auto", (2, 4, 6), [1, 2], 2)):
    out.append(Case(PROP, B, "alpha-%s_eps%s%s_rank%d" % (ak, str(eps).replace(", ", "x").strip("[]"),
                                                          "" if sa is None else "_scale_axis%s" % str(sa).replace(", ", "x").strip("[]"),
                                                          len(shape)),
                    binary_scenario(ak, False, shape, scale_axis=sa, eps=eps), replay_kind="c04", assumptions=ASSUME,
                    bounds=bounds, lo=-40, hi=40))
  out.append(Case(PROP, B, "alpha-auto_scale_axis0_rank2", binary_scenario("auto", False, (3, 4), scale_axis=0),
                  replay_kind="c04", assumptions=ASSUME))
  for bk in ("both", "min", "max"):
    out.append(Case(PROP, B, "alpha-auto_po2_bounded-%s_rank2" % bk, binary_scenario("auto_po2", False, (3, 4), bounds_po2=bk),
                    replay_kind="c04", assumptions=ASSUME, bounds=bounds))
  for ak in ("none", "const"):
    for tk in ("default", "sym"):
      out.append(Case(PROP, T, "alpha-%s_thr-%s" % (ak, tk), ternary_scenario(ak, tk, (1,)),
                      replay_kind="c04", assumptions=ASSUME))
  for ak in ("auto", "auto_po2"):
    for shape in ((5,), (3, 4), (2, 2, 3, 4)):
      out.append(Case(PROP, T, "alpha-%s_rank%d" % (ak, len(shape)), ternary_scenario(ak, "default", shape),
                      replay_kind="c04", assumptions=ASSUME, timeout_ms=60000))
  # stochastic variants in the inference phase (learning_phase = 0)
  for ak in ("none", "const", "auto", "auto_po2"):
    shape = (3, 4) if ak.startswith("auto") else (1,)
    out.append(Case(PROP, Q.QF + "stochastic_binary.__call__", "inference_alpha-%s" % ak,
                    binary_scenario(ak, False, shape, cls="stochastic_binary"), replay_kind="c04", assumptions=ASSUME))
    out.append(Case(PROP, Q.QF + "stochastic_ternary.__call__", "inference_alpha-%s" % ak,
                    ternary_scenario(ak, "default", shape, cls="stochastic_ternary"), replay_kind="c04",
                    assumptions=ASSUME, timeout_ms=60000))
  return out
