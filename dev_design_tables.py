"""Dev tool: regenerate the generated block of DESIGN.md (section 11 tables) from known_findings.json, seeded/*/meta.json,
evidence/*.json and dev_mutants.py."""
import glob, json, os, re
V = "/verif"
out = []
kf = json.load(open(V + "/known_findings.json"))
ev = {}
for f in sorted(glob.glob(V + "/evidence/C*.json")):
  e = json.load(open(f)); ev[e["property_id"]] = e
out.append("#### Status per property (from the evidence files of the last quick run)\n")
out.append("| property | level | obligations (discharged) | VCs | bounded stand-in cases | known findings reproduced | functions under contract | wall s |")
out.append("|---|---|---|---|---|---|---|---|")
for p, e in sorted(ev.items()):
  c = e["coverage"]
  out.append("| %s | %s | %d (%d) | %d | %d | %s | %d | %.0f |" % (
      p, e["level"], c.get("obligations", 0), c.get("discharged", 0), c.get("vcs", 0), len(c.get("bounded", [])),
      ", ".join(c.get("known_findings_confirmed", [])) or "-", len(c.get("functions_under_contract", {})), e["wall_s"]))
out.append("\n#### Genuine defects repaired in /repo (`fix:` commits)\n")
for f in kf["fixed"]:
  out.append("- " + f)
out.append("\n#### Genuine defects recorded as known findings (`known_findings.json`)\n")
out.append("| id | property | obligations carved | what fails |")
out.append("|---|---|---|---|")
for f in kf["findings"]:
  out.append("| %s | %s | %d | %s |" % (f["id"], f["property"], len(f["entries"]), f["what"].replace("|", "/")))
out.append("\n#### Seeded changes produced by independent sub-agents (`seeded/<id>/`)\n")
out.append("| seed | property | change | needs | result |")
out.append("|---|---|---|---|---|")
for d in sorted(glob.glob(V + "/seeded/*/meta.json")):
  m = json.load(open(d))
  res = "detected" + (" after strengthening: " if m.get("detected_after_strengthening") else ": ") + m.get("checks_run", "")
  out.append("| %s | %s | %s | %s | %s |" % (m["seed"], m["breaks_property"], m["change"].replace("|", "/"),
                                            m["needs_to_manifest"].replace("|", "/"), res.replace("|", "/")))
src = open(V + "/dev_mutants.py").read()
n = {}
for m in re.finditer(r'^ \("(C\d\d)",', src, re.M):
  n[m.group(1)] = n.get(m.group(1), 0) + 1
out.append("\n#### Scripted mutants (`dev_mutants.py`, applied to a scratch copy, never committed to /repo)\n")
out.append(", ".join("%s: %d" % kv for kv in sorted(n.items())) + " - see section 11.6 for the outcome.")
block = "\n".join(out)
s = open(V + "/DESIGN.md").read()
a, b = "<!-- GENERATED:BEGIN -->", "<!-- GENERATED:END -->"
if a in s:
  s = s[:s.index(a) + len(a)] + "\n" + block + "\n" + s[s.index(b):]
  open(V + "/DESIGN.md", "w").write(s)
  print("updated generated block (%d lines)" % len(out))
else:
  print(block)
