"""Dev tool (not run by checks): regenerate the C16 entries of known_findings.json from rules."""
import json, sys
sys.path.insert(0, '/verif')
from contracts import c16, qtypes as Q
FX = ("qbits", "qrelu"); PO = ("po2", "relu_po2")
F = {
 "C16-shifter-neg-overflow": "Shifter output type cannot hold (most negative fixed-point code) x (-2^max_exp) of a signed po2 operand: the positive product needs one more bit",
 "C16-po2-maxle1-exp": "quantizer_impl.get_exp ignores that quantized_po2/quantized_relu_po2 reuse the exponent sign bit when max_value <= 1: exponents below -2^(bits-sign-1) are emitted but not covered by Shifter/Adder output types",
 "C16-mux-neg-overflow": "Mux output type (operand's own format) cannot hold (most negative fixed-point code) x (-1) of a ternary / binary +-1 operand",
 "C16-andgate-relu11-intbits": "AndGate takes int_bits from the weight operand when the 0/1 weight is a quantized_relu(1,1) type (name != 'binary'), so the data operand's fractional bits are lost",
 "C16-zero-po2": "a ternary / 0-1 operand makes the product 0, but the reported power-of-two output type has no zero",
 "C16-adder-mixed-sign": "Adder (po2 x po2) sizes the output exponent field as max(bits)+1 including the sign bits, which is too small when one operand is signed and the other is not",
}
ent = {k: [] for k in F}
def mvs(k): return ["none", "le1", "gt1", "v3", "v6"] if k in PO else [None]
for wk in Q.KINDS:
  for xk in Q.KINDS:
    for wmv in mvs(wk):
      for xmv in mvs(xk):
        if ((wmv or "").startswith("v") and xmv not in (None, "none")) or \
           ((xmv or "").startswith("v") and wmv not in (None, "none")):
          continue
        name = "%s%s_x_%s%s" % (wk, "" if wmv is None else "-mv" + wmv, xk, "" if xmv is None else "-mv" + xmv)
        ob = "C16/%s/%s/fits_prod" % (c16.MF, name)
        def add(fid, ex): ent[fid].append({"obligation": ob, "exclude": ex})
        # shifter overflow
        if wk == "qbits" and xk == "po2":
          add("C16-shifter-neg-overflow", "And(w_signed == 1, a_k == w_lo, b_s == -1, b_e == x_emax)")
        if wk == "po2" and xk == "qbits":
          add("C16-shifter-neg-overflow", "And(x_signed == 1, b_k == x_lo, a_s == -1, a_e == w_emax)")
        # max_value <= 1
        if wmv == "le1" and xk in FX + PO:
          add("C16-po2-maxle1-exp", "a_e < -ipow2(w_nsb - 1)")
        if xmv == "le1" and wk in FX + PO:
          add("C16-po2-maxle1-exp", "b_e < -ipow2(x_nsb - 1)")
        # mux overflow
        if wk == "qbits" and xk in ("ternary", "binary"):
          add("C16-mux-neg-overflow", "And(w_signed == 1, a_k == w_lo, b_v == -1)")
        if xk == "qbits" and wk in ("ternary", "binary"):
          add("C16-mux-neg-overflow", "And(x_signed == 1, b_k == x_lo, a_v == -1)")
        # and gate
        if wk == "qrelu" and xk in FX:
          add("C16-andgate-relu11-intbits", "And(w_bits == 1, w_int == 1)")
        # zero x po2
        if xk in PO and wk in ("ternary", "binary01"):
          add("C16-zero-po2", "a_v == 0")
        if wk in PO and xk in ("ternary", "binary01"):
          add("C16-zero-po2", "b_v == 0")
        if xk in PO and wk == "qrelu":
          add("C16-zero-po2", "And(w_bits == 1, w_int == 1, a_k == 0)")
        if wk in PO and xk == "qrelu":
          add("C16-zero-po2", "And(x_bits == 1, x_int == 1, b_k == 0)")
        # adder mixed sign
        if {wk, xk} == {"po2", "relu_po2"}:
          # the output exponent field has m = max(bits) bits: sums of exponents outside [-2^(m-1), 2^(m-1)-1] are lost
          m = "If(w_bits > x_bits, w_bits, x_bits)"
          add("C16-adder-mixed-sign", "Or(a_e + b_e < -ipow2(%s - 1), a_e + b_e > ipow2(%s - 1) - 1)" % (m, m))
path = '/verif/known_findings.json'
data = json.load(open(path))
data["findings"] = [f for f in data["findings"] if f["property"] != "C16"]
for fid, what in F.items():
  data["findings"].append({"id": fid, "property": "C16", "what": what, "entries": ent[fid]})
json.dump(data, open(path, "w"), indent=1)
print({k: len(v) for k, v in ent.items()})
